#!/usr/bin/env python3
"""Evaluate a seeded change:  tools/seed_eval.py <dir with patch.diff and demo.py> [--checks C01,C02] [--skip-tests]

1. makes a scratch worktree of /repo HEAD under a mktemp directory (outside /repo and /verif),
2. confirms: demo passes on the pristine tree, the patch applies, the existing test suite still passes with it,
   the demo fails with it,
3. runs the checks (all, or the listed ones) against the patched scratch tree (VERIF_REPO) and reports which fire,
4. removes the scratch worktree.
Prints a JSON summary (also used to fill seeded/<id>/meta.json).
"""
import json
import os
import shutil
import subprocess
import sys
import tempfile

VERIF = os.path.dirname(os.path.dirname(os.path.abspath(__file__)))
ALL = ['C%02d' % i for i in range(1, 21)]


def sh(cmd, cwd=None, env=None, timeout=1800):
    p = subprocess.run(cmd, shell=True, cwd=cwd, env=env, stdout=subprocess.PIPE, stderr=subprocess.STDOUT, timeout=timeout)
    return p.returncode, p.stdout.decode(errors='replace')


def main(argv):
    d = os.path.abspath(argv[0])
    checks = ALL
    skip_tests = '--skip-tests' in argv
    for i, a in enumerate(argv):
        if a == '--checks':
            checks = argv[i + 1].split(',')
    patch = os.path.join(d, 'patch.diff')
    demo = os.path.join(d, 'demo.py')
    tmp = tempfile.mkdtemp(prefix='sv_seed_')
    wt = os.path.join(tmp, 'wt')
    out = {'dir': d, 'checks_run': checks}
    try:
        rc, o = sh('git -C /repo worktree add -q --detach %s HEAD' % wt)
        if rc:
            out['error'] = 'worktree: ' + o
            return out
        env = dict(os.environ, PYTHONPATH=wt)
        if os.path.exists(demo):
            rc, o = sh('/venv/bin/python %s' % demo, cwd=wt, env=env, timeout=600)
            out['demo_pristine_rc'] = rc
            out['demo_pristine_tail'] = o[-300:]
        rc, o = sh('git apply %s' % patch, cwd=wt)
        out['patch_applies'] = rc == 0
        if rc:
            out['error'] = 'patch does not apply: ' + o[-500:]
            return out
        if not skip_tests:
            rc, o = sh('/venv/bin/python -m pytest -q -p no:cacheprovider --timeout=900 -x', cwd=wt, timeout=1800)
            out['tests_rc'] = rc
            out['tests_tail'] = o.strip().splitlines()[-1] if o.strip() else ''
        if os.path.exists(demo):
            rc, o = sh('/venv/bin/python %s' % demo, cwd=wt, env=env, timeout=600)
            out['demo_patched_rc'] = rc
            out['demo_patched_tail'] = o[-400:]
        fired = {}
        errors = {}
        for c in checks:
            env2 = dict(os.environ, VERIF_REPO=wt)
            rc, o = sh('./check %s --no-write --no-controls' % c, cwd=VERIF, env=env2, timeout=900)
            if rc == 1:
                fired[c] = [l for l in o.splitlines() if l.startswith('FINDING')][:6]
            elif rc != 0:
                errors[c] = o[-400:]
        out['fired'] = fired
        out['analysis_errors'] = errors
        return out
    finally:
        sh('git -C /repo worktree remove --force %s' % wt)
        shutil.rmtree(tmp, ignore_errors=True)


if __name__ == '__main__':
    res = main(sys.argv[1:])
    print(json.dumps(res, indent=1))
