#!/usr/bin/env python3
"""tools/show_mutant.py <results.json> <prop> <status> [func substring]: one line per mutant: id and the changed source line(s)"""
import ast, difflib, json, os, sys
HERE = os.path.dirname(os.path.dirname(os.path.abspath(__file__)))
sys.path.insert(0, HERE)
sys.path.insert(0, os.path.join(HERE, 'tools'))
import selftest as st

def main():
    res, prop, status = sys.argv[1:4]
    sub = sys.argv[4] if len(sys.argv) > 4 else ''
    d = json.load(open(res))[prop]
    r = st.repo()
    for mid in d.get(status, []):
        if sub not in mid:
            continue
        rel, q, km = mid.split('::')
        kind, idx = km.split('#')
        tree = ast.parse(r.sources[rel])
        base = ast.unparse(st.find_function(ast.parse(r.sources[rel]), q)).splitlines()
        fn = st.find_function(tree, q)
        st.apply_mutation(fn, kind, int(idx))
        new = ast.unparse(fn).splitlines()
        ch = [l for l in difflib.unified_diff(base, new, lineterm='', n=0) if l[:1] in '+-' and l[:3] not in ('+++', '---')]
        print('%-42s %s' % (q + '::' + km, ' | '.join(x.strip()[:90] for x in ch[:2])))
main()
