#!/usr/bin/env python3
"""Self-test of the checkers (not a MANIFEST command):  tools/selftest.py [--jobs 16] [--props C01,C04] [--benign] [--mutants] [--limit N]

* benign variants of the whole repository (re-formatting through ast.unparse, consistent renaming of every local variable,
  x**2 -> x*x, positional -> keyword arguments): every check must stay free of VIOLATED instances;
* generic AST mutants of the anchored functions (trig/hyperbolic function swapped, numeric constant changed, sign flipped,
  operator exchanged, argument dropped / swapped, own-ellipsoid attribute replaced by the module constant, comparison flipped):
  the property's check should report VIOLATED; UNDECIDED and SILENT mutants are listed for triage.
Everything is computed in memory (Repo.variant); nothing is written to /repo.
"""
import ast
import copy
import importlib
import json
import os
import sys
import time
from multiprocessing import Pool

HERE = os.path.dirname(os.path.dirname(os.path.abspath(__file__)))
sys.path.insert(0, HERE)
sys.setrecursionlimit(20000)

TARGETS = {
    'C01': [('geodepy/convert.py', ['geo2grid', 'alpha_coeff', 'rect_radius'])],
    'C02': [('geodepy/convert.py', ['grid2geo', 'beta_coeff']), ('Standalone/mga2gda.py', ['grid2geo'])],
    'C03': [('geodepy/convert.py', ['llh2xyz', 'xyz2llh'])],
    'C04': [('geodepy/geodesy.py', ['vincdir'])],
    'C05': [('geodepy/geodesy.py', ['vincinv'])],
    'C06': [('geodepy/transform.py', ['conform7']), ('geodepy/constants.py', ['Transformation.__neg__'])],
    'C07': [('geodepy/constants.py', ['Transformation.__add__']), ('geodepy/transform.py', ['conform14', 'transform_atrf2014_to_gda2020', 'transform_gda2020_to_atrf2014'])],
    'C08': [('geodepy/angles.py', ['dec2hp', 'hp2dec', 'dec2dms', 'dec2ddm', 'hp2dms', 'hp2ddm', 'dec2gon', 'gon2dec', 'gon2hp', 'DMSAngle.dec', 'DMSAngle.hp',
                                   'DDMAngle.dec', 'DDMAngle.hp', 'DMSAngle.__init__', 'DDMAngle.__init__', 'HPAngle.__init__', 'GONAngle.hpa', 'HPAngle.gona'])],
    'C09': [('geodepy/statistics.py', ['vcv_cart2local', 'relative_error']), ('geodepy/survey.py', ['precise_inst_ht']), ('geodepy/constants.py', ['Transformation.__add__'])],
    'C10': [('geodepy/convert.py', ['psfandgridconv'])],
    'C11': [('geodepy/constants.py', ['iers2trans', 'Transformation.__neg__', 'Transformation.__add__'])],
    'C12': [('geodepy/angles.py', ['HPAngle.__add__', 'GONAngle.__rsub__', 'DMSAngle.__mul__', 'DDMAngle.__truediv__', 'DMSAngle.__lt__', 'HPAngle.__eq__',
                                   'DMSAngle.__neg__', 'DDMAngle.__neg__', 'DMSAngle.__abs__', 'DMSAngle.__round__', 'DDMAngle.__round__', 'DECAngle.__sub__'])],
    'C13': [('geodepy/transform.py', ['transform_mga94_to_mga2020', 'transform_mga2020_to_mga94'])],
    'C14': [('geodepy/geodesy.py', ['vincdir_utm', 'vincinv_utm', 'line_sf', 'rho', 'nu'])],
    'C15': [('geodepy/coord.py', ['CoordCart.geo', 'CoordGeo.cart', 'CoordGeo.tm', 'CoordTM.geo', 'CoordGeo.notation', 'CoordCart.__init__'])],
    'C16': [('geodepy/statistics.py', ['rotation_matrix', 'vcv_cart2local', 'vcv_local2cart', 'error_ellipse', 'relative_error', 'k_val95']),
            ('geodepy/geodesy.py', ['enu2xyz', 'xyz2enu'])],
    'C17': [('geodepy/ntv2reader.py', ['SubGrid.ntv2_bilinear', 'SubGrid.ntv2_bicubic', 'bilinear_interpolation', 'bicubic_interpolation', 'interpolate_ntv2', 'read_node']),
            ('geodepy/transform.py', ['ntv2_2d'])],
    'C18': [('geodepy/gnss.py', ['set_creation_time', 'read_sinex_estimate', 'read_sinex_sites', 'remove_matrixzeros_sinex', 'remove_stns_sinex', 'remove_velocity_sinex', 'read_sinex_matrix'])],
    'C19': [('geodepy/convert.py', ['polar2rect', 'rect2polar']), ('geodepy/survey.py', ['joins', 'radiations', 'va_conv', 'first_vel_corrn', 'part_h2o_vap_press', 'group_refractivity'])],
    'C20': [('api/app.py', ['handle_vincinv', 'handle_vincdir'])],
}

SWAP = {'sin': 'cos', 'cos': 'sin', 'sinh': 'cosh', 'cosh': 'sinh', 'tan': 'sin', 'atan': 'tan', 'radians': 'degrees', 'degrees': 'radians'}


def find_function(tree, qualname):
    body = tree.body
    node = None
    for p in qualname.split('.'):
        node = None
        for st in body:
            if isinstance(st, (ast.FunctionDef, ast.ClassDef)) and st.name == p:
                node = st
                break
        if node is None:
            return None
        body = node.body
    return node


def sites(fn):
    """list of (kind, index) mutation sites in a function"""
    out = []
    counts = {}

    def add(kind):
        counts[kind] = counts.get(kind, 0) + 1
        out.append((kind, counts[kind] - 1))
    for n in ast.walk(fn):
        if isinstance(n, ast.Call) and isinstance(n.func, ast.Name) and n.func.id in SWAP:
            add('fn')
        if isinstance(n, ast.Constant) and isinstance(n.value, (int, float)) and not isinstance(n.value, bool) and n.value not in (0, 1):
            add('const')
        if isinstance(n, ast.Constant) and isinstance(n.value, int) and not isinstance(n.value, bool) and n.value in (0, 1):
            add('const01')
        if isinstance(n, ast.BinOp) and isinstance(n.op, (ast.Add, ast.Sub)):
            add('addsub')
        if isinstance(n, ast.BinOp) and isinstance(n.op, (ast.Mult, ast.Div)):
            add('muldiv')
        if isinstance(n, ast.UnaryOp) and isinstance(n.op, ast.USub):
            add('neg')
        if isinstance(n, ast.Call) and len(n.args) >= 2:
            add('swapargs')
        if isinstance(n, ast.Call) and len(n.args) >= 3 and isinstance(n.func, ast.Name) and n.func.id[0].islower():
            add('droparg')
        if isinstance(n, ast.Attribute) and isinstance(n.value, ast.Name) and n.value.id == 'ellipsoid' and isinstance(n.ctx, ast.Load):
            add('const_ell')
        if isinstance(n, ast.Compare) and len(n.ops) == 1 and isinstance(n.ops[0], (ast.Lt, ast.Gt, ast.LtE, ast.GtE)):
            add('cmp')
        if isinstance(n, ast.Subscript) and isinstance(n.slice, ast.Constant) and isinstance(n.slice.value, int) and isinstance(n.ctx, ast.Load):
            add('index')
    return out


def apply_mutation(fn, kind, index):
    k = [0]
    done = [False]

    class T(ast.NodeTransformer):
        def hit(self):
            k[0] += 1
            return k[0] - 1 == index and not done[0]

        def visit(self, n):
            n = self.generic_visit(n)
            if done[0]:
                return n
            if kind == 'fn' and isinstance(n, ast.Call) and isinstance(n.func, ast.Name) and n.func.id in SWAP:
                if self.hit():
                    n.func = ast.Name(id=SWAP[n.func.id], ctx=ast.Load())
                    done[0] = True
            elif kind == 'const' and isinstance(n, ast.Constant) and isinstance(n.value, (int, float)) and not isinstance(n.value, bool) and n.value not in (0, 1):
                if self.hit():
                    done[0] = True
                    return ast.Constant(value=(n.value + 1 if isinstance(n.value, int) else n.value * 1.5))
            elif kind == 'const01' and isinstance(n, ast.Constant) and isinstance(n.value, int) and not isinstance(n.value, bool) and n.value in (0, 1):
                if self.hit():
                    done[0] = True
                    return ast.Constant(value=n.value + 1)
            elif kind == 'addsub' and isinstance(n, ast.BinOp) and isinstance(n.op, (ast.Add, ast.Sub)):
                if self.hit():
                    n.op = ast.Sub() if isinstance(n.op, ast.Add) else ast.Add()
                    done[0] = True
            elif kind == 'muldiv' and isinstance(n, ast.BinOp) and isinstance(n.op, (ast.Mult, ast.Div)):
                if self.hit():
                    n.op = ast.Div() if isinstance(n.op, ast.Mult) else ast.Mult()
                    done[0] = True
            elif kind == 'neg' and isinstance(n, ast.UnaryOp) and isinstance(n.op, ast.USub):
                if self.hit():
                    done[0] = True
                    return n.operand
            elif kind == 'swapargs' and isinstance(n, ast.Call) and len(n.args) >= 2:
                if self.hit():
                    n.args[0], n.args[1] = n.args[1], n.args[0]
                    done[0] = True
            elif kind == 'droparg' and isinstance(n, ast.Call) and len(n.args) >= 3 and isinstance(n.func, ast.Name) and n.func.id[0].islower():
                if self.hit():
                    n.args = n.args[:-1]
                    done[0] = True
            elif kind == 'const_ell' and isinstance(n, ast.Attribute) and isinstance(n.value, ast.Name) and n.value.id == 'ellipsoid' and isinstance(n.ctx, ast.Load):
                if self.hit():
                    n.value = ast.Name(id='grs80', ctx=ast.Load())
                    done[0] = True
            elif kind == 'cmp' and isinstance(n, ast.Compare) and len(n.ops) == 1 and isinstance(n.ops[0], (ast.Lt, ast.Gt, ast.LtE, ast.GtE)):
                if self.hit():
                    n.ops = [{ast.Lt: ast.Gt, ast.Gt: ast.Lt, ast.LtE: ast.GtE, ast.GtE: ast.LtE}[type(n.ops[0])]()]
                    done[0] = True
            elif kind == 'index' and isinstance(n, ast.Subscript) and isinstance(n.slice, ast.Constant) and isinstance(n.slice.value, int) and isinstance(n.ctx, ast.Load):
                if self.hit():
                    n.slice = ast.Constant(value=n.slice.value + 1)
                    done[0] = True
            return n
    new_body = [T().visit(st) for st in fn.body]
    fn.body = new_body
    return done[0]


# ------------------------------------------------------------------------------------------------ benign transformations
def benign_unparse(src):
    return ast.unparse(ast.parse(src))


def benign_rename_locals(src):
    tree = ast.parse(src)

    def do_func(fn, inherited):
        params = set(a.arg for a in fn.args.args + fn.args.kwonlyargs + fn.args.posonlyargs)
        if fn.args.vararg:
            params.add(fn.args.vararg.arg)
        if fn.args.kwarg:
            params.add(fn.args.kwarg.arg)
        locs = set()
        nested = []
        declared = set()

        def collect(n, top):
            if isinstance(n, (ast.FunctionDef, ast.Lambda, ast.ClassDef)) and not top:
                if isinstance(n, ast.FunctionDef):
                    nested.append(n)
                return
            if isinstance(n, ast.Name) and isinstance(n.ctx, ast.Store):
                locs.add(n.id)
            if isinstance(n, (ast.Global, ast.Nonlocal)):
                declared.update(n.names)
            if isinstance(n, (ast.ListComp, ast.SetComp, ast.DictComp, ast.GeneratorExp)):
                return     # comprehension variables are left alone
            for c in ast.iter_child_nodes(n):
                collect(c, False)
        collect(fn, True)
        mapping = dict(inherited)
        for v in locs - params - declared:
            mapping[v] = v + '_rn'
        for p in params:
            mapping.pop(p, None)

        def rename(n, top):
            if isinstance(n, ast.FunctionDef) and not top:
                do_func(n, mapping)
                return
            if isinstance(n, (ast.Lambda, ast.ClassDef)) and not top:
                return
            if isinstance(n, (ast.ListComp, ast.SetComp, ast.DictComp, ast.GeneratorExp)):
                # rename only free uses of renamed locals that are not rebound by the comprehension
                bound = set(x.id for g in n.generators for x in ast.walk(g.target) if isinstance(x, ast.Name))
                for x in ast.walk(n):
                    if isinstance(x, ast.Name) and x.id in mapping and x.id not in bound:
                        x.id = mapping[x.id]
                return
            if isinstance(n, ast.Name) and n.id in mapping:
                n.id = mapping[n.id]
            for c in ast.iter_child_nodes(n):
                rename(c, False)
        for st in fn.body:
            rename(st, False)
        for d in fn.args.defaults + fn.args.kw_defaults:
            pass
    for n in ast.walk(tree):
        pass
    for st in tree.body:
        if isinstance(st, ast.FunctionDef):
            do_func(st, {})
        elif isinstance(st, ast.ClassDef):
            for m in st.body:
                if isinstance(m, ast.FunctionDef):
                    do_func(m, {})
    return ast.unparse(tree)


def benign_square(src):
    tree = ast.parse(src)

    class T(ast.NodeTransformer):
        def visit_BinOp(self, n):
            self.generic_visit(n)
            if isinstance(n.op, ast.Pow) and isinstance(n.right, ast.Constant) and n.right.value == 2 and isinstance(n.left, (ast.Name, ast.Attribute)):
                return ast.BinOp(left=n.left, op=ast.Mult(), right=copy.deepcopy(n.left))
            return n
    tree = T().visit(tree)
    ast.fix_missing_locations(tree)
    return ast.unparse(tree)


def benign_keywords(sources):
    """positional -> keyword arguments for calls to module-level functions of the repository (3rd argument onwards)"""
    sigs = {}
    for rel, src in sources.items():
        for st in ast.parse(src).body:
            if isinstance(st, ast.FunctionDef) and not st.args.vararg:
                sigs.setdefault(st.name, []).append([a.arg for a in st.args.args])
    out = {}
    for rel, src in sources.items():
        tree = ast.parse(src)
        local_defs = set(n.name for n in ast.walk(tree) if isinstance(n, ast.FunctionDef))

        class T(ast.NodeTransformer):
            def visit_Call(self, n):
                self.generic_visit(n)
                if isinstance(n.func, ast.Name) and n.func.id in sigs and len(sigs[n.func.id]) == 1 and not any(isinstance(a, ast.Starred) for a in n.args):
                    names = sigs[n.func.id][0]
                    if 2 < len(n.args) <= len(names):
                        keep = n.args[:2]
                        for nm, a in zip(names[2:], n.args[2:]):
                            n.keywords.append(ast.keyword(arg=nm, value=a))
                        n.args = keep
                return n
        tree = T().visit(tree)
        ast.fix_missing_locations(tree)
        out[rel] = ast.unparse(tree)
    return out


BENIGN = ['unparse', 'rename_locals', 'square', 'keywords']


def make_benign(repo, name):
    if name == 'keywords':
        return repo.variant(benign_keywords(repo.sources))
    f = {'unparse': benign_unparse, 'rename_locals': benign_rename_locals, 'square': benign_square}[name]
    return repo.variant(dict((rel, f(src)) for rel, src in repo.sources.items()))


# ------------------------------------------------------------------------------------------------ workers
_REPO = None


def repo():
    global _REPO
    if _REPO is None:
        from sv.model import Repo
        _REPO = Repo.load()
    return _REPO


def run_check(prop, variant):
    from sv import report
    from sv.model import AnalysisError
    mod = importlib.import_module('sv.props.%s' % prop.lower())
    rep = report.Reporter(prop, 'quick', 0, quiet=True)
    t0 = time.time()
    import signal

    class _Timeout(Exception):
        pass

    def _alarm(sig, frm):
        raise _Timeout()
    old_h = signal.signal(signal.SIGALRM, _alarm)
    signal.alarm(int(os.environ.get('SELFTEST_JOB_TIMEOUT', '180')))
    try:
        mod.run(variant, rep)
    except _Timeout:
        return {'status': 'timeout', 'msg': 'no verdict within the per-variant time limit', 'wall': time.time() - t0}
    except AnalysisError as e:
        return {'status': 'analysis-error', 'msg': str(e)[:200], 'wall': time.time() - t0}
    except Exception as e:
        return {'status': 'exception', 'msg': '%s: %s' % (type(e).__name__, str(e)[:200]), 'wall': time.time() - t0}
    finally:
        signal.alarm(0)
        signal.signal(signal.SIGALRM, old_h)
    known = set(k['key'] for k in report.load_known().get('open', []))
    viol = [i for i in rep.instances if i.verdict == report.VIOLATED and i.key not in known]
    und = [i for i in rep.instances if i.verdict == report.UNDECIDED]
    return {'status': 'violated' if viol else ('undecided' if und else 'silent'), 'violated': [i.key for i in viol][:5],
            'undecided': [i.key for i in und][:5], 'n_undecided': len(und), 'wall': time.time() - t0}


def job_benign(args):
    prop, name = args
    try:
        v = make_benign(repo(), name)
    except Exception as e:
        return ('benign', prop, name, {'status': 'exception', 'msg': 'variant: %s' % e})
    return ('benign', prop, name, run_check(prop, v))


def job_mutant(args):
    prop, rel, q, kind, index = args
    r = repo()
    tree = ast.parse(r.sources[rel])
    fn = find_function(tree, q)
    if fn is None or not apply_mutation(fn, kind, index):
        return ('mutant', prop, '%s::%s::%s#%d' % (rel, q, kind, index), {'status': 'not-applied'})
    ast.fix_missing_locations(tree)
    try:
        src = ast.unparse(tree)
        compile(src, rel, 'exec')
    except Exception as e:
        return ('mutant', prop, '%s::%s::%s#%d' % (rel, q, kind, index), {'status': 'not-compiling'})
    v = r.variant({rel: src})
    return ('mutant', prop, '%s::%s::%s#%d' % (rel, q, kind, index), run_check(prop, v))


def main(argv):
    import argparse
    ap = argparse.ArgumentParser()
    ap.add_argument('--jobs', type=int, default=16)
    ap.add_argument('--props', default=','.join(sorted(TARGETS)))
    ap.add_argument('--benign', action='store_true')
    ap.add_argument('--mutants', action='store_true')
    ap.add_argument('--limit', type=int, default=0, help='at most N mutants per function and kind')
    ap.add_argument('--out', default=os.path.join(HERE, 'selftest_results.json'))
    a = ap.parse_args(argv)
    props = a.props.split(',')
    if not a.benign and not a.mutants:
        a.benign = a.mutants = True
    jobs_b, jobs_m = [], []
    if a.benign:
        for p in props:
            for b in BENIGN:
                jobs_b.append((p, b))
    if a.mutants:
        r = repo()
        for p in props:
            for rel, funcs in TARGETS.get(p, []):
                tree = ast.parse(r.sources[rel])
                for q in funcs:
                    fn = find_function(tree, q)
                    if fn is None:
                        print('missing target', rel, q)
                        continue
                    per = {}
                    for kind, idx in sites(fn):
                        per[kind] = per.get(kind, 0) + 1
                        if a.limit and per[kind] > a.limit:
                            continue
                        jobs_m.append((p, rel, q, kind, idx))
    print('benign jobs: %d, mutant jobs: %d' % (len(jobs_b), len(jobs_m)))
    t0 = time.time()
    results = []
    with Pool(a.jobs) as pool:
        for res in pool.imap_unordered(job_benign, jobs_b):
            results.append(res)
        for res in pool.imap_unordered(job_mutant, jobs_m, chunksize=2):
            results.append(res)
    summary = {}
    for kind, prop, name, r in results:
        s = summary.setdefault(prop, {'benign': {}, 'mutants': {'violated': 0, 'undecided': 0, 'silent': 0, 'other': 0}, 'silent': [], 'undecided': [], 'benign_alarms': []})
        if kind == 'benign':
            s['benign'][name] = r['status'] + ('(%d undecided)' % r.get('n_undecided', 0) if r.get('n_undecided') else '')
            if r['status'] in ('violated', 'analysis-error', 'exception'):
                s['benign_alarms'].append((name, r.get('violated') or r.get('msg')))
        else:
            st = r['status']
            if st in ('violated', 'undecided', 'silent'):
                s['mutants'][st] += 1
            else:
                s['mutants']['other'] += 1
            if st == 'silent':
                s['silent'].append(name)
            if st == 'undecided':
                s['undecided'].append(name)
            if st in ('analysis-error', 'exception'):
                s.setdefault('errors', []).append((name, r.get('msg')))
    print('wall %.1fs' % (time.time() - t0))
    for p in sorted(summary):
        s = summary[p]
        print(p, 'benign:', s['benign'], 'mutants:', s['mutants'])
        for b in s['benign_alarms']:
            print('   BENIGN-ALARM', b)
    with open(a.out, 'w') as f:
        json.dump(summary, f, indent=1, sort_keys=True)
    return 0


if __name__ == '__main__':
    sys.exit(main(sys.argv[1:]))
