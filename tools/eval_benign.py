#!/usr/bin/env python3
"""tools/eval_benign.py [--own]: the other half of the regression: every benign/<name>/patch.diff is a change to /repo under which the
property still holds (twins of seeded changes: the same shape of edit, made so that behaviour is kept).  Each is applied to a scratch
worktree of /repo HEAD (outside /repo and /verif, removed afterwards), the test suite is run, and all 20 checks (--own, or a file OWN in the twin's directory: only the check
named by the first three letters) must exit 0 on it.  Prints every check that reports a violation or an analysis error."""
import json
import os
import shutil
import subprocess
import sys
import tempfile
from concurrent.futures import ThreadPoolExecutor

VERIF = os.path.dirname(os.path.dirname(os.path.abspath(__file__)))
ALL = ['C%02d' % i for i in range(1, 21)]


def one(name, own):
    d = os.path.join(VERIF, 'benign', name)
    tmp = tempfile.mkdtemp(prefix='sv_ben_')
    wt = os.path.join(tmp, 'wt')
    try:
        subprocess.run('git -C /repo worktree add -q --detach %s HEAD' % wt, shell=True, check=True, stdout=subprocess.PIPE, stderr=subprocess.PIPE)
        eq = os.path.join(d, 'equiv.py')
        dig0 = None
        if os.path.exists(eq):
            # the differential test of the twin: one DIGEST line, the same before and after the patch
            q0 = subprocess.run('/venv/bin/python %s' % eq, shell=True, cwd=wt, env=dict(os.environ, PYTHONPATH=wt), stdout=subprocess.PIPE, stderr=subprocess.DEVNULL, timeout=900)
            dig0 = [l for l in q0.stdout.decode(errors='replace').splitlines() if l.startswith('DIGEST')][-1:]
        p = subprocess.run('git apply %s' % os.path.join(d, 'patch.diff'), shell=True, cwd=wt, stdout=subprocess.PIPE, stderr=subprocess.STDOUT)
        if p.returncode:
            return name, 'patch-does-not-apply', {}
        if dig0 is not None:
            q1 = subprocess.run('/venv/bin/python %s' % eq, shell=True, cwd=wt, env=dict(os.environ, PYTHONPATH=wt), stdout=subprocess.PIPE, stderr=subprocess.DEVNULL, timeout=900)
            dig1 = [l for l in q1.stdout.decode(errors='replace').splitlines() if l.startswith('DIGEST')][-1:]
            if not dig0 or dig0 != dig1:
                return name, 'digest-differs (the twin is not behaviour-preserving on this tree)', {}
        t = subprocess.run('/venv/bin/python -m pytest -q -p no:cacheprovider --timeout=900 -x', shell=True, cwd=wt, stdout=subprocess.PIPE, stderr=subprocess.STDOUT)
        if t.returncode:
            return name, 'tests-fail', {}
        res = {}
        for c in ([name[:3]] if (own or os.path.exists(os.path.join(d, 'OWN'))) else ALL):
            q = subprocess.run('./check %s --no-write --no-controls' % c, shell=True, cwd=VERIF, env=dict(os.environ, VERIF_REPO=wt), stdout=subprocess.PIPE, stderr=subprocess.STDOUT, timeout=1800)
            res[c] = q.returncode
        return name, 'ok', res
    finally:
        subprocess.run('git -C /repo worktree remove --force %s' % wt, shell=True, stdout=subprocess.PIPE, stderr=subprocess.PIPE)
        shutil.rmtree(tmp, ignore_errors=True)


def main():
    own = '--own' in sys.argv
    names = sorted(d for d in os.listdir(os.path.join(VERIF, 'benign')) if os.path.exists(os.path.join(VERIF, 'benign', d, 'patch.diff')))
    bad = 0
    with ThreadPoolExecutor(6) as ex:
        for name, st, res in ex.map(lambda s: one(s, own), names):
            exc = {}
            ef = os.path.join(VERIF, 'benign', name, 'EXCEPT.json')
            if os.path.exists(ef):
                exc = json.load(open(ef))      # check -> why the change is NOT benign for that property
            loud = sorted(c for c, rc in res.items() if rc and c not in exc)
            for c in sorted(exc):
                if res.get(c) == 0:
                    print('note', name, c, 'is listed in EXCEPT.json but silent')
            if st != 'ok' or loud:
                bad += 1
                print('ALARM-ON-BENIGN', name, st, dict((c, res[c]) for c in loud))
            else:
                print('silent', name, '(%d checks)' % len(res))
    print('%d benign changes, %d with an alarm' % (len(names), bad))
    return 1 if bad else 0


if __name__ == '__main__':
    sys.exit(main())
