#!/usr/bin/env python3
"""tools/refresh_meta.py <eval dir>: rewrite the evaluation fields of seeded/<id>/meta.json (checks_fired, target_check_fires, first_findings,
analysis_errors) from a fresh run of tools/seed_eval.py over seeded/<id>/ (one <id>.json per seed in <eval dir>), and regenerate INDEX.md.
The descriptive fields (title, breaks, needs_to_manifest, history) are kept."""
import json
import os
import sys

VERIF = os.path.dirname(os.path.dirname(os.path.abspath(__file__)))


def main(evdir):
    root = os.path.join(VERIF, 'seeded')
    index = []
    stale = []
    for sid in sorted(os.listdir(root)):
        mp = os.path.join(root, sid, 'meta.json')
        if not os.path.exists(mp):
            continue
        meta = json.load(open(mp))
        ep = os.path.join(evdir, sid + '.json')
        if os.path.exists(ep):
            e = json.load(open(ep))
            ok = e.get('patch_applies') and e.get('tests_rc') == 0 and e.get('demo_pristine_rc') == 0 and e.get('demo_patched_rc') == 1
            if not ok:
                print('NOT CONFIRMED on this tree:', sid, e.get('patch_applies'), e.get('tests_rc'), e.get('demo_pristine_rc'), e.get('demo_patched_rc'))
                stale.append(sid)
            else:
                fired = e.get('fired', {})
                meta['checks_fired'] = sorted(fired)
                meta['target_check_fires'] = meta['property'] in fired
                meta['first_findings'] = dict((k, [l[:300] for l in v[:2]]) for k, v in fired.items())
                meta['analysis_errors'] = e.get('analysis_errors', {})
                meta['evaluated_on'] = e.get('head', meta.get('evaluated_on', ''))
                with open(mp, 'w') as f:
                    json.dump(meta, f, indent=1)
        else:
            stale.append(sid)
        index.append((meta['id'], meta['title'], meta['checks_fired'], meta['target_check_fires']))
    with open(os.path.join(root, 'INDEX.md'), 'w') as f:
        f.write('# Seeded changes (never committed to /repo)\n\nEach directory: patch.diff, demo.py (exit 0 pristine / 1 patched), notes.md (the agent\'s own), meta.json.\n'
                'Ids: A,B round 1; C,D round 2; E,F round 3; G,H,I round 4; J,K,L round 5. `tools/eval_all_seeds.py` re-runs every patch against its own check; '
                '`tools/run_demos.py` re-runs every demo on /repo.\n\n| id | change | checks that report it | own property |\n|---|---|---|---|\n')
        for sid, title, fired, own in index:
            f.write('| %s | %s | %s | %s |\n' % (sid, title.replace('|', '/')[:110], ' '.join(fired), 'yes' if own else 'NO'))
        f.write('\n%d seeds, %d caught by the check of their own property.\n' % (len(index), sum(1 for i in index if i[3])))
    print('%d seeds indexed, %d caught by their own property; not refreshed: %s' % (len(index), sum(1 for i in index if i[3]), stale))


if __name__ == '__main__':
    main(sys.argv[1])
