#!/usr/bin/env python3
"""Regenerate MANIFEST.json from the property modules present in sv/props (META + MANIFEST_ENTRY)."""
import importlib
import json
import os
import sys

HERE = os.path.dirname(os.path.dirname(os.path.abspath(__file__)))
sys.path.insert(0, HERE)

ids = [json.loads(l)['id'] for l in open(os.path.join(HERE, 'properties.jsonl'))]
checks = []
na = []
NA_REASONS = {}
try:
    from sv.props import notapplicable
    NA_REASONS = notapplicable.REASONS
except Exception:
    pass
for pid in ids:
    p = os.path.join(HERE, 'sv', 'props', pid.lower() + '.py')
    if not os.path.exists(p):
        na.append({'property_id': pid, 'reason': NA_REASONS.get(pid, 'check not built yet (see DESIGN.md section 4)')})
        continue
    m = importlib.import_module('sv.props.' + pid.lower())
    meta = m.META
    checks.append({
        'property_id': pid,
        'quick_cmd': './check %s --tier quick' % pid,
        'thorough_cmd': './check %s --tier thorough' % pid,
        'evidence_file': 'evidence/%s.json' % pid,
        'replay_cmd_template': './check %s --replay {path}' % pid,
        'engine': 'sv',
        'level_claimed': {'category': meta.get('level', 'other'), 'text': meta.get('claim', meta['explanation']),
                          'design_ref': 'DESIGN.md section 4, %s' % pid},
        'level_note': meta.get('note', 'Trusted: python ast semantics of the constructs handled, the resolved call graph, the exact '
                                       'normal forms of sv/alg.py (generator independence modulo the listed rewrites), the frozen '
                                       'summaries and reference formulas named in the evidence file. Not decided: see DESIGN.md.'),
        'technique': meta.get('technique', 'static analysis: ast, resolved call graph, abstract evaluation to exact normal forms'),
    })
man = {
    'version': 1,
    'setup_cmd': 'true',
    'hooks': {'guard': 'GEODEPY_VERIF', 'enable': 'none needed: checks parse /repo\'s source and never import or run it',
              'baseline_off_cmd': 'cd /repo && /venv/bin/python -m pytest -ra -q -p no:cacheprovider --timeout=900 --continue-on-collection-errors',
              'source_commits': [], 'add_only': True},
    'engines': [{'name': 'sv', 'path': 'sv/', 'serves_properties': [c['property_id'] for c in checks],
                 'kind_free_text': 'pure-stdlib static analyser: ast model + call resolution (model.py, resolve.py), effect analysis '
                                   '(purity.py), structural rules (rules.py), abstract evaluator to exact normal forms (symval.py, alg.py), '
                                   'oracle tables and exact series reversion (tables.py)'}],
    'checks': checks,
    'notes': 'Static analysis only: no GeodePy module is imported and no GeodePy function is called by any check. Everything is decided on the syntax tree and on forms '
             'produced by the checker\'s own abstract evaluator (exact rational / exponential-polynomial arithmetic). Three witness mechanisms evaluate pieces of the SOURCE with the '
             'checker\'s own interpreter on constants: numeric evaluation of normal forms at sample points (witnesses for differences, never for equality), R-TRUNC (an int() '
             'argument folded a second time in IEEE doubles) and R-DOMAIN sqrt-at-the-boundary (a straight-line function body evaluated in IEEE doubles on eight singular matrices). '
             'See DESIGN.md sections 10-11.',
    'not_applicable': na,
}
json.dump(man, open(os.path.join(HERE, 'MANIFEST.json'), 'w'), indent=1)
print('checks:', [c['property_id'] for c in checks])
print('not applicable:', [n['property_id'] for n in na])
