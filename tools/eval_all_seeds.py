#!/usr/bin/env python3
"""tools/eval_all_seeds.py [--all-checks]: regression run over the seeded changes: each seeded/<id>/patch.diff is applied to a scratch
worktree of /repo HEAD (outside /repo and /verif, removed afterwards) and the check of its own property (or all 20) is run on it.
Prints the seeds whose own check does not report a violation.  Does not run tests or demos (tools/seed_eval.py does)."""
import json
import os
import shutil
import subprocess
import sys
import tempfile
from concurrent.futures import ThreadPoolExecutor

VERIF = os.path.dirname(os.path.dirname(os.path.abspath(__file__)))
ALL = ['C%02d' % i for i in range(1, 21)]


def one(sid, all_checks):
    d = os.path.join(VERIF, 'seeded', sid)
    tmp = tempfile.mkdtemp(prefix='sv_reg_')
    wt = os.path.join(tmp, 'wt')
    try:
        subprocess.run('git -C /repo worktree add -q --detach %s HEAD' % wt, shell=True, check=True, stdout=subprocess.PIPE, stderr=subprocess.PIPE)
        p = subprocess.run('git apply %s' % os.path.join(d, 'patch.diff'), shell=True, cwd=wt, stdout=subprocess.PIPE, stderr=subprocess.STDOUT)
        if p.returncode:
            return sid, 'patch-does-not-apply', {}
        res = {}
        for c in (ALL if all_checks else [sid[:3]]):
            q = subprocess.run('./check %s --no-write --no-controls' % c, shell=True, cwd=VERIF, env=dict(os.environ, VERIF_REPO=wt), stdout=subprocess.PIPE, stderr=subprocess.STDOUT, timeout=1200)
            res[c] = q.returncode
        return sid, 'ok', res
    finally:
        subprocess.run('git -C /repo worktree remove --force %s' % wt, shell=True, stdout=subprocess.PIPE, stderr=subprocess.PIPE)
        shutil.rmtree(tmp, ignore_errors=True)


def main():
    all_checks = '--all-checks' in sys.argv
    ids = sorted(d for d in os.listdir(os.path.join(VERIF, 'seeded')) if os.path.exists(os.path.join(VERIF, 'seeded', d, 'patch.diff')))
    bad = 0
    with ThreadPoolExecutor(8) as ex:
        for sid, st, res in ex.map(lambda s: one(s, all_checks), ids):
            own = res.get(sid[:3])
            if st != 'ok' or own != 1:
                bad += 1
                print('NOT-CAUGHT', sid, st, 'own check exit', own)
            if all_checks:
                others = sorted(c for c, rc in res.items() if rc == 2)
                if others:
                    print('ANALYSIS-ERROR', sid, others)
    print('%d seeds, %d not caught by their own property' % (len(ids), bad))
    return 1 if bad else 0


if __name__ == '__main__':
    sys.exit(main())
