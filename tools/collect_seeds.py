#!/usr/bin/env python3
"""tools/collect_seeds.py <seed_out dir> <seed_eval dir>: copy confirmed seeded changes into /verif/seeded/<id>/ with meta.json.

A seeded change is a realistic edit of GeodePy, produced by an independent agent that saw only the property text, which keeps the
75 pinned tests green and breaks the property (its demo.py exits 0 on the pristine tree and 1 on the patched tree). They are never
committed to /repo; tools/seed_eval.py applies each to a scratch worktree, re-confirms it and runs the checks against it.
"""
import json
import os
import shutil
import sys

VERIF = os.path.dirname(os.path.dirname(os.path.abspath(__file__)))

HISTORY = {
    'C01_B': 'missed at first (the zone rule only knew int(u)); caught after the zone/central-meridian midpoint rule learned int(u)+c forms',
    'C02_A': 'missed at first; caught after the Newton rule also checked the derivative against the exact derivative of the residual',
    'C03_B': 'first caught only by C15 (object layer); C03 now re-runs the wrapper threading rule on CoordGeo.cart',
    'C04_A': 'missed at first (a new helper hid the ellipsoid use); caught after R-THREAD followed helper calls and tables became helper-aware',
    'C06_B': 'C06 caught it from the start; C13 first answered ANALYSIS-ERROR (unsupported numpy.any / block store), now evaluates both and reports the zero-covariance witness',
    'C07_B': 'caught by C06/C11 from the start; C07 itself only after it re-used the slot-by-slot negation rule (clause 2 of C07)',
    'C08_A': 'missed at first; caught after the validator rule was generalised to field-wise minute/second bounds',
    'C08_B': 'missed at first; caught after the carry rule tracked stale (pre-carry) values',
    'C12_A': 'missed at first; caught once C12 re-used the C08 carry rule for the conversions its operators call',
    'C12_B': 'missed at first; caught after the effect analysis of C09 was applied to the angle operators (in-place rounding)',
    'C13_B': 'first caught only by C06; C13 now decides the covariance end to end and stage by stage',
    'C18_B': 'missed at first; caught by the new zero-line rule (R-INDEX) - this prompted the affine index rules for the whole matrix code',
    'C20_B': 'first an ANALYSIS-ERROR (early return not modelled); caught after return paths were enumerated',
    # round 2 (ids C/D)
    'C01_C': 'missed at first (guards were matched by syntax); caught by the semantic input-domain guard rule (sv/guards.py)',
    'C01_D': 'first only C15; C01 now threads the ellipsoid / projection through the object wrappers of its observe_at list',
    'C02_D': 'missed at first; caught by the semantic input-domain guard rule (north = 0 is inside the domain)',
    'C03_D': 'missed at first; caught by the table of defining constants of the shipped ellipsoids',
    'C04_D': 'missed at first (angular_typecheck was only used as a frozen summary); caught by the dispatch rule on angular_typecheck itself, with value semantics of and/or in the evaluator',
    'C05_C': 'missed at first (acos(cos s) == atan2(sin s, cos s) as functions); caught by the conditioning rule R-COND',
    'C05_D': 'UNDECIDED at first; caught by the case split on special-input branches with a numeric witness',
    'C06_D': 'UNDECIDED / ANALYSIS-ERROR at first; caught after copy(), vars(), setattr() and path-sensitive attribute stores were modelled and a type-dependence rule added',
    'C07_C': 'first only C09; C07 now applies the state rule (memo under a lossy key)',
    'C09_D': 'missed at first; caught after results of functions that hand a parameter back were treated as aliases of the argument',
    'C10_D': 'first only C09; the functional properties now apply the state rule with memo-key analysis',
    'C12_D': 'UNDECIDED at first (fmod unmodelled); caught after fmod became a function symbol of its own',
    'C13_D': 'missed at first; caught by the table of published GDA94->GDA2020 parameters and uncertainties',
    'C14_D': 'missed at first; caught by the semantic guard rule with range membership modelled (second point in the eastern neighbour zone)',
    'C15_C': 'missed at first; caught by the typed notation dispatch rule (a float holds decimal degrees)',
    'C17_D': 'missed at first; caught by the skip-count rule (node count of the sub-grid being stepped over)',
    'C18_D': 'missed at first; caught by the sign-string rule (DMSAngle takes the sign from the first character)',
    # round 3 (ids E/F)
    'C01_F': 'first only C09; caught by the state rule once id()-keyed caches counted as lossy',
    'C03_F': 'first only C15; C03 now runs the wrapper value rules of its observe_at list',
    'C04_E': 'UNDECIDED at first; caught by the generic conditioning probe (R-COND) with singular-point search',
    'C05_F': 'missed at first; caught by the domain guards of vincinv (poles are inside the domain)',
    'C07_E': 'UNDECIDED at first; caught by evaluating the wrappers at concrete epochs',
    'C08_E': 'ANALYSIS-ERROR at first; caught after the magnitude regimes were evaluated for both signs',
    'C10_F': 'UNDECIDED at first; caught once witnesses could assign values to opaque atoms shared by both forms',
    'C12_E': 'ANALYSIS-ERROR at first; same mechanism as C08_E',
    'C14_F': 'first only C09; caught by the state rule once mutable default arguments counted as state',
    'C15_E': 'UNDECIDED at first; caught after plain values were compared with conditional values arm by arm',
    'C15_F': 'first only C03; C15 now runs the formula rules of the conversions its closed chains rest on',
    'C16_F': 'missed at first; caught by the angle-parameter rule on the two local-frame functions',
    'C17_E': 'UNDECIDED at first; caught once one-sided file content counted as an independent input for witnesses',
    'C17_F': 'missed at first; caught by the running-minimum rule',
    'C18_E': 'missed at first; caught by the header-count block rule',
    # round 4 (ids G/H/I)
    'C01_I': 'missed at first (the projection was only ever a symbolic object); caught by the constructor rule: every field is the argument, zero included',
    'C02_H': 'missed at first; caught by the ISG zone table rule (each of the ten zones passes every raising test, neighbours are rejected)',
    'C03_G': 'missed at first; caught by the confirmed-rounding model: a rounding outside the frozen table of rounding sites is the function rnd(x, d)',
    'C03_I': 'missed at first; caught by the domain guards of llh2xyz / xyz2llh (poles are inside the domain)',
    'C06_G': 'missed at first; caught by the confirmed-rounding model',
    'C06_I': 'missed at first; caught by the in-place dtype rule (R-DTYPE): an array literal of the caller\'s numbers updated in place',
    'C07_H': 'UNDECIDED at first; caught by the fast-path rule: branch conditions of each conform7 call evaluated with each rate in turn non-zero',
    'C08_H': 'missed at first; caught by the carry-order rule (minutes compared with 60 only after the seconds carry)',
    'C08_I': 'missed at first; caught once the raising tests of hp2dms / hp2ddm were enumerated over the digit domain like those of the validators',
    'C09_H': 'missed at first; caught once a module-level one-shot iterator counted as state consumed by its first use',
    'C09_I': 'missed at first; caught after operator methods that return an operand (`return self`) made the result of `a + b` an alias',
    'C10_I': 'missed at first; caught by the confirmed-rounding model',
    'C11_H': 'first only C07/C09; C11 now applies the state rule to __add__, __neg__ and iers2trans',
    'C14_G': 'first only C05; C14 now runs the rules of the components its grid functions call (Vincenty inverse / direct, projection guards)',
    'C14_H': 'first only C05; same mechanism as C14_G',
    'C14_I': 'first only C01; same mechanism as C14_G',
    'C17_I': 'missed at first; caught by the mutable-default rule (a default container stored on the object)',
    'C18_G': 'UNDECIDED at first; caught after the one-test form of the zero-line rule was recognised and tolerance comparisons rejected',
    'C18_H': 'missed at first; caught by the rule that no file-reading function is memoised by file name',
    'C18_I': 'missed at first; caught by the exit rule: no return before the %ENDSNX trailer write',
    'C19_G': 'UNDECIDED at first; caught by evaluating the dispersion identity at points of the atmosphere box when the exact decision is out of reach',
    'C19_H': 'missed at first; caught by the confirmed-rounding model',
    'C19_I': 'missed at first; caught by the domain guards of the plane routines',
    # round 5 (ids J/K/L)
    'C01_J': 'UNDECIDED at first (structure of the zone block not recognised); caught by the zone / central-meridian lattice table (constant arguments fold exactly)',
    'C01_K': 'UNDECIDED at first; caught by deciding string tests over the finite set of labels geo2grid returns',
    'C01_L': 'missed at first; caught by the lattice table (zone 60 -> 0)',
    'C02_K': 'NOT caught: the change only matters for an Ellipsoid built from decimal.Decimal - an argument type the static model does not have (numbers are exact rationals)',
    'C02_L': 'missed at first (patch re-based after the convergence-sign repair); caught by the division rule R-DIV (lat / abs(lat) at lat = 0)',
    'C03_J': 'missed at first (patch re-based after the height repair); caught by the pass-limit rule derived from the contraction factor',
    'C03_K': 'missed at first (re-based); the two height formulas are each compared at the fixed point, R-COND looks at each arm where its condition selects it',
    'C03_L': 'missed at first; caught once the wrapper wiring was also evaluated with angle objects',
    'C05_J': 'missed at first; caught by the cancelling-denominator rule (1 - X**2 reaches 0 on equatorial lines)',
    'C05_L': 'caught by the angle-parameter rule once it ran before the formula rules',
    'C06_K': 'missed at first (C13 answered ANALYSIS-ERROR); caught by R-DOMAIN: no cholesky / inv on possibly singular covariances',
    'C06_L': 'missed at first (C13 answered ANALYSIS-ERROR); caught after np.empty cells became undetermined values of their own',
    'C07_L': 'UNDECIDED at first; caught by R-TRUNC: int() of a constant expression folded a second time in double arithmetic',
    'C08_K': 'missed at first; caught by R-DIV on the conversions (hp / abs(hp) at 0)',
    'C08_L': 'NOT caught: hp2dec still converts numbers correctly; only a digit string or an HPAngle passed in fails - an argument type outside the model',
    'C09_K': 'missed at first; caught after class-level containers joined the mutable-default rule',
    'C10_J': 'UNDECIDED at first; caught after float(f"{x:.8g}") was modelled as a rounding to significant digits',
    'C10_K': 'caught by the angle-parameter rule on psfandgridconv (added in this round)',
    'C10_L': 'first only C02; C10 now demands that latitude and convergence are negated for the same spellings of the hemisphere argument',
    'C11_K': 'ANALYSIS-ERROR at first (the entry did not fold, the catalogue shrank); caught after dates became typed in C11',
    'C12_K': 'missed at first (argument type: numpy scalars); caught by R-TYPE: a flag the callee tests by identity must be handed True / False themselves, not a comparison',
    'C14_J': 'missed at first; caught by R-DIV with every family coincident (same zone and same easting)',
    'C14_L': 'missed at first; caught by the rule on exceptions raised on the residual after the Newton loop',
    'C15_J': 'UNDECIDED at first; float(angle object) decided per class from __float__',
    'C15_K': 'UNDECIDED at first; a constructed object against a numeric reference is a type difference',
    'C15_L': 'UNDECIDED at first; hemi_north from the latitude sign compared with geo2grid\'s own label at latitudes -1, 0, +1',
    'C18_K': 'ANALYSIS-ERROR at first; caught after the substring form of the VEL test was recognised',
    'C18_L': 'missed at first; caught by the single-clock-reading rule',
    'C19_L': 'missed at first; caught by definite-assignment analysis (no branch for exactly 0 degrees)',
    'C20_L': 'ANALYSIS-ERROR at first; caught by the results-as-keys rule',
    # round 6 (ids M/N/O)
    'C02_M': 'missed at first (C02 looked at grid2geo only); caught once C02 ran the zone / central-meridian lattice of the forward direction',
    'C02_O': 'missed at first; caught by the post-loop raise rule evaluated over the range of the iterate',
    'C03_M': 'missed at first; caught after |affine| == value branches got a special-point analysis and quarter turns exp(i pi k/2) were folded',
    'C04_M': 'first only C01/C02/C03; C04 now runs the ellipsoid constant rules (defining constants and derived quantities)',
    'C04_O': 'first only C01/C02/C03; same mechanism as C04_M',
    'C05_M': 'first only C01/C02/C03; C05 now runs the ellipsoid constant rules',
    'C06_M': 'missed at first; caught after `x and Y` / `x or Y` value forms got a truth value and conjunctions of truthiness tests a special-point analysis',
    'C06_N': 'missed at first; caught after np.pad kept the dtype of a literal integer array (in-place store truncates)',
    'C07_N': 'first only C11; C07 now runs the IERS-convention rules of the parameter constructor',
    'C10_O': 'first only C01/C02; C10 now runs the central-meridian rule of the forward direction',
    'C11_M': 'not caught as a violation: the catalogue is generated at import time from dir() / globals(); the check refuses to answer (ANALYSIS-ERROR, exit 2: instance floor of the chain rule missed) - see DESIGN 11.12',
    'C12_M': 'missed at first; caught by the constructor sign table (zero fields are not negative)',
    'C12_N': 'missed at first; caught after isinstance() of an object against builtins / tuples was decided from the class bases',
    'C12_O': 'missed at first; caught after the mixed-class operator rules looped over all five classes for the other operand',
    'C13_M': 'first only C01/C02/C14; C13 now runs the zone / central-meridian lattice',
    'C14_M': 'first only C02; C14 now runs the formula rules of the conversions it calls',
    'C15_N': 'missed at first; caught after composite methods were compared semantically with the composition of the class\'s own methods, None-combination by None-combination',
    'C15_O': 'missed at first; caught after the carry-order rule became path-aware (a test in the else-arm of the carrying if is not evaluated after the carry) and C15 ran the C08 carry rules',
    'C16_M': 'missed at first; caught by the accuracy witness next to the vanishing set of the discriminant (circular covariance), evaluated in IEEE doubles against a 60-digit reference',
    'C17_N': 'missed at first; caught by the who-may-write rule on the sub-grid container (insertion order is file order)',
    'C18_M': 'UNDECIDED at first (strftime widths unknown); caught by the stamp-field source rule (ISO week-year is not the calendar year)',
    'C18_N': 'missed at first; caught by enumerating the record widths the zero-line guard admits (must be 3, 4, 5)',
    'C19_M': 'missed at first; caught by the sibling-defaults rule of the two refractivity routines',
    'C19_N': 'missed at first; caught by the first_vel_params case table (a supplied reference index wins for every combination of the other optional arguments)',
    'C19_O': 'missed at first; caught by the linearity-in-humidity rule (no case distinction on the humidity itself)',
    # round 7 (ids P/Q/R)
    'C01_P': 'missed at first; caught by the validated-copy rule (a guard that checks int(zone) while the code goes on with zone itself)',
    'C01_R': 'UNDECIDED at first (numeval rebuilt function atoms while substituting); caught once the guard rule evaluated conditions correctly and took the domain relation into account (explicit zones within 30 degrees of the longitude, measured on the circle)',
    'C02_P': 'first only C15; C02 now runs the CoordGeo.tm delegation rule of its observe_at list',
    'C02_Q': 'missed at first (also by C15); caught by the round rules of the coordinate classes (zone, hemisphere and projection travel with a rounded coordinate)',
    'C03_Q': 'UNDECIDED at first; caught by the float-result rule (a bare integer literal substituted for a boundary value is refused by the coordinate classes)',
    'C03_R': 'not caught: the rewrite a (1/f - 1) / (1/f) of the semi-minor axis equals a (1 - f) for every finite inverse flattening; it differs only for 1/f = infinity (a sphere), which was judged outside "arbitrary (a, 1/f)"',
    'C04_P': 'UNDECIDED at first; caught after numpy.isclose / math.isclose were modelled as the ordering tests they are',
    'C04_Q': 'missed at first; caught by the binding rule of angular_typecheck (order-aware resolution of module-level names: a later def shadows an import)',
    'C05_P': 'missed at first (numbers of the static model are reals: float32 arithmetic is outside it); caught by the float contract of angular_typecheck (every path returns obj.dec() or float(angle), never the argument itself)',
    'C06_Q': 'missed at first; caught after in-place array updates kept their aliases (b = a; b *= s changes a)',
    'C07_P': 'first only C11; C07 now runs the negation-pair rule over the catalogue (clause 2 quantifies over every shipped set and its negation)',
    'C08_P': 'missed at first; caught by the method value table (DMS / DDM objects built from constant fields, a minutes field of 60 included)',
    'C08_Q': 'missed at first; caught by the method value table (negation of zero-degree angles with whole minutes)',
    'C09_P': 'missed at first; caught after vars(x) was treated as an alias of x by the effect analysis',
    'C10_P': 'first only C01; C10 now runs the coefficient tables of both directions',
    'C10_Q': 'first only C01; C10 now runs the projection-object rules',
    'C10_R': 'missed at first; caught by a guard rule for psfandgridconv over the band of the projection with the longitude difference measured on the circle',
    'C11_P': 'UNDECIDED at first; caught by the type-dependence rule (the conversion branches on isinstance(x, int) of a parameter value)',
    'C11_Q': 'ANALYSIS-ERROR at first (the catalogue was folded with the LAST binding of every name); caught after module-level expressions saw the binding in force at their own statement',
    'C12_R': 'missed at first; caught by the numeric-type rule on the operators that take a number',
    'C13_P': 'ANALYSIS-ERROR at first (zeros_like unmodelled); caught after zeros_like inherited the element type of a caller-supplied array (R-DTYPE)',
    'C13_R': 'UNDECIDED at first; caught by the numeric-type rule (a height tested with isinstance(x, (int, float)))',
    'C15_P': 'UNDECIDED at first; caught by comparing the decimal value of a constructed angle object with the decimal it was built from',
    'C15_Q': 'UNDECIDED at first; a (source, target) pair that raises or returns nothing is now a violation',
    'C16_P': 'missed at first; caught by R-DTYPE on helpers of the listed functions',
    'C16_Q': 'UNDECIDED at first (numpy.diag unmodelled); caught after it was modelled',
    'C16_R': 'UNDECIDED at first; caught by the special-point analysis for conjunctions of equalities between inputs',
    'C17_R': 'missed at first; caught by the position rule (the latitude / longitude looked up are the arguments scaled to arc-seconds, for every position of the domain)',
    'C18_P': 'missed at first; caught by the skip-set rule (membership-preserving rebinds only)',
    'C18_Q': 'missed at first; caught by the flag rule (a flag that selects the record shape is not set inside the loop that reads it)',
    'C18_R': 'missed at first; caught by the block-walk rule (a block with an optional second line is not walked from a fixed offset)',
    'C20_P': 'missed at first (roundings in api/ were treated like those of an oracle module); caught after the module filter was corrected',
    'C20_Q': 'missed at first; caught by the identity-comparison rule (x is <string constant>)',
    # round 9 (ids V/W/X)
    'C01_V': 'UNDECIDED at first; caught by the antimeridian mirror points (an explicit zone across the 180 degree meridian: easting opposite, northing equal) after copysign was modelled',
    'C02_W': 'UNDECIDED at first; caught after floor / ceil folded on constants and the first meridians of AMG zones 55 / 56 joined the ISG lattice',
    'C04_X': 'UNDECIDED at first; caught after guard conditions were evaluated through definition atoms and trigonometric forms (decimal evaluation) with interior and quarter-point witnesses',
    'C06_W': 'missed at first; caught by the chained-index rule (m[i][j] on a matrix argument)',
    'C06_X': 'missed at first; caught after a copy of an array kept the element type of what it copies (R-DTYPE)',
    'C07_V': 'missed at first; C07 now runs the point formula of conform7',
    'C07_W': 'UNDECIDED at first; caught after methods were looked up through base classes and a subclass result was held against the exact-type guards of conform7 / conform14',
    'C07_X': 'UNDECIDED at first; caught after `%.8g` % x was modelled as a significant-figure rounding',
    'C08_X': 'missed at first; caught by the resolution-threshold sibling rule (vector twin against scalar converter)',
    'C09_W': 'missed at first; caught after filter changes inside warnings.catch_warnings() counted as process-wide state (the block is not thread-safe)',
    'C11_W': 'missed at first; caught by the receiver-unchanged rule for the methods of Transformation',
    'C11_X': 'ANALYSIS-ERROR (instance floor) at first; a catalogue name bound to a tuple is now a violation',
    'C12_V': 'missed at first; C12 now runs the field arithmetic rules of dec2dms / dec2ddm',
    'C12_X': 'missed at first; caught after raises reached on lattice objects were recorded (a minutes field of 60 is what round() builds)',
    'C13_V': 'UNDECIDED at first; C13 now runs the conform7 rules of C06 (Jacobian columns)',
    'C13_X': 'missed at first; caught by the zero-variance guard rule',
    'C15_V': 'UNDECIDED at first; caught by the late-binding rule (lambdas in a comprehension read the loop variable when called)',
    'C15_W': 'missed at first; caught by the stored-as-given rule (Projection has no __eq__: a copy of the ISG is not the ISG)',
    'C16_V': 'missed at first; caught after the unclamped-root rule looked through local names',
    'C16_W': 'UNDECIDED at first; C16 now runs the module-state rule on its functions (one-shot iterator at module level)',
    'C16_X': 'missed at first; caught by the bit-exact-symmetry guard rule',
    'C17_W': 'missed at first; caught by the one-shot-iterator rule (a probe with next() takes the first candidate away from min())',
    'C17_X': 'missed at first; caught by the padding rule for NTv2 text values (blank AND NUL padding removed)',
    'C18_W': 'UNDECIDED at first; caught by the rule for clock reads in default values (evaluated once, at import)',
    'C18_X': 'UNDECIDED at first; caught by the index-array rule (numpy.array of an empty list is float64)',
    'C19_V': 'missed at first; caught by the vapour-pressure formulas on both paths (relative humidity and wet bulb)',
    'C19_X': 'missed at first; caught by the logarithm-domain rule (log of the humidity at 0 %); the formula itself is reported undecided, not different (numeric veto)',
    'C20_W': 'missed at first; caught by the late-binding rule (a generator expression consumed after a local it reads was re-bound)',
    'C20_X': 'missed at first; caught by the request-hook rule (a before_request hook that answers in the handler\'s place)',
    # round 8 (ids S/T/U)
    'C01_S': 'UNDECIDED at first; caught after user-defined projections (odd and fractional zone widths) joined the zone / central-meridian lattice',
    'C01_T': 'missed at first; caught after object equality was modelled (a class __eq__ is invoked, otherwise identity) and a projection with the ISG false origin but another layout joined the lattice',
    'C02_S': 'first only C01; C02 now runs the formula rules of the forward series (the round trip goes through it)',
    'C02_U': 'missed at first; caught by a guard pass of grid2geo for the ISG in the northern hemisphere',
    'C03_S': 'UNDECIDED at first; a loop-free latitude is now held to the geodetic equation itself (residual at points of the height range)',
    'C04_S': 'UNDECIDED at first; caught after magnitude tests (abs(lat) == 90) yielded both special inputs and removable singularities of the reference were replaced by its extrapolated limit',
    'C04_U': 'UNDECIDED at first; when no loop variable carries 2 sigma_m the result formulas are compared with 2 sigma1 + the converged sigma',
    'C05_S': 'UNDECIDED at first (a slip in a third-order term moves the distance by 1e-10 of its size); caught by the finer numeric witness',
    'C07_U': 'missed at first; caught by deciding the raising tests of conform14 that look at the point over the coordinate box (zero included)',
    'C08_S': 'missed at first; caught by the float-subclass rule (no method reads the float value of the object instead of its stored angle)',
    'C08_T': 'missed at first; caught by the one-mask rule for the vectorised converters',
    'C08_U': 'missed at first; caught by the in-place accumulation rule for the vectorised converters',
    'C09_T': 'missed at first; caught by the kept-open-file rule',
    'C09_U': 'missed at first; caught by the process-wide-state rule (warning filters set and not restored)',
    'C10_U': 'UNDECIDED at first; caught after C10 ran the zone lattice with a user-defined projection of more than 60 zones',
    'C11_U': 'missed at first; caught by evaluating __add__ at every epoch the catalogue uses',
    'C12_T': 'UNDECIDED at first; caught after `except AttributeError` was modelled on constructed objects and by the operator value / class table (NotImplemented hands over to the reflected method)',
    'C12_U': 'UNDECIDED at first; caught by the operator value / class table',
    'C13_S': 'missed at first; caught by the spectral sign-test rule (an exact sign test on computed eigenvalues in front of a raise)',
    'C13_T': 'UNDECIDED at first; caught after numpy broadcasting of two 2-d arrays was modelled',
    'C14_U': 'UNDECIDED at first; caught after negated conjunctions of truthiness tests were analysed at their special points and line_sf was evaluated for two stations in one zone',
    'C15_T': 'first only C01; C15 now runs the guards and the zone lattice of geo2grid',
    'C15_U': 'first only C01; same mechanism as C15_T',
    'C16_S': 'UNDECIDED at first; caught after even powers of an absolute value were simplified (|d|^2 = d^2)',
    'C18_T': 'missed at first; caught by the station-fields-by-position rule',
    'C20_S': 'first only C08; C20 now runs the carry and digit rules of the two converters its dms paths go through',
    'C20_T': 'ANALYSIS-ERROR at first; caught after conditional response bodies were split into paths: a successful answer that is not built from the library call is a shortcut',
    'C08_C': 'patch re-based after the HP repairs; first UNDECIDED, caught after str(float) was modelled as a non-fixed-point rendering',
}


def section(notes, *heads):
    out = []
    lines = notes.splitlines()
    for i, l in enumerate(lines):
        low = l.lower().lstrip('-* #')
        if any(low.startswith(h) for h in heads):
            out.append(l.lstrip('-* '))
            for m in lines[i + 1:]:
                if m.startswith('  ') and not m.lstrip().startswith('- `'):
                    out.append(m.strip())
                else:
                    break
            break
    return ' '.join(out)[:1200]


def main(seed_out, seed_eval, rename=None):
    rename = rename or {}
    dst_root = os.path.join(VERIF, 'seeded')
    os.makedirs(dst_root, exist_ok=True)
    index = []
    for prop in sorted(os.listdir(seed_out)):
        for ab in ('A', 'B', 'C'):
            d = os.path.join(seed_out, prop, ab)
            if not os.path.isdir(d):
                continue
            sid = '%s_%s' % (prop, rename.get(ab, ab))
            ev = os.path.join(seed_eval, '%s_%s.json' % (prop, ab))
            if not os.path.exists(ev):
                print('no evaluation for', sid)
                continue
            e = json.load(open(ev))
            ok = e.get('patch_applies') and e.get('tests_rc') == 0 and e.get('demo_pristine_rc') == 0 and e.get('demo_patched_rc') == 1
            if not ok:
                print('NOT CONFIRMED', sid, e.get('tests_tail'))
                continue
            dst = os.path.join(dst_root, sid)
            os.makedirs(dst, exist_ok=True)
            for fn in ('patch.diff', 'demo.py', 'notes.md'):
                if os.path.exists(os.path.join(d, fn)):
                    shutil.copy(os.path.join(d, fn), os.path.join(dst, fn))
            notes = open(os.path.join(d, 'notes.md')).read() if os.path.exists(os.path.join(d, 'notes.md')) else ''
            title = notes.splitlines()[0].lstrip('# ').strip() if notes else sid
            fired = e.get('fired', {})
            meta = {
                'id': sid,
                'property': prop,
                'title': title,
                'breaks': section(notes, 'clause broken', 'clause', 'breaks', 'property clause') or 'see notes.md',
                'needs_to_manifest': section(notes, 'needed to manifest', 'needs', 'to manifest', 'manifest') or 'see notes.md',
                'origin': 'independent sub-agent given only the property text and its own scratch worktree of /repo HEAD',
                'what_i_ran': [
                    'git worktree add --detach <scratch> HEAD (outside /repo and /verif); demo.py on the pristine tree -> exit %s' % e.get('demo_pristine_rc'),
                    'git apply patch.diff in the scratch tree; /venv/bin/python -m pytest -q -p no:cacheprovider --timeout=900 -x -> %s' % e.get('tests_tail'),
                    'demo.py on the patched tree -> exit %s' % e.get('demo_patched_rc'),
                    'VERIF_REPO=<scratch> ./check Cxx --no-write --no-controls for all 20 properties; scratch worktree removed afterwards',
                ],
                'checks_fired': sorted(fired),
                'target_check_fires': prop in fired,
                'first_findings': dict((k, [l[:300] for l in v[:2]]) for k, v in fired.items()),
                'analysis_errors': e.get('analysis_errors', {}),
                'history': HISTORY.get(sid, 'caught by the check of its property as first built'),
            }
            with open(os.path.join(dst, 'meta.json'), 'w') as f:
                json.dump(meta, f, indent=1)
            index.append((sid, title, sorted(fired), prop in fired))
    index = []
    for d_ in sorted(os.listdir(dst_root)):
        mp = os.path.join(dst_root, d_, 'meta.json')
        if os.path.exists(mp):
            mm = json.load(open(mp))
            index.append((mm['id'], mm['title'], mm['checks_fired'], mm['target_check_fires']))
    with open(os.path.join(dst_root, 'INDEX.md'), 'w') as f:
        f.write('# Seeded changes (never committed to /repo)\n\nEach directory: patch.diff, demo.py (exit 0 pristine / 1 patched), notes.md (the agent\'s own), meta.json.\n'
                'Ids ending in A, B: first round; C, D: second round (agents were told the first-round titles and asked for a different kind and place).\n'
                'Re-confirm and re-evaluate one with `tools/seed_eval.py seeded/<id>`; `tools/run_demos.py` runs every demo on /repo (all must pass).\n\n'
                '| id | change | checks that fire | its own property fires |\n|---|---|---|---|\n')
        for sid, title, fired, hit in index:
            f.write('| %s | %s | %s | %s |\n' % (sid, title.split(' - ', 1)[-1], ', '.join(fired), 'yes' if hit else 'NO'))
    print('%d seeds indexed, %d caught by their own property' % (len(index), sum(1 for x in index if x[3])))


if __name__ == '__main__':
    rn = dict(kv.split('=') for kv in sys.argv[3].split(',')) if len(sys.argv) > 3 else None
    main(sys.argv[1], sys.argv[2], rn)
