#!/usr/bin/env python3
"""tools/run_demos.py [repo dir]: run every seeded demo on the (unpatched) tree; each must exit 0.
A regression net for `fix:` commits in /repo (not a MANIFEST command: it executes library code)."""
import os
import subprocess
import sys
from concurrent.futures import ThreadPoolExecutor

VERIF = os.path.dirname(os.path.dirname(os.path.abspath(__file__)))


def run(d, repo):
    demo = os.path.join(VERIF, 'seeded', d, 'demo.py')
    p = subprocess.run(['/venv/bin/python', demo], cwd=repo, env=dict(os.environ, PYTHONPATH=repo), stdout=subprocess.PIPE, stderr=subprocess.STDOUT, timeout=900)
    return d, p.returncode, p.stdout.decode(errors='replace').strip().splitlines()[-1:] 


def main():
    repo = sys.argv[1] if len(sys.argv) > 1 else '/repo'
    ds = sorted(d for d in os.listdir(os.path.join(VERIF, 'seeded')) if os.path.exists(os.path.join(VERIF, 'seeded', d, 'demo.py')))
    bad = 0
    with ThreadPoolExecutor(8) as ex:
        for d, rc, tail in ex.map(lambda d: run(d, repo), ds):
            if rc != 0:
                bad += 1
                print('FAIL', d, rc, tail)
    print('%d demos, %d failing on %s' % (len(ds), bad, repo))
    return 1 if bad else 0


if __name__ == '__main__':
    sys.exit(main())
