"""C17 - NTv2 reader and interpolation (ntv2reader.py, transform.ntv2_2d)."""
import ast
from fractions import Fraction as F
from .. import alg
from ..alg import Rat, C
from ..model import AnalysisError, stmt_text
from ..symval import Evaluator, Tup, Obj, NoneV, NONE, CallV, Bool, Ref, IteV, Str, DictV, FileV, Mat, argkey, _const_int, _single_atom
from ..symcheck import Oracle, check_equal, compare_values, show
from ..rules import where
from ..mutate import replace_in_function, substitute, text_variant

META = {
    'level': 'other',
    'rule_text': 'rule instances: byte offset, size and decoding of the 11 overview-header and 11 sub-grid-header records against the NTv2 '
                 'layout, rounding digits of extents and increments, bytes consumed per sub-grid against the skip arithmetic of the '
                 'interpolator; file offset of each of the 4 / 16 nodes read; the bilinear and bicubic results (four fields each) against the '
                 'bilinear blend and the bicubic Hermite patch with central-difference derivatives; interpolation weights; row / column / '
                 'column-count arithmetic; half-open containment, finest-grid selection, None outside; stencil-inside-grid guard; sign and unit of the 2-D shift; the node count added while stepping over a sub-grid is that sub-grid\'s own gs_count',
    'explanation': 'Static: the binary reader is abstractly evaluated with a symbolic file cursor, so every field\'s offset is an exact affine form; '
                   'the interpolators are evaluated with each node value an opaque atom keyed by its file offset and compared with reference '
                   'interpolants written independently (Hermite basis, not the 16x16 matrix). Decides layout agreement between writer-side '
                   'format, parser and interpolator, node addressing, interpolation algebra (hence exact reproduction of node values, linear '
                   'and bi-quadratic fields by the properties of those interpolants), selection logic and shift application. It does not '
                   'decide int() truncation of floating quotients or the 1e-6 figures; the missing edge guard of the bicubic stencil is a recorded finding.',
}

HEADER = [('num_orec', 8, 4, 'int'), ('num_srec', 24, 4, 'int'), ('num_file', 40, 4, 'int'), ('gs_type', 56, 8, 'str'), ('version', 72, 8, 'str'),
          ('system_f', 88, 8, 'str'), ('system_t', 104, 8, 'str'), ('major_f', 120, 8, 'double'), ('minor_f', 136, 8, 'double'),
          ('major_t', 152, 8, 'double'), ('minor_t', 168, 8, 'double')]
SUBHEADER = [('sub_name', 8, 8, 'str', None), ('parent', 24, 8, 'str', None), ('created', 40, 8, 'str', None), ('updated', 56, 8, 'str', None),
             ('s_lat', 72, 8, 'double', 3), ('n_lat', 88, 8, 'double', 3), ('e_long', 104, 8, 'double', 3), ('w_long', 120, 8, 'double', 3),
             ('lat_inc', 136, 8, 'double', 6), ('long_inc', 152, 8, 'double', 6), ('gs_count', 168, 4, 'int', None)]

ORACLE = '''
import struct

def node(f, start_byte, num_cols, row, col, dr, dc, k):
    f.seek(start_byte + 16 * ((row + dr) * num_cols + col + dc) + 4 * k, 0)
    return struct.unpack('f', f.read(4))[0]

def weights(lat, lon, s_lat, e_long, lat_inc, long_inc, row, col):
    lat1 = s_lat + row * lat_inc
    long1 = e_long + col * long_inc
    return (lon - long1) / long_inc, (lat - lat1) / lat_inc

def bilinear(f, start_byte, num_cols, row, col, k, x, y):
    n00 = node(f, start_byte, num_cols, row, col, 0, 0, k)
    n01 = node(f, start_byte, num_cols, row, col, 0, 1, k)
    n10 = node(f, start_byte, num_cols, row, col, 1, 0, k)
    n11 = node(f, start_byte, num_cols, row, col, 1, 1, k)
    return n00 * (1 - x) * (1 - y) + n01 * x * (1 - y) + n10 * (1 - x) * y + n11 * x * y

def h00(t):
    return 2 * t ** 3 - 3 * t ** 2 + 1

def h10(t):
    return t ** 3 - 2 * t ** 2 + t

def h01(t):
    return -2 * t ** 3 + 3 * t ** 2

def h11(t):
    return t ** 3 - t ** 2

def bicubic(f, start_byte, num_cols, row, col, k, x, y):
    v = {}
    for dr in range(-1, 3):
        for dc in range(-1, 3):
            v[(dr + 1) * 4 + dc + 1] = node(f, start_byte, num_cols, row, col, dr, dc, k)
    total = 0
    for a in range(0, 2):
        for b in range(0, 2):
            fv = v[(b + 1) * 4 + a + 1]
            fx = (v[(b + 1) * 4 + a + 2] - v[(b + 1) * 4 + a]) / 2
            fy = (v[(b + 2) * 4 + a + 1] - v[b * 4 + a + 1]) / 2
            fxy = (v[(b + 2) * 4 + a + 2] - v[(b + 2) * 4 + a] - v[b * 4 + a + 2] + v[b * 4 + a]) / 4
            if a == 0:
                hx0 = h00(x)
                hx1 = h10(x)
            else:
                hx0 = h01(x)
                hx1 = h11(x)
            if b == 0:
                hy0 = h00(y)
                hy1 = h10(y)
            else:
                hy0 = h01(y)
                hy1 = h11(y)
            total = total + fv * hx0 * hy0 + fx * hx1 * hy0 + fy * hx0 * hy1 + fxy * hx1 * hy1
    return total
'''


def find_bytes(v):
    """(offset Rat, size Rat) of the single bytes atom underneath a decoded field, else None"""
    if not isinstance(v, Rat):
        return None
    hits = []
    for k in v.atoms(deep=True):
        a = alg.TABLE.atoms[k]
        if a.kind == 'fn' and a.name == 'bytes':
            hits.append(a)
    if len(hits) != 1:
        return None
    return hits[0].args[0], hits[0].args[1]


def decoder(v):
    names = set(alg.TABLE.atoms[k].name for k in v.atoms(deep=True) if alg.TABLE.atoms[k].kind == 'fn')
    if any('from_bytes' in n for n in names):
        little = any(isinstance(x, str) and 'little' in x for k in v.atoms(deep=True) for x in alg.TABLE.atoms[k].args if isinstance(x, str))
        return 'int' if little else 'int?'
    if any('struct.unpack' in n for n in names):
        for k in v.atoms(deep=True):
            a = alg.TABLE.atoms[k]
            if a.kind == 'fn' and 'struct.unpack' in a.name:
                return {'str<d>': 'double', 'str<f>': 'float', 'str<<d>': 'double', 'str<<f>': 'float'}.get(a.args[0], str(a.args[0]))
    if any('decode' in n for n in names):
        return 'str'
    return '?'


def padding_stripped(v):
    """characters a decoded text value is stripped of: {'ws', 'nul'} when both kinds of padding that NTv2 writers use are removed"""
    got = set()
    for k in v.atoms(deep=True):
        a = alg.TABLE.atoms[k]
        if a.kind == 'fn' and a.name in ('method:strip', 'method:rstrip'):
            chars = [x for x in a.args[1:] if isinstance(x, str)]
            if not chars:
                got.add('ws')
            for c in chars:
                body = c[4:-1] if c.startswith('str<') else c
                if '\x00' in body:
                    got.add('nul')
                if ' ' in body:
                    got.add('ws')
    return got


def text_padding_rule(rep, w, key, name, v):
    """the 8-byte text values are padded with blanks by some writers and with NUL bytes by others: metadata reads back as written only when
    both are removed (a NUL-padded 'GDA94' would otherwise come back as 'GDA94\x00\x00\x00' - and so would the keys of the sub-grid table)"""
    got = padding_stripped(v)
    if got >= {'ws', 'nul'}:
        rep.holds('R-FORMAT', key, w, '%s: blank and NUL padding both removed' % name)
    else:
        rep.violated('R-FORMAT', key, w, 'the text value %s is stripped of %s only: a value padded with %s keeps its padding (\'GDA94\\x00\\x00\\x00\' instead of \'GDA94\')'
                     % (name, ' and '.join(sorted({'ws': 'blanks', 'nul': 'NUL bytes'}[g] for g in got)) or 'nothing',
                        ' or '.join(sorted({'ws': 'blanks', 'nul': 'NUL bytes'}[g] for g in {'ws', 'nul'} - got))),
                     expected="strip('\\x00').strip()", actual=alg.fmt(v, 6)[:120])


def layout_rules(repo, rep):
    f = repo.func('geodepy.ntv2reader', 'read_ntv2_file')
    rep.analysed(f)
    w = where(f, f.node)
    ev = Evaluator(repo)
    grid = ev.call_function(f, {f.params[0].name: Rat.sym('path')})
    base = 'R-AFFINE::geodepy/ntv2reader.py::read_ntv2_file::'
    if not isinstance(grid, Obj):
        rep.undecided('R-AFFINE', base + 'shape', w, 'read_ntv2_file does not evaluate to a grid object')
        return None
    for name, off, size, kind in HEADER:
        v = grid.fields.get(name)
        b = find_bytes(v)
        key = base + 'header::' + name
        if b is None:
            rep.undecided('R-AFFINE', key, w, 'field %s is not decoded from one read' % name)
            continue
        o, s = b[0].as_fraction(), b[1].as_fraction()
        d = decoder(v)
        if o == off and s == size and d == kind:
            rep.holds('R-AFFINE', key, w, '%s: %d bytes at offset %d decoded as %s' % (name, size, off, kind))
            if kind == 'str':
                text_padding_rule(rep, w, 'R-FORMAT::geodepy/ntv2reader.py::read_ntv2_file::header::%s::padding' % name, name, v)
        else:
            rep.violated('R-AFFINE', key, w, 'overview header field %s is read as %s bytes at offset %s decoded as %s; the NTv2 layout has %d bytes at %d (%s)' % (name, s, o, d, size, off, kind),
                         expected='%d@%d %s' % (size, off, kind), actual='%s@%s %s' % (s, o, d))
    loops = ev.loops.get(f.key, [])
    sub = None
    for caller, callee, bnd, node in ev.calls:
        if callee == 'SubGrid.__init__':
            sub = bnd
    if sub is None or len(loops) != 1:
        rep.undecided('R-AFFINE', base + 'subgrid', w, 'no SubGrid construction inside one loop')
        return None
    L = loops[0]
    start = L.cursor_start
    rounds = dict()
    for fn, digits, value, line in ev.roundings:
        bb = find_bytes(value)
        if bb is not None:
            rounds[alg.fmt(bb[0])] = digits
    consumed = None
    for name, off, size, kind, digits in SUBHEADER:
        v = sub.get(name)
        b = find_bytes(v)
        key = base + 'subheader::' + name
        if b is None:
            rep.undecided('R-AFFINE', key, w, 'field %s is not decoded from one read' % name)
            continue
        o = (b[0] - start).as_fraction()
        s = b[1].as_fraction()
        d = decoder(v)
        got_digits = rounds.get(alg.fmt(b[0]))
        if o == off and s == size and d == kind and (digits is None or got_digits == digits):
            rep.holds('R-AFFINE', key, w, '%s: %d bytes at sub-grid offset %d decoded as %s%s' % (name, size, off, kind, '' if digits is None else ', rounded to %d decimals' % digits))
            if kind == 'str':
                text_padding_rule(rep, w, 'R-FORMAT::geodepy/ntv2reader.py::read_ntv2_file::subheader::%s::padding' % name, name, v)
        elif o == off and s == size and d == kind:
            rep.violated('R-AFFINE', key, w, '%s is rounded to %s decimals; the property needs %d (extents 0.001", increments 1e-6")' % (name, got_digits, digits),
                         expected=str(digits), actual=str(got_digits))
        else:
            rep.violated('R-AFFINE', key, w, 'sub-grid header field %s is read as %s bytes at offset %s decoded as %s; the NTv2 layout has %d bytes at %d (%s)' % (name, s, o, d, size, off, kind),
                         expected='%d@%d %s' % (size, off, kind), actual='%s@%s %s' % (s, o, d))
    delta = list(L.cursor_delta.values())[0] if L.cursor_delta else None
    gs = sub.get('gs_count')
    key = base + 'bytes-per-subgrid'
    want = C(176) + C(16) * gs if isinstance(gs, Rat) else None
    if delta is not None and want is not None and alg.decide_equal(delta, want) == 'equal':
        rep.holds('R-AFFINE', key, w, 'one sub-grid consumes 176 header bytes + 16 bytes per node (gs_count nodes)')
    else:
        rep.violated('R-AFFINE', key, w, 'one sub-grid consumes %s bytes, not 176 + 16*gs_count' % (alg.fmt(delta, 3)[:120] if delta is not None else '?'),
                     expected='176 + 16*gs_count', actual=alg.fmt(delta, 3)[:200] if delta is not None else '?')
    rep.floor('R-AFFINE', 23, '11 + 11 header records and the sub-grid stride')
    return True


def interp_rules(repo, rep, only=None, fields=(0, 1, 2, 3)):
    """node addressing and interpolation algebra of ntv2_bilinear / ntv2_bicubic"""
    sub = repo.cls('geodepy.ntv2reader', 'SubGrid')
    syms = dict((n, Rat.sym('G.' + n)) for n in ('s_lat', 'n_lat', 'e_long', 'w_long', 'lat_inc', 'long_inc', 'gs_count'))
    for mname, oname, stencil in (('ntv2_bilinear', 'bilinear', [(0, 0), (0, 1), (1, 0), (1, 1)]),
                                  ('ntv2_bicubic', 'bicubic', [(dr, dc) for dr in range(-1, 3) for dc in range(-1, 3)])):
        if only is not None and mname not in only:
            continue
        f = sub.methods.get(mname)
        if f is None:
            raise AnalysisError('anchor vanished: SubGrid.%s' % mname)
        rep.analysed(f)
        w = where(f, f.node)
        ev = Evaluator(repo)
        me = Obj(sub, dict(syms), origin='param:G')
        fobj = FileV('gsb')
        ev.files.append(fobj)
        ps = [p.name for p in f.params]
        # position written as node (row, col) plus fractional offsets (X, Y) of a cell: keeps the forms polynomial in X, Y
        LAT = syms['s_lat'] + (Rat.sym('row') + Rat.sym('Y')) * syms['lat_inc']
        LON = syms['e_long'] + (Rat.sym('col') + Rat.sym('X')) * syms['long_inc']
        args = {ps[0]: me, ps[1]: LAT, ps[2]: LON, ps[3]: Rat.sym('num_cols'), ps[4]: Rat.sym('row'), ps[5]: Rat.sym('col'),
                ps[6]: fobj, ps[7]: Rat.sym('start')}
        val = ev.call_function(f, args)
        base = 'R-TABLE::geodepy/ntv2reader.py::SubGrid.%s::' % mname
        # 1. which bytes were read: 16 bytes per node at start + 16*((row+dr)*num_cols + col+dc)
        offsets = {}
        for off, size in fobj.reads:
            offsets[alg.fmt(off)] = off
        want = {}
        for dr, dc in stencil:
            for k in range(4):
                o = Rat.sym('start') + C(16) * ((Rat.sym('row') + C(dr)) * Rat.sym('num_cols') + Rat.sym('col') + C(dc)) + C(4 * k)
                want[alg.fmt(alg.norm(o))] = (dr, dc, k)
        got = set(alg.fmt(alg.norm(o)) for o in offsets.values())
        key = 'R-AFFINE::geodepy/ntv2reader.py::SubGrid.%s::stencil' % mname
        if got == set(want):
            rep.holds('R-AFFINE', key, w, 'reads exactly the %d nodes (row+dr, col+dc), dr,dc in %s, at start + 16*((row+dr)*num_cols + col+dc), four 4-byte fields each' % (
                len(stencil), '{0,1}' if len(stencil) == 4 else '{-1,0,1,2}'))
        else:
            extra = sorted(got - set(want))[:3]
            missing = sorted(want[k_] for k_ in set(want) - got)[:3]
            rep.violated('R-AFFINE', key, w, 'node addressing is off: reads at %s; never reads nodes (dr, dc, field) %s' % (extra, missing),
                         expected='start + 16*((row+dr)*num_cols + col+dc) + 4*field', actual=str(extra))
        # 2. interpolated values
        orc = Oracle(ORACLE)
        fo = FileV('gsb')
        orc.ev.files.append(fo)
        xy = orc.call('weights', lat=LAT, lon=LON, s_lat=syms['s_lat'], e_long=syms['e_long'], lat_inc=syms['lat_inc'],
                      long_inc=syms['long_inc'], row=Rat.sym('row'), col=Rat.sym('col'))
        if not isinstance(val, Tup) or len(val.items) != 4:
            rep.undecided('R-TABLE', base + 'shape', w, '%s does not return four fields' % mname)
            continue
        for k in fields:
            ref = orc.call(oname, f=fo, start_byte=Rat.sym('start'), num_cols=Rat.sym('num_cols'), row=Rat.sym('row'), col=Rat.sym('col'), k=C(k),
                           x=xy.items[0], y=xy.items[1])
            a = alg.unfold_all(val.items[k], 6000) if isinstance(val.items[k], Rat) else None
            b = alg.unfold_all(ref, 6000) if isinstance(ref, Rat) else None
            check_equal(rep, 'R-TABLE', base + 'field%d' % (k + 1), w, a if a is not None else val.items[k], b if b is not None else ref,
                        ('field %d = bilinear blend of the four enclosing nodes' if oname == 'bilinear' else
                         'field %d = bicubic Hermite patch over the cell with central-difference derivatives from the 4x4 stencil') % (k + 1) +
                        ', x = (lon - long1)/long_inc along columns, y = (lat - lat1)/lat_inc along rows')
        # rounding of the results
        digs = sorted(set(d for fn, d, v, line in ev.roundings if fn == 'SubGrid.' + mname and d is not None))
        key = 'R-ROUND::geodepy/ntv2reader.py::SubGrid.%s' % mname
        if digs and min(digs) >= 6:
            rep.holds('R-ROUND', key, w, 'results (and weights) rounded to %s decimals' % digs)
        elif digs:
            rep.violated('R-ROUND', key, w, 'results rounded to %s decimals: coarser than 1e-6 of the field unit' % digs, expected='>= 6', actual=str(digs))


def position_rule(rep, f, found):
    """the latitude / longitude compared with the extents (and handed to the interpolators) are lat * 3600 and lon * -3600 of the ARGUMENTS for
    every position: the function does not re-map part of the plane (a conditional wrap, a clamp, a rounding) before it looks the position
    up - a point on the edge of a sub-grid that ends at the antimeridian (lon = 180.0 exactly) would fall out of it.  Straight-line
    evaluation of the assignments that precede the containment test; an assignment under a condition is a piecewise re-mapping."""
    ps = [p.name for p in f.params]
    if len(ps) < 3:
        return
    env = {ps[1]: Rat.sym('lat'), ps[2]: Rat.sym('lon')}
    cond = {}

    def ev(e):
        if isinstance(e, ast.Constant) and isinstance(e.value, (int, float)) and not isinstance(e.value, bool):
            return C(F(str(e.value)))
        if isinstance(e, ast.Name):
            return env.get(e.id)
        if isinstance(e, ast.UnaryOp) and isinstance(e.op, ast.USub):
            v = ev(e.operand)
            return None if v is None else C(0) - v
        if isinstance(e, ast.BinOp):
            a, b = ev(e.left), ev(e.right)
            if a is None or b is None:
                return None
            if isinstance(e.op, ast.Add):
                return a + b
            if isinstance(e.op, ast.Sub):
                return a - b
            if isinstance(e.op, ast.Mult):
                return a * b
            if isinstance(e.op, ast.Div) and not b.is_zero():
                return a / b
        if isinstance(e, ast.Call) and getattr(e.func, 'id', '') == 'float' and len(e.args) == 1:
            return ev(e.args[0])
        return None
    stop = found.lineno

    def run(stmts, under):
        for st in stmts:
            if st.lineno >= stop:
                return
            if isinstance(st, ast.Assign) and len(st.targets) == 1 and isinstance(st.targets[0], ast.Name):
                nm = st.targets[0].id
                if nm in env or nm in (ps[1], ps[2]):
                    env[nm] = ev(st.value)
                    if under is not None:
                        cond[nm] = (under, st)
            elif isinstance(st, ast.AugAssign) and isinstance(st.target, ast.Name) and st.target.id in env:
                env[st.target.id] = ev(ast.BinOp(left=ast.Name(id=st.target.id, ctx=ast.Load()), op=st.op, right=st.value))
                if under is not None:
                    cond[st.target.id] = (under, st)
            elif isinstance(st, ast.If):
                run(st.body, st)
                run(st.orelse, st)
            elif isinstance(st, (ast.For, ast.While, ast.With, ast.Try)):
                run(getattr(st, 'body', []), under)
    run(f.node.body, None)
    for v, (axis, pname, want, txt) in zip(found.test.values, (('latitude', ps[1], Rat.sym('lat') * C(3600), 'lat * 3600'), ('longitude', ps[2], Rat.sym('lon') * C(-3600), 'lon * -3600'))):
        mid = v.comparators[0]
        key = 'R-GUARD::geodepy/ntv2reader.py::interpolate_ntv2::position-' + axis
        if not isinstance(mid, ast.Name):
            rep.undecided('R-GUARD', key, where(f, found), 'the %s compared with the extents is not a plain variable' % axis)
            continue
        if mid.id in cond:
            under, st = cond[mid.id]
            # a condition that no position of the domain (lat in [-90, 90], lon in [-180, 180]) satisfies re-maps nothing
            from ..intervals import Interp
            ip = Interp({ps[1]: (-90, 90), ps[2]: (-180, 180)})
            if ip.test(under.test, dict(ip.env)) is False and st in under.body:
                rep.holds('R-GUARD', key, where(f, st), 'the re-mapping `if %s` cannot apply to a position of the domain' % stmt_text(under.test)[:40])
                continue
            rep.violated('R-GUARD', key, where(f, st), 'the %s looked up in the grid is re-mapped under a condition (`if %s: %s`): positions on that side of the condition are not '
                         'the caller\'s - a point exactly on the condition\'s boundary (a sub-grid edge at the antimeridian, lon = 180.0) is moved out of the sub-grid that contains it' % (
                             axis, stmt_text(under.test)[:40], stmt_text(st)[:40]), expected='%s = %s for every position' % (mid.id, txt), actual='if %s: %s' % (stmt_text(under.test)[:40], stmt_text(st)[:40]))
            continue
        got = env.get(mid.id)
        if got is None:
            rep.undecided('R-GUARD', key, where(f, found), 'the value of `%s` at the containment test is not an arithmetic form of the arguments' % mid.id)
        elif alg.decide_equal(got, want) == 'equal':
            rep.holds('R-GUARD', key, where(f, found), 'the %s compared with the extents is %s of the argument, for every position' % (axis, txt))
        else:
            rep.violated('R-GUARD', key, where(f, found), 'the %s compared with the extents is %s, not %s of the argument' % (axis, alg.fmt(got, 2)[:60], txt), expected=txt, actual=alg.fmt(got, 2)[:80])


def selection_rules(repo, rep):
    f = repo.func('geodepy.ntv2reader', 'interpolate_ntv2')
    rep.analysed(f)
    w = where(f, f.node)
    base = 'R-GUARD::geodepy/ntv2reader.py::interpolate_ntv2::'
    # containment: half-open on both axes against the sub-grid's own extents
    found = None
    for n in ast.walk(f.node):
        # the test of an if statement or the filter of a comprehension
        t_ = n.test if isinstance(n, ast.If) else None
        if isinstance(n, ast.comprehension) and len(n.ifs) == 1:
            t_ = n.ifs[0]
        if isinstance(t_, ast.BoolOp) and isinstance(t_.op, ast.And) and len(t_.values) == 2 \
                and all(isinstance(v, ast.Compare) and len(v.ops) == 2 for v in t_.values):
            class _T(object):
                pass
            found = _T()
            found.test = t_
            found.lineno = getattr(t_, 'lineno', f.node.lineno)
            found.col_offset = 0
            break
    key = base + 'containment'
    if found is None:
        rep.undecided('R-GUARD', key, w, 'no containment test of the form a <= lat < b and c <= lon < d')
    else:
        ok = True
        txt = stmt_text(found.test)
        for v, (lo, hi) in zip(found.test.values, (('s_lat', 'n_lat'), ('e_long', 'w_long'))):
            if not (isinstance(v.ops[0], ast.LtE) and isinstance(v.ops[1], ast.Lt)):
                ok = False
            l, r = v.left, v.comparators[1]
            if not (isinstance(l, ast.Attribute) and l.attr == lo and isinstance(r, ast.Attribute) and r.attr == hi
                    and isinstance(l.value, ast.Name) and isinstance(r.value, ast.Name) and l.value.id == r.value.id):
                ok = False
        if ok:
            rep.holds('R-GUARD', key, where(f, found), 'half-open containment on both axes against the sub-grid\'s own extents: %s' % txt)
        else:
            rep.violated('R-GUARD', key, where(f, found), 'containment test is not s_lat <= lat < n_lat and e_long <= lon < w_long of one sub-grid: %s' % txt,
                         expected='sg.s_lat <= lat < sg.n_lat and sg.e_long <= lon < sg.w_long', actual=txt)
    # what is compared with the extents: the arguments themselves, scaled to arc-seconds (longitude positive west) - unconditionally
    if found is not None:
        position_rule(rep, f, found)
    # no match -> four Nones
    key = base + 'outside'
    rets = [n for n in ast.walk(f.node) if isinstance(n, ast.Return) and isinstance(n.value, ast.Tuple) and len(n.value.elts) == 4
            and all(isinstance(e, ast.Constant) and e.value is None for e in n.value.elts)]
    if rets:
        rep.holds('R-GUARD', key, where(f, rets[0]), 'outside every sub-grid four None values are returned')
    else:
        rep.violated('R-GUARD', key, w, 'no "return None, None, None, None" for positions outside every sub-grid')
    # finest spacing wins
    key = base + 'finest'
    fin = None
    fin_cmp = None
    for n in ast.walk(f.node):
        if not isinstance(n, ast.If):
            continue
        # the comparison itself, or one arm of `not threshold or candidate < threshold` (first candidate and finer candidate in one test)
        cands_ = [n.test] if isinstance(n.test, ast.Compare) else (list(n.test.values) if isinstance(n.test, ast.BoolOp) and isinstance(n.test.op, ast.Or) else [])
        for c_ in cands_:
            if isinstance(c_, ast.Compare) and len(c_.ops) == 1 and isinstance(c_.ops[0], ast.Lt) and 'lat_inc' in stmt_text(c_.left):
                fin, fin_cmp = n, c_
    mins = [n for n in ast.walk(f.node) if isinstance(n, ast.Call) and isinstance(n.func, ast.Name) and n.func.id == 'min'
            and any(k.arg == 'key' and 'lat_inc' in stmt_text(k.value) for k in n.keywords)]
    if fin is not None:
        # a running minimum: the branch that takes the finer candidate must lower the threshold it was compared with
        thr = fin_cmp.comparators[0]
        lowered = isinstance(thr, ast.Name) and any(isinstance(x, ast.Assign) and isinstance(x.targets[0], ast.Name) and x.targets[0].id == thr.id
                                                      and stmt_text(x.value) == stmt_text(fin_cmp.left) for x in fin.body)
        chosen = [x for x in fin.body if isinstance(x, ast.Assign) and isinstance(x.targets[0], ast.Name) and not (isinstance(thr, ast.Name) and x.targets[0].id == thr.id)]
        if not isinstance(thr, ast.Name):
            rep.undecided('R-GUARD', key, where(f, fin), 'the spacing comparison is not against a running threshold: %s' % stmt_text(fin_cmp))
        elif lowered and chosen:
            rep.holds('R-GUARD', key, where(f, fin), 'among overlapping sub-grids the one with the smaller lat_inc replaces the current choice and lowers the threshold: %s' % stmt_text(fin_cmp))
        elif not lowered:
            rep.violated('R-GUARD', key, where(f, fin), 'a finer sub-grid replaces the current choice but the threshold `%s` it was compared with is not lowered to its spacing: a later candidate '
                         'that is coarser than the chosen one (but finer than the first) replaces it - not the finest sub-grid wins' % thr.id,
                         expected='%s = %s inside the branch' % (thr.id, stmt_text(fin_cmp.left)), actual='; '.join(stmt_text(x) for x in fin.body)[:160])
        else:
            rep.violated('R-GUARD', key, where(f, fin), 'the finer candidate lowers the threshold but is not taken as the choice', actual='; '.join(stmt_text(x) for x in fin.body)[:160])
    elif mins:
        rep.holds('R-GUARD', key, where(f, mins[0]), 'the sub-grid of minimal lat_inc among the containing ones is chosen: %s' % stmt_text(mins[0])[:100])
    else:
        rep.undecided('R-GUARD', key, w, 'no "smaller lat_inc wins" selection recognised among the containing sub-grids')
    # arguments handed to the interpolators
    calls = [n for n in ast.walk(f.node) if isinstance(n, ast.Call) and isinstance(n.func, ast.Attribute) and n.func.attr in ('ntv2_bilinear', 'ntv2_bicubic')]
    if not calls:
        # the method bound once (`interp = g.ntv2_bilinear if method == 'bilinear' else g.ntv2_bicubic`) and called through that name: ONE call
        # site serves both interpolators - it stands for both
        refs = dict((n.attr, n) for n in ast.walk(f.node) if isinstance(n, ast.Attribute) and n.attr in ('ntv2_bilinear', 'ntv2_bicubic') and isinstance(n.ctx, ast.Load))
        bound = [st for st in ast.walk(f.node) if isinstance(st, ast.Assign) and len(st.targets) == 1 and isinstance(st.targets[0], ast.Name)
                 and len(set(x.attr for x in ast.walk(st.value) if isinstance(x, ast.Attribute) and x.attr in refs)) == 2]
        if len(refs) == 2 and len(bound) == 1:
            via = [n for n in ast.walk(f.node) if isinstance(n, ast.Call) and isinstance(n.func, ast.Name) and n.func.id == bound[0].targets[0].id]
            if len(via) == 1:
                for nm_ in ('ntv2_bilinear', 'ntv2_bicubic'):
                    c_ = ast.Call(func=ast.Attribute(value=refs[nm_].value, attr=nm_, ctx=ast.Load()), args=via[0].args, keywords=via[0].keywords)
                    ast.copy_location(c_, via[0])
                    ast.copy_location(c_.func, via[0])
                    calls.append(c_)
    if len(calls) != 2:
        rep.undecided('R-AFFINE', 'R-AFFINE::geodepy/ntv2reader.py::interpolate_ntv2::calls', w, 'expected one call of each interpolator')
        return
    sub = repo.cls('geodepy.ntv2reader', 'SubGrid')
    G = Obj(sub, dict((n, Rat.sym('G.' + n)) for n in ('s_lat', 'n_lat', 'e_long', 'w_long', 'lat_inc', 'long_inc', 'gs_count', 'sub_name')), origin='param:G')
    recv = calls[0].func.value
    if not isinstance(recv, ast.Name):
        rep.undecided('R-AFFINE', 'R-AFFINE::geodepy/ntv2reader.py::interpolate_ntv2::calls', w, 'receiver of the interpolator call is not a name')
        return
    gname = recv.id
    ev = Evaluator(repo)
    ps = [p.name for p in f.params]
    env = {ps[1]: Rat.sym('latdeg'), ps[2]: Rat.sym('londeg'), gname: G}
    ev._stack.append(f)
    try:
        # straight-line statements of the function body that define the arguments (top level only)
        for st in f.node.body:
            if isinstance(st, (ast.Assign, ast.AugAssign)):
                tg = st.targets[0] if isinstance(st, ast.Assign) else st.target
                if isinstance(tg, ast.Name) and tg.id != gname:
                    try:
                        ev.exec_stmt(st, env, f)
                    except Exception:
                        pass
        argv = [ev.eval(a, env, f) if not (isinstance(a, ast.Name) and a.id not in env) else None for a in calls[0].args]
    finally:
        ev._stack.pop()
    lat_a, lon_a, ncols, row, col = argv[:5]
    base2 = 'R-AFFINE::geodepy/ntv2reader.py::interpolate_ntv2::'
    check_equal(rep, 'R-AFFINE', base2 + 'lat', w, lat_a, Rat.sym('latdeg') * C(3600), 'latitude handed on in arc-seconds (degrees * 3600)')
    check_equal(rep, 'R-AFFINE', base2 + 'lon', w, lon_a, Rat.sym('londeg') * C(-3600), 'longitude handed on in positive-west arc-seconds (degrees * -3600)')
    if isinstance(lat_a, Rat) and isinstance(lon_a, Rat):
        check_equal(rep, 'R-AFFINE', base2 + 'row', w, row, alg.opaque('int', ((lat_a - G.fields['s_lat']) / G.fields['lat_inc'],)), 'row = int((lat - s_lat)/lat_inc) of the chosen sub-grid')
        check_equal(rep, 'R-AFFINE', base2 + 'col', w, col, alg.opaque('int', ((lon_a - G.fields['e_long']) / G.fields['long_inc'],)), 'col = int((lon - e_long)/long_inc) of the chosen sub-grid')
        # the extent is a whole number of increments only up to the rounding of the stored header values (extents are kept to 0.001", increments
        # to 0.000001") and of the float division: the quotient may land just below the integer, so the count must be the NEAREST integer -
        # truncation gives one column too few and every row after the first is addressed at the wrong node
        check_equal(rep, 'R-AFFINE', base2 + 'num_cols', w, ncols, C(1) + alg.opaque('nearest', ((G.fields['w_long'] - G.fields['e_long']) / G.fields['long_inc'],)),
                    'num_cols = 1 + round((w_long - e_long)/long_inc): the column count is the nearest integer of the float quotient (56 x 56.250125" gives '
                    '55.9999999999997: truncation yields 56 columns instead of 57)')
    # both calls receive the same arguments
    same = all(stmt_text(a) == stmt_text(b) for a, b in zip(calls[0].args, calls[1].args)) and len(calls[0].args) == len(calls[1].args)
    key = base2 + 'same-arguments'
    if same:
        rep.holds('R-AFFINE', key, w, 'both interpolators receive the same (lat, lon, num_cols, row, col, file, start) arguments')
    else:
        rep.violated('R-AFFINE', key, w, 'the two interpolators are called with different arguments', expected=stmt_text(calls[0]), actual=stmt_text(calls[1]))
    # skip arithmetic agrees with the layout: 176 (overview) + 176 per sub-grid header + 16 per node of every skipped sub-grid
    lits = []
    for n in ast.walk(f.node):
        if isinstance(n, ast.Assign) and isinstance(n.value, ast.Constant) and isinstance(n.value.value, int) and n.value.value > 1:
            lits.append(('init', n.value.value))
        if isinstance(n, ast.AugAssign) and isinstance(n.op, ast.Add):
            if isinstance(n.value, ast.Constant):
                lits.append(('header', n.value.value))
            elif isinstance(n.value, ast.BinOp) and isinstance(n.value.op, ast.Mult):
                for side in (n.value.left, n.value.right):
                    if isinstance(side, ast.Constant):
                        lits.append(('node', side.value))
    key = base2 + 'skip-bytes'
    if ('init', 176) in lits and ('header', 176) in lits and ('node', 16) in lits:
        rep.holds('R-AFFINE', key, w, 'start offset = 176 (overview header) + 176 per sub-grid header + 16 * gs_count per skipped sub-grid: the sizes the parser consumes')
    else:
        rep.violated('R-AFFINE', key, w, 'skip arithmetic %s does not match the parsed layout (176-byte overview header, 176-byte sub-grid headers, 16-byte nodes)' % lits,
                     expected="[('init', 176), ('header', 176), ('node', 16)]", actual=str(lits))
    # the node count skipped is that of the sub-grid being stepped over (the loop variable), field gs_count
    key = base2 + 'skip-count'
    found_skip = False
    for lp in ast.walk(f.node):
        if isinstance(lp, ast.For) and isinstance(lp.target, ast.Name):
            for n in ast.walk(lp):
                if isinstance(n, ast.AugAssign) and isinstance(n.op, ast.Add) and isinstance(n.value, ast.BinOp) and isinstance(n.value.op, ast.Mult):
                    attrs = [x for x in (n.value.left, n.value.right) if isinstance(x, ast.Attribute)]
                    if len(attrs) == 1 and isinstance(attrs[0].value, ast.Name):
                        found_skip = True
                        if attrs[0].value.id != lp.target.id:
                            rep.violated('R-AFFINE', key, where(f, n), 'while stepping over sub-grid `%s` the offset advances by the node count of `%s`: with sub-grids of different '
                                         'sizes the nodes of every later sub-grid are read from the wrong place' % (lp.target.id, attrs[0].value.id),
                                         expected='%s.gs_count * 16' % lp.target.id, actual=stmt_text(n.value))
                        elif attrs[0].attr != 'gs_count':
                            rep.violated('R-AFFINE', key, where(f, n), 'the offset advances by %s.%s nodes; the number of nodes of a sub-grid is gs_count' % (lp.target.id, attrs[0].attr),
                                         expected='gs_count', actual=attrs[0].attr)
                        else:
                            rep.holds('R-AFFINE', key, where(f, n), 'each skipped sub-grid advances the offset by its own gs_count nodes')
    if not found_skip:
        rep.undecided('R-AFFINE', key, w, 'no `offset += <sub-grid>.gs_count * 16` inside the sub-grid loop')
    # stencil guard for the bicubic call
    bic = [c for c in calls if c.func.attr == 'ntv2_bicubic'][0]
    key = 'R-GUARD::geodepy/ntv2reader.py::interpolate_ntv2::ntv2_bicubic-call'
    guarded = False
    rowname = stmt_text(bic.args[3]) if len(bic.args) > 3 else 'row'
    colname = stmt_text(bic.args[4]) if len(bic.args) > 4 else 'col'
    for n in ast.walk(f.node):
        if isinstance(n, (ast.If, ast.IfExp)):
            t = stmt_text(n.test)
            if (rowname in t.split() or (rowname + ' ') in t or ('(' + rowname) in t) and any(isinstance(c, ast.Compare) for c in ast.walk(n.test)) \
                    and any(isinstance(x, ast.Name) and x.id in (rowname, colname) for x in ast.walk(n.test)):
                guarded = True
    if guarded:
        rep.holds('R-GUARD', key, where(f, bic), 'the 4x4 stencil call is preceded by a comparison on row / col')
    else:
        rep.violated('R-GUARD', key, where(f, bic), 'ntv2_bicubic is called for every cell, but its 4x4 stencil needs 1 <= row <= rows-3 and 1 <= col <= cols-3: in the outermost ring of '
                     'cells pos5 = (row-1)*num_cols + col-1 is negative or the top stencil row lies beyond the sub-grid, so header bytes or a neighbouring sub-grid are read as node values',
                     expected='a comparison establishing 1 <= row <= rows-3 and 1 <= col <= cols-3 (or one-sided differences at the edge)', actual='no comparison on row/col dominates the call')


def shift_rules(repo, rep):
    f = repo.func('geodepy.transform', 'ntv2_2d')
    rep.analysed(f)
    w = where(f, f.node)
    ev = Evaluator(repo, opaque={'interpolate_ntv2'})
    ps = [p.name for p in f.params]
    val = ev.call_function(f, {ps[0]: Rat.sym('grid'), ps[1]: Rat.sym('lat'), ps[2]: Rat.sym('lon'), ps[3]: Rat.sym('fwd'), ps[4]: Rat.sym('method')})
    call = None
    for caller, callee, b, node in ev.calls:
        if callee == 'interpolate_ntv2':
            g = repo.func('geodepy.ntv2reader', 'interpolate_ntv2')
            call = alg.opaque('call:interpolate_ntv2', tuple(argkey(b.get(p.name, NONE)) for p in g.params))
            wired = [b.get(p.name) for p in g.params]
    base = 'R-SIBLING::geodepy/transform.py::ntv2_2d::'
    if call is None or not isinstance(val, Tup) or len(val.items) != 2:
        rep.undecided('R-SIBLING', base + 'shape', w, 'ntv2_2d does not return a pair computed from interpolate_ntv2')
        return
    ok = all(compare_values(a, b) == 'equal' for a, b in zip(wired, [Rat.sym('grid'), Rat.sym('lat'), Rat.sym('lon'), Rat.sym('method')]))
    if ok:
        rep.holds('R-WIRE', 'R-WIRE::geodepy/transform.py::ntv2_2d::interpolate', w, 'interpolate_ntv2(grid, lat, lon, method) receives the inputs unchanged')
    else:
        rep.violated('R-WIRE', 'R-WIRE::geodepy/transform.py::ntv2_2d::interpolate', w, 'interpolate_ntv2 does not receive (grid, lat, lon, method)')
    s0 = alg.opaque('item', (call, C(0)))
    s1 = alg.opaque('item', (call, C(1)))
    cond = alg.opaque('truthy', (Rat.sym('fwd'),))
    want_lat = alg.opaque('ite', (cond, Rat.sym('lat') + s0 / C(3600), Rat.sym('lat') - s0 / C(3600)))
    want_lon = alg.opaque('ite', (cond, Rat.sym('lon') - s1 / C(3600), Rat.sym('lon') + s1 / C(3600)))
    check_equal(rep, 'R-SIBLING', base + 'lat', w, val.items[0], want_lat, 'forward: lat + shift_lat/3600; reverse: lat - shift_lat/3600 (arc-seconds)')
    check_equal(rep, 'R-SIBLING', base + 'lon', w, val.items[1], want_lon, 'forward: lon - shift_lon/3600 (positive-west shift); reverse: lon + shift_lon/3600')
    # raises on None
    key = 'R-GUARD::geodepy/transform.py::ntv2_2d::outside'
    hit = any(isinstance(n, ast.If) and 'is None' in stmt_text(n.test) and any(isinstance(b, ast.Raise) for b in n.body) for n in ast.walk(f.node))
    if hit:
        rep.holds('R-GUARD', key, w, 'a None result of the interpolation raises')
    else:
        rep.violated('R-GUARD', key, w, 'ntv2_2d does not raise when the position is outside every sub-grid', expected='if shifts[0] is None: raise', actual='absent')


def order_rules(repo, rep):
    """the offset of a sub-grid's nodes is accumulated over the sub-grids that PRECEDE it in the container (`for sg in grid.subgrids.values():
    skip += ...`): that is their position in the file only while the container keeps the order in which the parser met them.  Who-may-write
    rule over the whole package: the container is created empty by the grid class, filled by `grid.subgrids[name] = SubGrid(...)` inside the
    parser's read loop, and never rebound, re-ordered, or shrunk anywhere else (a rebinding to a sorted / filtered copy, pop, clear,
    update, del, move-to-end)."""
    writers = []
    n_reads = 0
    for m in repo.modules.values():
        for f in m.all_functions():
            for n in ast.walk(f.node):
                tgt = None
                if isinstance(n, (ast.Assign, ast.AugAssign, ast.AnnAssign)):
                    tgts = n.targets if isinstance(n, ast.Assign) else [n.target]
                    for t in tgts:
                        for x in ([t] if not isinstance(t, (ast.Tuple, ast.List)) else t.elts):
                            if isinstance(x, ast.Attribute) and x.attr == 'subgrids':
                                writers.append(('rebind', f, n))
                            elif isinstance(x, ast.Subscript) and isinstance(x.value, ast.Attribute) and x.value.attr == 'subgrids':
                                writers.append(('insert', f, n))
                elif isinstance(n, ast.Delete):
                    for x in n.targets:
                        if (isinstance(x, ast.Attribute) and x.attr == 'subgrids') or (isinstance(x, ast.Subscript) and isinstance(x.value, ast.Attribute) and x.value.attr == 'subgrids'):
                            writers.append(('delete', f, n))
                elif isinstance(n, ast.Call) and isinstance(n.func, ast.Attribute) and isinstance(n.func.value, ast.Attribute) and n.func.value.attr == 'subgrids':
                    if n.func.attr in ('pop', 'popitem', 'clear', 'update', 'setdefault', 'move_to_end', '__setitem__', '__delitem__'):
                        writers.append(('mutate:' + n.func.attr, f, n))
                    else:
                        n_reads += 1
                elif isinstance(n, ast.Call) and any(isinstance(a, ast.Attribute) and a.attr == 'subgrids' for a in n.args) and getattr(n.func, 'id', '') == 'setattr':
                    writers.append(('setattr', f, n))
    key0 = 'R-OWNER::geodepy/ntv2reader.py::subgrids::'
    n_ok = 0
    seen = {}
    for kind, f, n in writers:
        k = key0 + '%s::%s' % (f.qualname, kind)
        seen[k] = seen.get(k, 0) + 1
        if seen[k] > 1:
            k += '#%d' % seen[k]
        if kind == 'rebind' and f.name == '__init__' and isinstance(n, ast.Assign) and isinstance(n.value, ast.Dict) and not n.value.keys:
            rep.holds('R-OWNER', k, where(f, n), 'the container is created empty by the grid object')
            n_ok += 1
        elif kind == 'insert' and f.qualname == 'read_ntv2_file' and any(isinstance(a, (ast.For, ast.While)) and any(x is n for x in ast.walk(a)) for a in ast.walk(f.node)):
            rep.holds('R-OWNER', k, where(f, n), 'sub-grids are entered one by one inside the parser\'s read loop: insertion order is file order')
            n_ok += 1
        else:
            rep.violated('R-OWNER', k, where(f, n), '`%s` %s the sub-grid container outside the parser\'s read loop: interpolate_ntv2 accumulates the byte offset of a sub-grid over the '
                         'sub-grids that precede it in this container, so its order must stay the order of the file - after this statement the nodes of a multi-sub-grid file are '
                         'read from another sub-grid\'s bytes' % (stmt_text(n)[:70], {'rebind': 'rebinds', 'insert': 'inserts into', 'delete': 'deletes from', 'setattr': 'rebinds'}.get(kind, 'mutates')),
                         expected='container filled only by `grid.subgrids[name] = SubGrid(...)` in the read loop', actual=stmt_text(n)[:100])
    if n_ok < 2:
        rep.undecided('R-OWNER', key0 + 'writers', 'geodepy/ntv2reader.py:1', 'creation and filling of the sub-grid container not recognised (%d of 2)' % n_ok)
    # the loop that accumulates the offset walks the container itself (not a sorted / reversed / filtered view of it)
    f = repo.func('geodepy.ntv2reader', 'interpolate_ntv2')
    key = key0 + 'interpolate_ntv2::offset-loop-order'
    loops = [lp for lp in ast.walk(f.node) if isinstance(lp, ast.For) and any(isinstance(x, ast.AugAssign) for x in ast.walk(lp)) and 'subgrids' in stmt_text(lp.iter)]
    if not loops:
        rep.undecided('R-OWNER', key, where(f, f.node), 'offset loop over the sub-grids not found')
    for lp in loops:
        it = lp.iter
        plain = isinstance(it, ast.Call) and isinstance(it.func, ast.Attribute) and it.func.attr in ('values', 'items') and isinstance(it.func.value, ast.Attribute) \
            and it.func.value.attr == 'subgrids' and not it.args
        plain = plain or (isinstance(it, ast.Attribute) and it.attr == 'subgrids')
        if plain:
            rep.holds('R-OWNER', key, where(f, lp), 'the offset is accumulated over `%s`: the container in insertion (= file) order' % stmt_text(it))
        else:
            rep.violated('R-OWNER', key, where(f, lp), 'the offset is accumulated over `%s`, which is not the container in file order' % stmt_text(it)[:80],
                         expected='for sg in grid.subgrids.values()', actual=stmt_text(it)[:80])


def run(repo, rep):
    alg.reset()
    rep.trust('file model: seek(n, 1) advances, read(n) advances and yields the bytes at that offset; struct/int.from_bytes decoders are opaque but named')
    rep.trust('NTv2 layout: 16-byte records (8-byte name + 8-byte value), 11 overview and 11 sub-grid header records, 4 x float32 per node, rows south to north, columns east to west')
    rep.trust('reference interpolants: bilinear blend; bicubic Hermite patch with central differences (reproduces node values, linear and bi-quadratic fields exactly)')
    rep.assume('native-endian struct.unpack next to little-endian int.from_bytes is reported as information only (no big-endian host in the quantifier)')
    layout_rules(repo, rep)
    interp_rules(repo, rep)
    selection_rules(repo, rep)
    shift_rules(repo, rep)
    order_rules(repo, rep)
    # a grid object owns its sub-grids: no container shared between grids through a default argument
    from . import common
    common.mutable_default_rule(repo, rep, ['geodepy.ntv2reader'])
    common.iterator_reuse_rule(repo, rep, ['geodepy.ntv2reader'])
    rep.floor('R-TABLE', 8, 'four fields of two interpolators')


def controls(repo):
    out = []
    src = repo.sources['geodepy/ntv2reader.py']
    bic = lambda r, rp: interp_rules(r, rp, only=('ntv2_bicubic',), fields=(0,))
    out.append(('derivative-node', text_variant(repo, 'geodepy/ntv2reader.py', 'x11 = (n12 - n2) / 2', 'x11 = (n13 - n2) / 2'), 'ntv2_bicubic::field', bic))
    out.append(('stencil-offset', text_variant(repo, 'geodepy/ntv2reader.py', 'pos9 = pos8 + num_cols', 'pos9 = pos8 + num_cols + 1'), 'ntv2_bicubic::', bic))
    out.append(('longitude-wrap-on-the-boundary', text_variant(repo, 'geodepy/ntv2reader.py', "    # convert decimal degrees to arc-seconds\n    lat = lat * 3600\n",
                                                                  "    if lon >= 180:\n        lon = lon - 360\n    # convert decimal degrees to arc-seconds\n    lat = lat * 3600\n"), 'position-longitude', selection_rules))
    out.append(('subgrids-sorted', text_variant(repo, 'geodepy/ntv2reader.py', "        return grid\n\n\ndef interpolate_ntv2", "        grid.subgrids = dict(sorted(grid.subgrids.items()))\n        return grid\n\n\ndef interpolate_ntv2"), 'subgrids', order_rules))
    out.append(('nul-padding-kept', text_variant(repo, 'geodepy/ntv2reader.py', "            sub_name = byte.decode('utf').strip('\\x00').strip()", "            sub_name = byte.decode('utf').strip()"), 'subheader::sub_name::padding', layout_rules))
    out.append(('header-offset', text_variant(repo, 'geodepy/ntv2reader.py', "            # GS_COUNT\n            f.seek(8, 1)\n            byte = f.read(4)", "            # GS_COUNT\n            f.seek(4, 1)\n            byte = f.read(4)"), 'read_ntv2_file', layout_rules))
    return out
