"""C20 - HTTP API (api/app.py): wiring of query parameters to library arguments and of results to JSON keys."""
import ast
from fractions import Fraction as F
from .. import alg
from ..alg import Rat, C
from ..model import AnalysisError, stmt_text, Ext
from ..symval import Evaluator, Tup, Obj, NoneV, NONE, CallV, Bool, Ref, IteV, Str, DictV, argkey, _const_int, _single_atom
from ..symcheck import check_equal, compare_values, show
from ..rules import where
from ..mutate import replace_in_function, substitute, text_variant

META = {
    'level': 'proof',
    'exhaustive': True,
    'rule_text': 'one obligation per query parameter of each handler (reaches exactly the library parameter of the same meaning, through the '
                 'input-angle converter iff it is an angle), per JSON key (is the return slot of that meaning, through the output-angle '
                 'converter iff it is an angle), per dispatch-table entry, per default, for the status code and for the index route; the input table may use any typed HP -> accepted-notation conversion of geodepy.angles (equivalent converters are not reported)',
    'explanation': 'Static: both handlers are abstractly evaluated with flask\'s request.args.get modelled as a symbolic query lookup and the '
                   'library calls kept as opaque call atoms; the JSON dictionary handed to jsonify is compared key by key with the reference '
                   'wiring. The dispatch tables, defaults and the index route are read from the syntax tree. The handlers contain no '
                   'arithmetic, so this wiring is the whole content of C20 up to Flask\'s own behaviour and JSON float round-tripping.',
}

LIB = {'vincinv', 'vincdir', 'hp2dec', 'dec2hp'}


def query_summary(ev, args, kwargs, node):
    if not args or not isinstance(args[0], Str):
        return NotImplemented
    key = args[0].s
    ev.queries.append((key, kwargs))
    return Rat.sym('q:' + key)


def jsonify_summary(ev, args, kwargs, node):
    if args and isinstance(args[0], DictV):
        return args[0]
    return NotImplemented


ACCEPTED_BY_LIBRARY = ('dec', 'deca', 'hpa', 'dms', 'ddm', 'gona')    # notations angular_typecheck turns into decimal degrees


def input_converter(repo):
    """name of the function the 'dms' entry of the input table refers to when it is a typed HP -> <notation the library accepts> conversion
    of geodepy.angles (hp2dec, hp2deca, hp2dms, ...: all denote the same angle and vincinv/vincdir accept any of them); else 'hp2dec'"""
    from .c08 import Typer
    m = repo.module('api.app')
    ev = Evaluator(repo)
    v = ev.global_value(m, 'angle_type_to_dd')
    if isinstance(v, DictV) and 'dms' in v.d and isinstance(v.d['dms'], Ref):
        tgt = v.d['dms'].target
        name = getattr(tgt, 'qualname', '')
        if getattr(getattr(tgt, 'module', None), 'name', '') == 'geodepy.angles':
            sg = Typer(repo).sig(name)
            if sg and sg[0] == 'hp' and sg[1] in ACCEPTED_BY_LIBRARY:
                return name
    return 'hp2dec'


def mk_eval(repo):
    ev = Evaluator(repo, opaque=LIB | {input_converter(repo)}, summaries={'hp2dec': lambda *a: NotImplemented})
    ev.queries = []
    ev.ext_summaries['flask.request.args.get'] = query_summary
    ev.ext_summaries['flask.jsonify'] = jsonify_summary
    return ev


def conv(table_key_sym, ident_key, fn_name, repo, x):
    """ite(key == ident_key, x, call:fn(x)) - the shape a two-entry dispatch table gives"""
    from ..symval import Evaluator as _E
    cond = alg.opaque('eq', (table_key_sym, 'str<%s>' % ident_key))
    f = None
    for m in ('geodepy.angles',):
        f = repo.module(m).functions.get(fn_name)
    keys = tuple(argkey(x) for p in f.params)
    return alg.opaque('ite', (cond, x, alg.opaque('call:' + fn_name, keys)))


def libcall(repo, modname, fname, ev, **actuals):
    f = repo.func(modname, fname)
    vals = []
    for p in f.params:
        if p.name in actuals:
            vals.append(actuals[p.name])
        elif p.default is not None:
            vals.append(ev.eval_in_module(f.module, p.default))
        else:
            vals.append(NONE)
    return alg.opaque('call:' + fname, tuple(argkey(v) for v in vals))


def handler_rules(repo, rep):
    m = repo.module('api.app')
    specs = {
        'handle_vincinv': ('vincinv', ['lat1', 'lon1', 'lat2', 'lon2'], [], {'ell_dist': (0, False), 'azimuth1to2': (1, True), 'azimuth2to1': (2, True)}),
        'handle_vincdir': ('vincdir', ['lat1', 'lon1', 'azimuth1to2'], ['ell_dist'], {'lat2': (0, True), 'lon2': (1, True), 'azimuth2to1': (2, True)}),
    }
    for hname, (lib, angle_params, plain_params, outs) in specs.items():
        f = m.functions.get(hname)
        if f is None:
            raise AnalysisError('anchor vanished: api/app.py %s' % hname)
        rep.analysed(f)
        w = where(f, f.node)
        # a mapping keyed by RESULTS: dict(zip(<results>, <names>)) / {value: name ...}.  Results that coincide (coincident points give
        # distance 0, azimuths 0, 0) are one key: entries vanish from the response
        for n_ in ast.walk(f.node):
            if isinstance(n_, ast.Call) and getattr(n_.func, 'id', '') == 'dict' and n_.args and isinstance(n_.args[0], ast.Call) and getattr(n_.args[0].func, 'id', '') == 'zip' \
                    and len(n_.args[0].args) == 2:
                ka, kb = n_.args[0].args
                names_first = isinstance(ka, (ast.Tuple, ast.List)) and all(isinstance(e_, ast.Constant) and isinstance(e_.value, str) for e_ in ka.elts)
                names_second = isinstance(kb, (ast.Tuple, ast.List)) and all(isinstance(e_, ast.Constant) and isinstance(e_.value, str) for e_ in kb.elts)
                if names_second and not names_first:
                    rep.violated('R-WIRE', 'R-WIRE::api/app.py::%s::keyed-by-results' % hname, where(f, n_), '`%s` builds a mapping whose KEYS are the computed results and whose values are the '
                                 'names: results that are equal collapse into one entry - two coincident points give (0, 0, 0) and the response is {"azimuth2to1": 0} without ell_dist and azimuth1to2' % stmt_text(n_)[:70],
                                 expected="dict(zip(names, results))", actual=stmt_text(n_)[:90])
        ev = mk_eval(repo)
        val = ev.call_function(f, {})
        base = 'R-WIRE::api/app.py::%s::' % hname
        # several return paths: every path other than the success path must be impossible for a well-formed query
        paths = return_paths(val)
        if len(paths) > 1:
            ok_paths = [(g, v) for g, v in paths if isinstance(v, Tup) and len(v.items) == 2 and _const_int(v.items[1]) == 200]
            bad_paths = [(g, v) for g, v in paths if (g, v) not in ok_paths]
            for g, v in bad_paths:
                st = _const_int(v.items[1]) if isinstance(v, Tup) and len(v.items) == 2 else None
                rep.violated('R-WIRE', base + 'early-return::%s' % st, w, 'the handler can answer a well-formed query with status %s: it returns early when %s '
                             '(0 is a valid latitude, longitude, azimuth and distance)' % (st, ' and '.join(alg.fmt(c, 3)[:120] for c in g)),
                             expected='status 200 with the library result for every in-domain query', actual='status %s under %s' % (st, ' and '.join(alg.fmt(c, 2)[:80] for c in g)))
            if len(ok_paths) > 1:
                # several successful answers: the one built from the library call is the answer; any other is a shortcut that answers a
                # well-formed query with something else whenever its condition holds
                def uses_lib(v_):
                    try:
                        vals_ = list(v_.items[0].d.values()) if isinstance(v_.items[0], DictV) else []
                        vals_ = [getattr(x_, 'rat', x_) for x_ in vals_]
                        return any(isinstance(x_, Rat) and any(alg.TABLE.atoms[k_].kind == 'fn' and alg.TABLE.atoms[k_].name == 'call:' + lib for k_ in x_.atoms(deep=True)) for x_ in vals_)
                    except Exception:
                        return False
                main_ = [(g, v) for g, v in ok_paths if uses_lib(v)]
                def tiny_separation(conds_):
                    # every conjunct is |difference| < small: the shortcut is taken for (numerically) coincident points only, where the
                    # library itself answers (0, 0, 0)
                    flat_ = []

                    def fl(c_):
                        a_ = _single_atom(c_) if isinstance(c_, Rat) else None
                        if a_ is not None and a_.kind == 'fn' and a_.name == 'and':
                            for x_ in a_.args:
                                fl(x_)
                        else:
                            flat_.append(a_)
                    for c_ in conds_:
                        fl(c_)
                    if not flat_:
                        return False
                    for a_ in flat_:
                        if a_ is None or a_.kind != 'fn' or a_.name not in ('lt', 'le') or len(a_.args) != 2 or not all(isinstance(x_, Rat) for x_ in a_.args):
                            return False
                        l_, r_ = a_.args
                        la_ = _single_atom(l_)
                        rf_ = r_.as_fraction()
                        if la_ is None or la_.kind != 'fn' or la_.name != 'abs' or rf_ is None or not (0 < rf_ <= F(1, 10 ** 6)):
                            return False
                    return len(flat_) >= 2
                for g, v in ok_paths:
                    if (g, v) in main_[:1]:
                        continue
                    if tiny_separation(g):
                        rep.holds('R-WIRE', base + 'shortcut', w, 'a shortcut for coincident points (every coordinate difference below a tiny bound in magnitude), where the library answers zeros too')
                        continue
                    rep.violated('R-WIRE', base + 'shortcut', w, 'the handler answers a well-formed query WITHOUT the library result when %s: the response is %s - for a condition that is '
                                 'true of ordinary queries (not only of the degenerate one it was meant for) the client gets these constants with status 200' % (
                                     ' and '.join(alg.fmt(c, 3)[:100] for c in g) or 'a condition holds',
                                     '{%s}' % ', '.join('%s: %s' % (k_, show(x_, 1, 20)) for k_, x_ in sorted(v.items[0].d.items())) if isinstance(v.items[0], DictV) else show(v.items[0], 2, 120)),
                                 expected='the values %s returns, for every query' % lib, actual='a constant answer under %s' % ' and '.join(alg.fmt(c, 2)[:60] for c in g))
                if main_:
                    ok_paths = main_[:1]
            if len(ok_paths) == 1:
                val = ok_paths[0][1]
        if not (isinstance(val, Tup) and len(val.items) == 2 and isinstance(val.items[0], DictV)):
            rep.undecided('R-WIRE', base + 'shape', w, 'handler does not return (jsonify({...}), status)')
            continue
        body, status = val.items
        k = base + 'status'
        if _const_int(status) == 200:
            rep.holds('R-WIRE', k, w, 'status 200')
        else:
            rep.violated('R-WIRE', k, w, 'status is %s, not 200' % show(status, 2, 40), expected='200', actual=show(status, 2, 40))
        # query parsing: floats, defaults
        qs = dict((k_, kw) for k_, kw in ev.queries)
        for p in angle_params + plain_params:
            k = base + 'query::' + p
            if p not in qs:
                rep.violated('R-WIRE', k, w, 'query parameter %s is never read' % p)
            else:
                t = qs[p].get('type')
                if isinstance(t, Ref) and isinstance(t.target, Ext) and t.target.name == 'builtins.float':
                    rep.holds('R-WIRE', k, w, 'query parameter %s parsed as float' % p)
                else:
                    rep.violated('R-WIRE', k, w, 'query parameter %s is not parsed with type=float' % p)
        for p in ('from_angle_type', 'to_angle_type'):
            k = base + 'default::' + p
            d = qs.get(p, {}).get('default')
            if isinstance(d, Str) and d.s == 'dd':
                rep.holds('R-WIRE', k, w, '%s defaults to dd (absent = decimal degrees)' % p)
            else:
                rep.violated('R-WIRE', k, w, '%s does not default to dd' % p, expected="default='dd'", actual=show(d, 2, 40))
        fa, ta = Rat.sym('q:from_angle_type'), Rat.sym('q:to_angle_type')
        actuals = {}
        for p in angle_params:
            actuals[p] = conv(fa, 'dd', input_converter(repo), repo, Rat.sym('q:' + p))
        for p in plain_params:
            actuals[p] = Rat.sym('q:' + p)
        call = libcall(repo, 'geodepy.geodesy', lib, ev, **actuals)
        # what the code actually called
        got_call = None
        for caller, callee, b, node in ev.calls:
            if caller == hname and callee == lib:
                libf = repo.func('geodepy.geodesy', lib)
                got_call = alg.opaque('call:' + lib, tuple(argkey(b.get(p.name, NONE)) for p in libf.params))
                for p in libf.params:
                    if p.name in actuals:
                        check_equal(rep, 'R-WIRE', base + 'arg::' + p.name, where(f, node), b.get(p.name), actuals[p.name],
                                    'library argument %s = query parameter %s%s' % (p.name, p.name, ' through the input-angle converter (identity for dd, hp2dec for dms)' if p.name in angle_params else ' unchanged (a distance, not an angle)'))
                    elif p.default is not None:
                        k = base + 'arg::' + p.name
                        if compare_values(b.get(p.name), ev.eval_in_module(libf.module, p.default)) == 'equal':
                            rep.holds('R-WIRE', k, where(f, node), 'library argument %s left at its default' % p.name)
                        else:
                            rep.violated('R-WIRE', k, where(f, node), 'library argument %s is set by the handler' % p.name)
        if got_call is None:
            rep.violated('R-WIRE', base + 'call', w, 'handler does not call %s' % lib)
            continue
        keys = set(body.d)
        k = base + 'json-keys'
        if keys == set(outs):
            rep.holds('R-WIRE', k, w, 'JSON keys %s' % sorted(keys))
        else:
            rep.violated('R-WIRE', k, w, 'JSON keys are %s' % sorted(keys), expected=str(sorted(outs)), actual=str(sorted(keys)))
        for name, (slot, is_angle) in outs.items():
            if name not in body.d:
                continue
            item = alg.opaque('item', (call, C(slot)))
            want = conv(ta, 'dd', 'dec2hp', repo, item) if is_angle else item
            check_equal(rep, 'R-WIRE', base + 'json::' + name, w, body.d[name], want,
                        'JSON %s = result slot %d of %s%s' % (name, slot, lib, ' through the output-angle converter (identity for dd, dec2hp for dms)' if is_angle else ' unchanged'))
    rep.floor('R-WIRE', 30, 'query parameters, arguments and JSON keys of two handlers')


def return_paths(v, guards=()):
    """[(guard conditions, value)] for a value built from guarded returns"""
    if isinstance(v, IteV):
        return return_paths(v.a, guards + (v.cond,)) + return_paths(v.b, guards + (alg.opaque('not', (v.cond,)) if isinstance(v.cond, Rat) else v.cond,))
    if isinstance(v, Tup) and v.items and isinstance(v.items[-1], Rat):
        from .c10 import ite_leaves
        a = _single_atom(v.items[-1])
        if a is not None and a.kind == 'fn' and a.name == 'ite':
            # the status slot is a guarded number: split the tuple on that condition
            c = a.args[0]
            ta = Tup([pick(x, c, True) for x in v.items])
            tb = Tup([pick(x, c, False) for x in v.items])
            return return_paths(ta, guards + (c,)) + return_paths(tb, guards + (alg.opaque('not', (c,)),))
    if isinstance(v, Tup) and v.items and isinstance(v.items[0], IteV):
        # two returns with the same status merged into one tuple whose body is conditional: split on the body's condition
        b0 = v.items[0]
        ta = Tup([b0.a] + list(v.items[1:]))
        tb = Tup([b0.b] + list(v.items[1:]))
        return return_paths(ta, guards + (b0.cond,)) + return_paths(tb, guards + (alg.opaque('not', (b0.cond,)) if isinstance(b0.cond, Rat) else b0.cond,))
    return [(guards, v)]


def pick(x, cond, branch):
    if isinstance(x, IteV) and isinstance(x.cond, Rat) and x.cond.equals(cond):
        return x.a if branch else x.b
    if isinstance(x, Rat):
        return alg.assume(x, cond, branch)
    return x


def table_rules(repo, rep):
    m = repo.module('api.app')
    ev = mk_eval(repo)
    for tname, fn in (('angle_type_to_dd', input_converter(repo)), ('dd_to_angle_type', 'dec2hp')):
        v = ev.global_value(m, tname)
        key = 'R-DISPATCH::api/app.py::%s' % tname
        w = 'api/app.py:1'
        if not isinstance(v, DictV):
            rep.undecided('R-DISPATCH', key, w, 'dispatch table is not a literal dict')
            continue
        if set(v.d) != {'dd', 'dms'}:
            rep.violated('R-DISPATCH', key + '::keys', w, 'table keys are %s' % sorted(v.d), expected="['dd', 'dms']", actual=str(sorted(v.d)))
            continue
        x = Rat.sym('x')
        ident = ev.apply(v.d['dd'], [x], {}, None)
        k = key + '::dd'
        if compare_values(ident, x) == 'equal':
            rep.holds('R-DISPATCH', k, w, 'dd entry is the identity')
        else:
            rep.violated('R-DISPATCH', k, w, 'dd entry is not the identity', expected='x', actual=show(ident, 2, 80))
        k = key + '::dms'
        t = v.d['dms']
        tgt = t.target if isinstance(t, Ref) else None
        if tgt is not None and getattr(tgt, 'qualname', '') == fn and tgt.module.name == 'geodepy.angles':
            rep.holds('R-DISPATCH', k, w, 'dms entry is geodepy.angles.%s (re-exported through geodepy.convert)%s' % (fn, '' if fn in ('hp2dec', 'dec2hp') else ': an HP -> angle conversion the geodesic routines accept through angular_typecheck'))
        else:
            rep.violated('R-DISPATCH', k, w, 'dms entry is not %s' % fn, expected=fn, actual=show(t, 2, 80))
    # index route and registration
    f = m.functions.get('list_routes')
    key = 'R-DISPATCH::api/app.py::list_routes'
    if f is None:
        rep.violated('R-DISPATCH', key, 'api/app.py:1', 'no index route')
    else:
        src = stmt_text(f.node)
        ok_iter = 'app.url_map.iter_rules()' in src
        filt = [n for n in ast.walk(f.node) if isinstance(n, ast.comprehension)]
        ok_filter = len(filt) == 1 and len(filt[0].ifs) == 1 and stmt_text(filt[0].ifs[0]) == "rule.endpoint != 'static'"
        routed = any(isinstance(d, ast.Call) and stmt_text(d.func) == 'app.route' and d.args and isinstance(d.args[0], ast.Constant) and d.args[0].value == '/'
                     for d in f.node.decorator_list)
        if ok_iter and ok_filter and routed:
            rep.holds('R-DISPATCH', key, where(f, f.node), 'index route lists every rule of app.url_map except static')
        else:
            rep.violated('R-DISPATCH', key, where(f, f.node), 'index route does not enumerate app.url_map.iter_rules() minus static only',
                         expected="url_for(rule.endpoint) for rule in app.url_map.iter_rules() if rule.endpoint != 'static'", actual=src[:200])
    for hname, path in (('handle_vincinv', '/vincinv'), ('handle_vincdir', '/vincdir')):
        f = m.functions.get(hname)
        key = 'R-DISPATCH::api/app.py::route::%s' % hname
        routed = f is not None and any(isinstance(d, ast.Call) and stmt_text(d.func) == 'app.route' and d.args and isinstance(d.args[0], ast.Constant)
                                       and d.args[0].value == path for d in f.node.decorator_list)
        if routed:
            rep.holds('R-DISPATCH', key, where(f, f.node), '%s registered at %s' % (hname, path))
        else:
            rep.violated('R-DISPATCH', key, 'api/app.py:1', '%s is not registered at %s' % (hname, path))


def hook_rules(repo, rep):
    """an answer of the API is built by its handler from the library call.  A request hook (`@app.before_request`, `@app.after_request`,
    `@app.url_value_preprocessor`, ...) that RETURNS a response answers in the handler's place (before_request) or replaces what it
    built (after_request): a second place where valid requests can be refused or values altered, which the handler rules do not see."""
    m = repo.module('api.app')
    HOOKS = ('before_request', 'after_request', 'before_first_request', 'teardown_request', 'url_value_preprocessor', 'before_app_request', 'after_app_request')
    n = 0
    for f in m.all_functions():
        decs = [stmt_text(d) for d in f.node.decorator_list]
        hook = [d for d in decs if d.split('(')[0].split('.')[-1] in HOOKS]
        if not hook:
            continue
        n += 1
        key = 'R-WIRE::api/app.py::%s::request-hook' % f.qualname
        rets = [r for r in ast.walk(f.node) if isinstance(r, ast.Return) and r.value is not None and not (isinstance(r.value, ast.Constant) and r.value.value is None)]
        kind = hook[0].split('(')[0].split('.')[-1]
        if kind.startswith('after'):
            # must hand the response on unchanged: `return response` (its parameter)
            prm = f.params[0].name if f.params else None
            rets = [r for r in rets if not (isinstance(r.value, ast.Name) and r.value.id == prm)]
        if rets:
            rep.violated('R-WIRE', key, where(f, rets[0]), '%s is registered with @%s and returns `%s`: for the requests it picks, the answer is the hook\'s, not the handler\'s - a valid '
                         'request (an exponent-form number such as -3.3333333333333335e-05 has 23 characters) gets this instead of status 200 with the library\'s values'
                         % (f.qualname, hook[0], stmt_text(rets[0].value)[:60]), expected='no response from a request hook', actual=stmt_text(rets[0])[:100])
        else:
            rep.holds('R-WIRE', key, where(f, f.node), '%s (@%s) returns no response of its own' % (f.qualname, hook[0]))
    if n == 0:
        rep.holds('R-WIRE', 'R-WIRE::api/app.py::<module>::request-hook', 'api/app.py:1', 'no request hook is registered: every answer comes from a handler', work=False)


def run(repo, rep):
    alg.reset()
    rep.trust('flask: request.args.get(key, default=..., type=float) returns the query value (or the default); jsonify serialises the dict it is given')
    rep.trust('opaque call atoms carry every formal parameter of the library function (defaults explicit)')
    handler_rules(repo, rep)
    table_rules(repo, rep)
    hook_rules(repo, rep)
    from . import common
    common.identity_compare_rule(repo, rep, 'api.app')
    # closures and lazy generators in the handlers (inputs converted when consumed, with whatever a re-used local holds by then)
    common.late_binding_rule(repo, rep, ['api.app'])
    common.iterator_reuse_rule(repo, rep, ['api.app'])
    # dms output is dec2hp of the library's decimal degrees, dms input hp2dec: the carry and digit rules of the two converters
    from . import c08 as _c08
    _c08.carry_rule(repo, rep)
    _c08.digit_rules(repo, rep)


def controls(repo):
    out = []
    src = repo.sources['api/app.py']

    def cross(fn):
        # lon1 read from the query key lat1
        def pred(n):
            return isinstance(n, ast.Assign) and isinstance(n.targets[0], ast.Name) and n.targets[0].id == 'lon1'

        def make(n):
            n.value.args[0] = ast.Constant(value='lat1')
            return n
        substitute(fn, pred, make, limit=1, expect=1)
    out.append(('query-key-crossed', repo.variant({'api/app.py': replace_in_function(src, 'handle_vincinv', cross)}), 'handle_vincinv'))

    def dist_conv(fn):
        # the distance is passed through the angle converter
        def pred(n):
            return isinstance(n, ast.Call) and getattr(n.func, 'id', '') == 'vincdir'

        def make(n):
            n.args[3] = ast.parse('dd(ell_dist)', mode='eval').body
            return n
        substitute(fn, pred, make, limit=1, expect=1)
    out.append(('distance-through-angle-converter', repo.variant({'api/app.py': replace_in_function(src, 'handle_vincdir', dist_conv)}), 'handle_vincdir::arg::ell_dist'))
    out.append(('identity-test-on-a-string', text_variant(repo, 'api/app.py', "    angle = dd_to_angle_type[to_angle_type]\n", "    angle = dd_to_angle_type[to_angle_type if to_angle_type is not 'dd' else 'dd']\n"), 'identity-test'))
    out.append(('request-hook-answers', text_variant(repo, 'api/app.py', "@app.route('/vincinv')", "@app.before_request\ndef gate():\n    if len(request.args) > 8:\n        return jsonify({}), 400\n\n\n@app.route('/vincinv')"), 'gate::request-hook'))
    return out
