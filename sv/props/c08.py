"""C08 - angle notation conversions (angles.py)."""
import ast
import re
from fractions import Fraction as F
from .. import alg
from ..alg import Rat, C
from ..model import AnalysisError, stmt_text, Func, Class, Ext
from ..resolve import Resolver
from ..symval import Evaluator, Tup, Obj, NoneV, NONE, CallV, Bool, Ref, IteV, Str, _single_atom
from ..symcheck import Oracle, check_equal, compare_values, show
from ..rules import where
from ..mutate import replace_in_function, substitute, text_variant
from .c10 import ite_leaves

META = {
    'level': 'other',
    'rule_text': 'rule instances: notation typing of every conversion function and every conversion method (name states the type, body must '
                 'produce it through correctly typed steps); completeness of the 9 x 8 conversion table; defining linear forms of the '
                 'sexagesimal notations; sign symmetry of every positive/negative branch pair; sign inference of the DMS/DDM constructors over '
                 'the finite set of sign patterns; agreement of all HP-notation validators (digit positions, comparison, formatting '
                 'precision); carry cascade of the decimal-to-HP conversion',
    'explanation': 'Static: a small notation type system over the conversion functions and methods, abstract evaluation of the linear forms and '
                   'branch pairs, constant-folding over the finite set of sign patterns, and cross-checking of sibling validators / one-sided carry '
                   'handling (contradiction rules). Decides the structural necessary conditions of C08. Facts about IEEE doubles (the 1e-8 '
                   'arc-second figure, the whole-second lattice, values 1e-9" from a digit boundary, float divmod in hp2dms/hp2ddm) are not '
                   'facts about the shape of the code and are not decided.',
}

FLOATS = ['rad', 'dec', 'hp', 'gon']
OBJS = {'deca': 'DECAngle', 'hpa': 'HPAngle', 'gona': 'GONAngle', 'dms': 'DMSAngle', 'ddm': 'DDMAngle'}
CLASS_NOTATION = {'DECAngle': 'deca', 'HPAngle': 'hpa', 'GONAngle': 'gona', 'DMSAngle': 'dms', 'DDMAngle': 'ddm'}
FIELD_TYPE = {'dec_angle': 'dec', 'hp_angle': 'hp', 'gon_angle': 'gon'}
ALL = FLOATS + list(OBJS)


class Typer(object):
    """notation type inference for expressions of the angles module"""

    def __init__(self, repo):
        self.repo = repo
        self.m = repo.module('geodepy.angles')
        self.rs = Resolver(repo)

    def sig(self, name):
        mm = re.match(r'^(rad|dec|hp|gon|dd)2(rad|deca|dec|hpa|hp|gona|gon|dms|ddm|sec)(_v)?$', name)
        if not mm:
            return None
        return mm.group(1), mm.group(2)

    def type_of(self, e, env, cls=None):
        """notation type of expression e, or ('?', reason)"""
        if isinstance(e, ast.Name):
            return env.get(e.id, ('?', 'name %s' % e.id))
        if isinstance(e, ast.Attribute) and isinstance(e.value, ast.Name) and e.value.id == 'self' and e.attr in FIELD_TYPE:
            return FIELD_TYPE[e.attr]
        if isinstance(e, ast.Call):
            fn = e.func
            if isinstance(fn, ast.Name):
                if fn.id == 'float' and len(e.args) == 1:
                    return self.type_of(e.args[0], env, cls)
                if fn.id == 'radians' and len(e.args) == 1:
                    t = self.type_of(e.args[0], env, cls)
                    return 'rad' if t == 'dec' else (('!', 'radians() applied to a value in %s notation' % t) if isinstance(t, str) else t)
                if fn.id in CLASS_NOTATION and len(e.args) == 1 and fn.id != 'DMSAngle' and fn.id != 'DDMAngle':
                    want = {'DECAngle': 'dec', 'HPAngle': 'hp', 'GONAngle': 'gon'}[fn.id]
                    t = self.type_of(e.args[0], env, cls)
                    if t == want:
                        return CLASS_NOTATION[fn.id]
                    return ('!', '%s() is given a value in %s notation, it holds %s' % (fn.id, t, want)) if isinstance(t, str) else t
                s = self.sig(fn.id)
                if s and len(e.args) == 1 and fn.id in self.m.functions:
                    t = self.type_of(e.args[0], env, cls)
                    src = 'dec' if s[0] == 'dd' else s[0]
                    if t == src:
                        return s[1]
                    return ('!', '%s is applied to a value in %s notation' % (fn.id, t)) if isinstance(t, str) else t
            if isinstance(fn, ast.Attribute) and isinstance(fn.value, ast.Name) and fn.value.id == 'self' and not e.args and cls is not None:
                if fn.attr in ALL and fn.attr in cls.methods:
                    return fn.attr
        return ('?', stmt_text(e)[:60])


def typing_rules(repo, rep):
    ty = Typer(repo)
    m = ty.m
    n = 0
    # composed functions: single return of a call chain
    for name, f in m.functions.items():
        s = ty.sig(name)
        if not s or name.endswith('_v'):
            continue
        rep.analysed(f)
        rets = [x for x in ast.walk(f.node) if isinstance(x, ast.Return) and x.value is not None]
        body = [st for st in f.node.body if not (isinstance(st, ast.Expr) and isinstance(st.value, ast.Constant))]
        key = 'R-UNITS::geodepy/angles.py::%s' % name
        n += 1
        if len(body) == 1 and len(rets) == 1 and isinstance(rets[0].value, ast.Call):
            src = 'dec' if s[0] == 'dd' else s[0]
            t = ty.type_of(rets[0].value, {f.params[0].name: src})
            if t == s[1]:
                rep.holds('R-UNITS', key, where(f, f.node), '%s: %s -> %s through %s' % (name, src, s[1], stmt_text(rets[0].value)[:60]))
            elif isinstance(t, tuple) and t[0] == '!':
                rep.violated('R-UNITS', key, where(f, f.node), '%s: %s (%s)' % (name, t[1], stmt_text(rets[0].value)[:60]), expected='%s -> %s' % (src, s[1]), actual=t[1])
            elif isinstance(t, tuple):
                # a leaf conversion computed directly: typed by its linear form (R-TABLE), not by composition
                rep.holds('R-UNITS', key, where(f, f.node), '%s is a leaf conversion (checked by its defining form)' % name, work=False)
            else:
                rep.violated('R-UNITS', key, where(f, f.node), '%s returns a value in %s notation; its name promises %s' % (name, t, s[1]),
                             expected=s[1], actual=str(t))
        else:
            rep.holds('R-UNITS', key, where(f, f.node), '%s is a leaf conversion (checked by its defining form)' % name, work=False)
    # methods
    for cname, note in CLASS_NOTATION.items():
        c = m.classes.get(cname)
        if c is None:
            raise AnalysisError('anchor vanished: angles.%s' % cname)
        for mname, f in c.methods.items():
            if mname not in ALL:
                continue
            rep.analysed(f)
            rets = [x for x in ast.walk(f.node) if isinstance(x, ast.Return) and x.value is not None]
            key = 'R-UNITS::geodepy/angles.py::%s.%s' % (cname, mname)
            n += 1
            ts = set()
            for r in rets:
                v = r.value
                if isinstance(v, ast.UnaryOp) and isinstance(v.op, ast.USub):
                    v = v.operand
                t = ty.type_of(v, {}, c)
                if isinstance(t, tuple) and isinstance(v, ast.Call) and isinstance(v.func, ast.Name) and v.func.id in ('DMSAngle', 'DDMAngle'):
                    t = CLASS_NOTATION[v.func.id]
                if isinstance(t, tuple) and t[0] == '!':
                    ts.add('!' + t[1])
                else:
                    ts.add(t if not isinstance(t, tuple) else '?')
            bad = [x for x in ts if x.startswith('!')]
            if bad:
                rep.violated('R-UNITS', key, where(f, f.node), '%s.%s(): %s' % (cname, mname, bad[0][1:]), expected='%s -> %s' % (note, mname), actual=bad[0][1:])
            elif ts == {mname}:
                rep.holds('R-UNITS', key, where(f, f.node), '%s.%s(): %s -> %s' % (cname, mname, note, mname))
            elif '?' in ts:
                rep.holds('R-UNITS', key, where(f, f.node), '%s.%s() computes its value directly (checked by its defining form)' % (cname, mname), work=False)
            else:
                rep.violated('R-UNITS', key, where(f, f.node), '%s.%s() returns %s notation' % (cname, mname, sorted(ts)), expected=mname, actual=str(sorted(ts)))
    rep.floor('R-UNITS', 55, 'conversion functions and methods')
    # completeness of the conversion table
    missing = []
    for s in ('dec', 'hp', 'gon'):
        for t in ALL:
            if t == s or t == s + 'a' or (s == 'dec' and t == 'rad'):
                continue
            if '%s2%s' % (s, t) not in m.functions:
                missing.append('%s2%s' % (s, t))
    for cname, note in CLASS_NOTATION.items():
        c = m.classes[cname]
        for t in ALL:
            if t == note:
                continue
            if t not in c.methods:
                missing.append('%s.%s()' % (cname, t))
    key = 'R-DISPATCH::geodepy/angles.py::conversion-table'
    if missing:
        rep.violated('R-DISPATCH', key, 'geodepy/angles.py:1', 'the module promises conversion between all notations; missing: %s' % ', '.join(missing),
                     expected='a function or method for every ordered pair', actual=', '.join(missing))
    else:
        rep.holds('R-DISPATCH', key, 'geodepy/angles.py:1', 'every ordered pair of the nine notations has a direct function, method, constructor or math.radians')


def forms_rules(repo, rep):
    """defining linear forms and sign symmetry by abstract evaluation"""
    m = repo.module('geodepy.angles')
    ev = Evaluator(repo)
    d, mi, s, mn = Rat.sym('d'), Rat.sym('m'), Rat.sym('s'), Rat.sym('mn')
    P = Rat.sym('positive')
    dms = Obj(m.classes['DMSAngle'], {'degree': d, 'minute': mi, 'second': s, 'positive': P}, origin='param:a')
    ddm = Obj(m.classes['DDMAngle'], {'degree': d, 'minute': mn, 'positive': P}, origin='param:b')
    minute_int = alg.opaque('floordiv', (mn, C(1)))
    frac = alg.opaque('mod', (mn, C(1)))
    forms = [('DMSAngle.dec', dms, d + mi / C(60) + s / C(3600), 'dec = d + m/60 + s/3600'),
             ('DMSAngle.hp', dms, d + mi / C(100) + s / C(10000), 'hp = d + m/100 + s/10000'),
             ('DDMAngle.dec', ddm, d + mn / C(60), 'dec = d + m/60'),
             ('DDMAngle.hp', ddm, d + minute_int / C(100) + frac * C(F(6, 1000)), 'hp = d + floor(m)/100 + frac(m)*60/10000')]
    for q, me, want, txt in forms:
        f = m.func(q)
        rep.analysed(f)
        got = ev.call_function(f, {'self': me})
        lv = ite_leaves(got) if isinstance(got, Rat) else []
        key = 'R-TABLE::geodepy/angles.py::%s' % q
        w = where(f, f.node)
        if len(lv) != 2:
            rep.undecided('R-TABLE', key, w, '%s is not a positive/negative pair' % q)
            continue
        check_equal(rep, 'R-TABLE', key + '::positive', w, lv[0], want, q + ': ' + txt)
        check_equal(rep, 'R-SIBLING', 'R-SIBLING::geodepy/angles.py::%s::sign' % q, w, lv[1], -lv[0], q + ': the negative branch is the negated positive branch')
    x = Rat.sym('x')
    for q, want, txt in (('dec2gon', x * C(F(10, 9)), 'gon = 10/9 dec'), ('gon2dec', x * C(F(9, 10)), 'dec = 9/10 gon')):
        f = m.func(q)
        rep.analysed(f)
        got = ev.call_function(f, {f.params[0].name: x})
        check_equal(rep, 'R-TABLE', 'R-TABLE::geodepy/angles.py::%s' % q, where(f, f.node), got, want, q + ': ' + txt)
    # functions that build the result in a positive/negative pair
    for q in ('dec2hp', 'hp2dec', 'dd2sec'):
        f = m.func(q)
        rep.analysed(f)
        rets = [r for r in ast.walk(f.node) if isinstance(r, ast.Return)]
        key = 'R-SIBLING::geodepy/angles.py::%s::sign' % q
        r = rets[-1].value if rets else None
        if isinstance(r, ast.IfExp) and isinstance(r.orelse, ast.UnaryOp) and isinstance(r.orelse.op, ast.USub) \
                and stmt_text(r.orelse.operand) == stmt_text(r.body) and isinstance(r.test, ast.Compare) and isinstance(r.test.ops[0], ast.GtE) \
                and isinstance(r.test.comparators[0], ast.Constant) and r.test.comparators[0].value == 0:
            rep.holds('R-SIBLING', key, where(f, rets[-1]), '%s returns v when the argument is >= 0 and -v otherwise (v computed from the magnitude)' % q)
        else:
            rep.violated('R-SIBLING', key, where(f, f.node), '%s does not end with "v if x >= 0 else -v"' % q, expected='v if x >= 0 else -v', actual=stmt_text(r)[:100] if r is not None else 'no return')
    for q in ('dec2dms', 'dec2ddm', 'hp2dms', 'hp2ddm'):
        f = m.func(q)
        rep.analysed(f)
        rets = [r for r in ast.walk(f.node) if isinstance(r, ast.Return)]
        r = rets[-1].value if rets else None
        key = 'R-SIBLING::geodepy/angles.py::%s::sign' % q
        ok = False
        if isinstance(r, ast.IfExp) and isinstance(r.body, ast.Call) and isinstance(r.orelse, ast.Call):
            a, b = r.body, r.orelse
            same_args = [stmt_text(z) for z in a.args] == [stmt_text(z) for z in b.args] and stmt_text(a.func) == stmt_text(b.func)
            pa = [k.value.value for k in a.keywords if k.arg == 'positive' and isinstance(k.value, ast.Constant)]
            pb = [k.value.value for k in b.keywords if k.arg == 'positive' and isinstance(k.value, ast.Constant)]
            tst = isinstance(r.test, ast.Compare) and isinstance(r.test.ops[0], ast.GtE) and isinstance(r.test.comparators[0], ast.Constant) and r.test.comparators[0].value == 0
            ok = same_args and pa == [True] and pb == [False] and tst
        if ok:
            rep.holds('R-SIBLING', key, where(f, rets[-1]), '%s builds the same fields with positive=True for arguments >= 0 and positive=False otherwise' % q)
        else:
            rep.violated('R-SIBLING', key, where(f, f.node), '%s: the two sign branches do not build the same fields with opposite flags' % q,
                         expected='K(fields, positive=True) if x >= 0 else K(fields, positive=False)', actual=stmt_text(r)[:140] if r is not None else 'no return')
    # digit scalings of hp2dms / hp2ddm / dec2dms / dec2ddm (magnitude part) against the reference digit arithmetic
    orc = Oracle(DIGITS)
    for q, oname in (('hp2dms', 'hp_fields_dms'), ('hp2ddm', 'hp_fields_ddm'), ('dec2dms', 'dec_fields_dms'), ('dec2ddm', 'dec_fields_ddm')):
        f = m.func(q)
        ev2 = Evaluator(repo, opaque={'DMSAngle.__init__', 'DDMAngle.__init__'}, summaries={'DMSAngle.__init__': _capture, 'DDMAngle.__init__': _capture})
        got = ev2.call_function(f, {f.params[0].name: x})
        ref = orc.call(oname, v=x)
        key = 'R-TABLE::geodepy/angles.py::%s::fields' % q
        lv = []
        if isinstance(got, IteV):
            lv = [got.a, got.b]
        elif isinstance(got, Tup):
            lv = [got, got]
        if len(lv) == 2 and all(isinstance(z, Tup) for z in lv):
            n_f = len(ref.items)
            check_equal(rep, 'R-TABLE', key, where(f, f.node), Tup(lv[0].items[:n_f]), ref, '%s: degree/minute/second digits (x1000, divmod 10, divmod 100, x10 resp. x3600, divmod 60)' % q)
        else:
            rep.undecided('R-TABLE', key, where(f, f.node), '%s: constructor arguments not captured' % q)
    # sign inference of the DMS / DDM constructors over the finite set of sign patterns
    for cname, nf in (('DMSAngle', 3), ('DDMAngle', 2)):
        c = m.classes[cname]
        init = c.init()
        rep.analysed(init)
        bad = []
        cases = 0
        for deg in (5, -5, 0):
            for mnt in (7, -7, 0):
                for sec in ((9, -9, 0) if nf == 3 else (None,)):
                    for pos in (None, True, False):
                        cases += 1
                        ev3 = Evaluator(repo)
                        ev3.fold_const_types = True
                        args = [C(deg), C(mnt)] + ([C(sec)] if nf == 3 else [])
                        o = ev3.construct(c, args, {'positive': NONE if pos is None else Bool(pos)}, None)
                        got = o.fields.get('positive')
                        if pos is not None:
                            want = pos
                            if deg < 0 and pos:
                                continue      # contradictory input: not specified
                        else:
                            vals = [deg, mnt] + ([sec] if nf == 3 else [])
                            first = next((v for v in vals if v != 0), 0)
                            if deg != 0:
                                want = deg > 0
                            else:
                                # zero degrees: sign taken from the first non-zero lower field that is given negative
                                want = not (mnt < 0 or (nf == 3 and mnt == 0 and sec < 0) or (nf == 3 and mnt > 0 and False))
                                if nf == 3 and mnt > 0 and sec < 0:
                                    continue  # mixed signs: not specified
                        g = got.b if isinstance(got, Bool) else None
                        if g is None or g != want:
                            bad.append(((deg, mnt, sec, pos), g, want))
                        mag_ok = all(isinstance(o.fields.get(k), Rat) and o.fields[k].as_fraction() is not None and o.fields[k].as_fraction() >= 0
                                     for k in (['degree', 'minute', 'second'][:nf]))
                        if not mag_ok:
                            bad.append(((deg, mnt, sec, pos), 'fields not stored as magnitudes', 'magnitudes'))
        key = 'R-DISPATCH::geodepy/angles.py::%s.__init__::sign' % cname
        if bad:
            rep.violated('R-DISPATCH', key, where(init, init.node), '%s(%s) stores positive=%s, expected %s (%d more cases)' % (cname, bad[0][0], bad[0][1], bad[0][2], len(bad) - 1),
                         expected='sign of the first non-zero field / explicit flag', actual=str(bad[:3]))
        else:
            rep.holds('R-DISPATCH', key, where(init, init.node), '%s infers the sign correctly in all %d sign patterns (zero degrees with negative minutes/seconds included) and stores magnitudes' % (cname, cases))


def _capture(ev, func, args, node):
    """summary used to capture constructor arguments: returns them as a tuple (degree, minute[, second], positive)"""
    names = [p.name for p in func.params[1:]]
    return Tup([args.get(n, NONE) for n in names])


DIGITS = '''
def hp_fields_dms(v):
    dm, s = divmod(abs(v) * 1000, 10)
    d, m = divmod(dm, 100)
    return d, m, s * 10

def hp_fields_ddm(v):
    dm, s = divmod(abs(v) * 1000, 10)
    d, m = divmod(dm, 100)
    return d, m + (s / 6)

def dec_fields_dms(v):
    m, s = divmod(abs(v) * 3600, 60)
    d, m = divmod(m, 60)
    return d, m, s

def dec_fields_ddm(v):
    m, s = divmod(abs(v) * 3600, 60)
    d, m = divmod(m, 60)
    return d, m + (s / 60)
'''


def validators(repo):
    """(function, precision, {field: smallest rejected value}) for every HP-notation validator: a function that renders a
    number with f'{x:.Nf}' and raises when a digit / digit group of the decimals is too large"""
    m = repo.module('geodepy.angles')
    out = []
    for f in m.all_functions():
        prec = None
        for n in ast.walk(f.node):
            if isinstance(n, ast.FormattedValue) and n.format_spec is not None:
                spec = ''.join(str(c.value) for c in n.format_spec.values if isinstance(c, ast.Constant))
                mm = re.match(r'^\.(\d+)f$', spec)
                if mm:
                    prec = int(mm.group(1))
        fields = {}
        odd = []
        for n in ast.walk(f.node):
            if isinstance(n, ast.If) and any(isinstance(b, ast.Raise) for b in n.body) and isinstance(n.test, ast.Compare) and len(n.test.ops) == 1:
                t = n.test
                if isinstance(t.left, ast.Call) and getattr(t.left.func, 'id', '') == 'int' and t.left.args and isinstance(t.left.args[0], ast.Subscript) \
                        and isinstance(t.comparators[0], ast.Constant) and isinstance(t.comparators[0].value, int):
                    sl = t.left.args[0].slice
                    k = t.comparators[0].value
                    op = type(t.ops[0])
                    if op is ast.Gt:
                        least = k + 1
                    elif op is ast.GtE:
                        least = k
                    else:
                        odd.append(stmt_text(t))
                        continue
                    if isinstance(sl, ast.Constant) and sl.value in (0, 2):
                        fields['minutes' if sl.value == 0 else 'seconds'] = least * 10      # a tens digit
                    elif isinstance(sl, ast.Slice) and isinstance(sl.upper, ast.Constant):
                        lo = sl.lower.value if isinstance(sl.lower, ast.Constant) else 0
                        if (lo, sl.upper.value) == (0, 2):
                            fields['minutes'] = least
                        elif (lo, sl.upper.value) == (2, 4):
                            fields['seconds'] = least
                        else:
                            odd.append(stmt_text(t))
                    else:
                        odd.append(stmt_text(t))
        if prec is not None and (fields or odd):
            out.append((f, prec, fields, odd))
    return out


def validator_rules(repo, rep):
    vs = validators(repo)
    key = 'R-SIBLING::geodepy/angles.py::hp-validators'
    if len(vs) < 2:
        rep.undecided('R-SIBLING', key, 'geodepy/angles.py:1', 'fewer than two HP-notation validators found (%d)' % len(vs))
        return
    ref = None
    for f, prec, fields, odd in vs:
        rep.analysed(f)
        k = key + '::' + f.qualname
        w = where(f, f.node)
        if odd:
            rep.undecided('R-SIBLING', k, w, '%s: validity test not in a recognised form: %s' % (f.qualname, odd))
            continue
        if fields != {'minutes': 60, 'seconds': 60}:
            rep.violated('R-SIBLING', k, w, '%s does not reject exactly the HP values whose minutes or seconds field is 60 or more: it rejects minutes >= %s, seconds >= %s' % (
                f.qualname, fields.get('minutes', 'never'), fields.get('seconds', 'never')),
                expected="{'minutes': 60, 'seconds': 60}", actual=str(fields))
            continue
        if prec > 13:
            rep.violated('R-SIBLING', k, w, '%s validates HP notation on %d decimals: beyond the 13 places the module documents for its doubles, binary noise reaches the '
                         'digit test (10.1 prints as 10.09999999999999964 and is rejected as "3rd decimal place greater than 5")' % (f.qualname, prec),
                         expected='precision <= 13 and equal in all validators', actual='%d' % prec)
            continue
        if ref is None:
            ref = (f, prec)
            rep.holds('R-SIBLING', k, w, '%s rejects minutes/seconds fields >= 60 of the %d-decimal rendering' % (f.qualname, prec))
        elif prec != ref[1]:
            rep.violated('R-SIBLING', k, w, '%s validates on %d decimals but %s on %d: one rejects values the other accepts' % (f.qualname, prec, ref[0].qualname, ref[1]),
                         expected=str(ref[1]), actual=str(prec))
        else:
            rep.holds('R-SIBLING', k, w, '%s rejects minutes/seconds fields >= 60 of the %d-decimal rendering (same as %s)' % (f.qualname, prec, ref[0].qualname))


def carry_rule(repo, rep):
    f = repo.func('geodepy.angles', 'dec2hp')
    rep.analysed(f)
    key = 'R-CARRY::geodepy/angles.py::dec2hp'
    carry = None
    idx = None
    for i, st in enumerate(f.node.body):
        if isinstance(st, ast.If) and 'round' in stmt_text(st.test) and '60' in stmt_text(st.test):
            tested = set(n.id for n in ast.walk(st.test) if isinstance(n, ast.Name))
            # the field that receives the carry: a name other than the tested one that is updated from itself plus one
            for n in st.body:
                tgt = None
                if isinstance(n, ast.AugAssign) and isinstance(n.op, ast.Add) and isinstance(n.target, ast.Name):
                    tgt = n.target.id
                elif isinstance(n, ast.Assign) and len(n.targets) == 1 and isinstance(n.targets[0], ast.Name) \
                        and any(isinstance(x, ast.Name) and x.id == n.targets[0].id for x in ast.walk(n.value)) and not isinstance(n.value, ast.Constant):
                    tgt = n.targets[0].id
                if tgt is not None and tgt not in tested and carry is None:
                    carry = (st, tgt)
                    idx = i
    if carry is None:
        rep.undecided('R-CARRY', key, where(f, f.node), 'no seconds-carry of the form "if round(second, n) == 60: ...; minute += 1"')
        return
    mvar = carry[1]
    cascade = None
    # the cascade may be nested inside the seconds-carry or follow it
    for st in list(ast.walk(carry[0])) + [x for s_ in f.node.body[idx + 1:] for x in ast.walk(s_)]:
        if isinstance(st, ast.If) and st is not carry[0] and mvar in [n.id for n in ast.walk(st.test) if isinstance(n, ast.Name)] and '60' in stmt_text(st.test):
            incs = [n for n in ast.walk(st) if (isinstance(n, ast.AugAssign) and isinstance(n.op, ast.Add) and isinstance(n.target, ast.Name) and n.target.id != mvar)
                    or (isinstance(n, ast.Assign) and len(n.targets) == 1 and isinstance(n.targets[0], ast.Name) and n.targets[0].id != mvar
                        and isinstance(n.value, ast.BinOp) and isinstance(n.value.op, ast.Add)
                        and any(isinstance(x, ast.Name) and x.id == n.targets[0].id for x in ast.walk(n.value)))]
            if incs:
                cascade = st
    # values derived from a carried field before the carry must not be used after it (they would miss the carry)
    carried = set()
    for n in ast.walk(carry[0]):
        if isinstance(n, (ast.Assign, ast.AugAssign)):
            for t in (n.targets if isinstance(n, ast.Assign) else [n.target]):
                if isinstance(t, ast.Name):
                    carried.add(t.id)
    stale = None
    for st in f.node.body[:idx]:
        if isinstance(st, ast.Assign) and len(st.targets) == 1 and isinstance(st.targets[0], ast.Name) and st.targets[0].id not in carried:
            reads = set(n.id for n in ast.walk(st.value) if isinstance(n, ast.Name))
            if reads & carried:
                wname = st.targets[0].id
                used_after = any(isinstance(n, ast.Name) and n.id == wname and isinstance(n.ctx, ast.Load) for s_ in f.node.body[idx + 1:] for n in ast.walk(s_))
                if used_after:
                    stale = (st, wname, sorted(reads & carried))
    if stale is not None:
        rep.violated('R-CARRY', key + '::stale', where(f, stale[0]), '%s is computed from %s before the carry and used after it: when the seconds round up to 60 and the carry '
                     'reaches %s, the assembled HP value misses it' % (stale[1], ', '.join(stale[2]), ', '.join(stale[2])),
                     expected='format the fields after the carry', actual=stmt_text(stale[0]))
    else:
        rep.holds('R-CARRY', key + '::stale', where(f, carry[0]), 'no value derived from degree/minute/second before the carry is used after it')
    if cascade is not None:
        rep.holds('R-CARRY', key, where(f, cascade), 'a carry out of the seconds into the minutes is followed by a carry out of the minutes into the degrees')
    else:
        rep.violated('R-CARRY', key, where(f, carry[0]), 'dec2hp carries 60 seconds into the minutes but never 60 minutes into the degrees: dec2hp(29.9999999999999) returns 29.6, '
                     'which is not valid HP notation (hp2dec rejects it)', expected='if minute == 60: minute = 0; degree += 1', actual='no test of %s against 60 after "%s += 1"' % (mvar, mvar))


def run(repo, rep):
    alg.reset()
    rep.trust('notation type of a conversion is stated by its name (a2b) - the module\'s own documented convention')
    rep.trust('sv/alg.py normal forms for the linear forms; divmod kept as opaque floor/mod atoms')
    typing_rules(repo, rep)
    forms_rules(repo, rep)
    validator_rules(repo, rep)
    carry_rule(repo, rep)


def controls(repo):
    out = []
    out.append(('dms-hp-factor', text_variant(repo, 'geodepy/angles.py', "            return self.degree + (self.minute / 100) + (self.second / 10000)\n        else:\n            return -(self.degree + (self.minute / 100) + (self.second / 10000))",
                                            "            return self.degree + (self.minute / 100) + (self.second / 10000)\n        else:\n            return -(self.degree + (self.minute / 100) + (self.second / 1000))"), 'DMSAngle.hp::sign'))
    out.append(('gon-composition', text_variant(repo, 'geodepy/angles.py', "    return dec2hp(gon2dec(gon))", "    return dec2hp(gon)"), 'gon2hp'))
    return out
