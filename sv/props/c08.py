"""C08 - angle notation conversions (angles.py)."""
import ast
import re
from fractions import Fraction as F
from .. import alg
from ..alg import Rat, C
from ..model import AnalysisError, stmt_text, Func, Class, Ext
from ..resolve import Resolver
from ..symval import Evaluator, Tup, Obj, NoneV, NONE, CallV, Bool, Ref, IteV, Str, _single_atom
from ..symcheck import Oracle, check_equal, compare_values, show
from ..rules import where
from ..mutate import replace_in_function, substitute, text_variant
from .c10 import ite_leaves

META = {
    'level': 'other',
    'rule_text': 'rule instances: notation typing of every conversion function and every conversion method (name states the type, body must '
                 'produce it through correctly typed steps); completeness of the 9 x 8 conversion table; defining linear forms of the '
                 'sexagesimal notations; sign symmetry of every positive/negative branch pair; sign inference of the DMS/DDM constructors over '
                 'the finite set of sign patterns; carry cascade of the decimal-to-HP conversion; R-DIGITS: the string-based conversions as '
                 'positional decimal arithmetic - which decimals of the rendering become minutes / seconds in hp2dec, hp2dms, hp2ddm, how dec2hp '
                 'joins its zero-filled fields - per magnitude regime the code distinguishes; the validators of hp2dec and HPAngle decided over '
                 'the whole digit domain (reject iff MM >= 60 or SS >= 60); the number of decimals rendered against the spacing of doubles of '
                 'that magnitude (R-FORMAT); the sibling rule that every HP reader cuts the decimal rendering or rounds before a floor/divmod',
    'explanation': 'Static: a small notation type system over the conversion functions and methods, abstract evaluation of the linear forms and '
                   'branch pairs, constant-folding over the finite set of sign patterns, a contradiction rule for the one-sided carry, and an '
                   'abstract domain of decimal strings (sv/digits.py: formatted numbers as digit tokens; split, slices, rstrip, replace, joins; '
                   'float()/int() give exact positional values) evaluated once per magnitude regime. Decides the structural necessary '
                   'conditions of C08, including two that are about IEEE doubles but visible in the code: a fixed ".13f" rendering is too '
                   'long for doubles of 512 and more (2^-43 apart), and HP -> angle is discontinuous at every field boundary, so a floor of an '
                   'unrounded binary-float multiple of an HP number is unsound - the module says so itself where it parses strings. The 1e-8 '
                   'arc-second figure as such, the whole-second lattice and the accumulated rounding of chains are not decided.',
}

FLOATS = ['rad', 'dec', 'hp', 'gon']
OBJS = {'deca': 'DECAngle', 'hpa': 'HPAngle', 'gona': 'GONAngle', 'dms': 'DMSAngle', 'ddm': 'DDMAngle'}
CLASS_NOTATION = {'DECAngle': 'deca', 'HPAngle': 'hpa', 'GONAngle': 'gona', 'DMSAngle': 'dms', 'DDMAngle': 'ddm'}
FIELD_TYPE = {'dec_angle': 'dec', 'hp_angle': 'hp', 'gon_angle': 'gon'}
ALL = FLOATS + list(OBJS)


class Typer(object):
    """notation type inference for expressions of the angles module"""

    def __init__(self, repo):
        self.repo = repo
        self.m = repo.module('geodepy.angles')
        self.rs = Resolver(repo)

    def sig(self, name):
        mm = re.match(r'^(rad|dec|hp|gon|dd)2(rad|deca|dec|hpa|hp|gona|gon|dms|ddm|sec)(_v)?$', name)
        if not mm:
            return None
        return mm.group(1), mm.group(2)

    def type_of(self, e, env, cls=None):
        """notation type of expression e, or ('?', reason)"""
        if isinstance(e, ast.Name):
            return env.get(e.id, ('?', 'name %s' % e.id))
        if isinstance(e, ast.Attribute) and isinstance(e.value, ast.Name) and e.value.id == 'self' and e.attr in FIELD_TYPE:
            return FIELD_TYPE[e.attr]
        if isinstance(e, ast.Call):
            fn = e.func
            if isinstance(fn, ast.Name):
                if fn.id == 'float' and len(e.args) == 1:
                    return self.type_of(e.args[0], env, cls)
                if fn.id == 'radians' and len(e.args) == 1:
                    t = self.type_of(e.args[0], env, cls)
                    return 'rad' if t == 'dec' else (('!', 'radians() applied to a value in %s notation' % t) if isinstance(t, str) else t)
                if fn.id in CLASS_NOTATION and len(e.args) == 1 and fn.id != 'DMSAngle' and fn.id != 'DDMAngle':
                    want = {'DECAngle': 'dec', 'HPAngle': 'hp', 'GONAngle': 'gon'}[fn.id]
                    t = self.type_of(e.args[0], env, cls)
                    if t == want:
                        return CLASS_NOTATION[fn.id]
                    return ('!', '%s() is given a value in %s notation, it holds %s' % (fn.id, t, want)) if isinstance(t, str) else t
                s = self.sig(fn.id)
                if s and len(e.args) == 1 and fn.id in self.m.functions:
                    t = self.type_of(e.args[0], env, cls)
                    src = 'dec' if s[0] == 'dd' else s[0]
                    if t == src:
                        return s[1]
                    return ('!', '%s is applied to a value in %s notation' % (fn.id, t)) if isinstance(t, str) else t
            if isinstance(fn, ast.Attribute) and isinstance(fn.value, ast.Name) and fn.value.id == 'self' and not e.args and cls is not None:
                if fn.attr in ALL and fn.attr in cls.methods:
                    return fn.attr
        return ('?', stmt_text(e)[:60])


def typing_rules(repo, rep):
    ty = Typer(repo)
    m = ty.m
    n = 0
    # composed functions: single return of a call chain
    for name, f in m.functions.items():
        s = ty.sig(name)
        if not s or name.endswith('_v'):
            continue
        rep.analysed(f)
        rets = [x for x in ast.walk(f.node) if isinstance(x, ast.Return) and x.value is not None]
        body = [st for st in f.node.body if not (isinstance(st, ast.Expr) and isinstance(st.value, ast.Constant))]
        key = 'R-UNITS::geodepy/angles.py::%s' % name
        n += 1
        if len(body) == 1 and len(rets) == 1 and isinstance(rets[0].value, ast.Call):
            src = 'dec' if s[0] == 'dd' else s[0]
            t = ty.type_of(rets[0].value, {f.params[0].name: src})
            if t == s[1]:
                rep.holds('R-UNITS', key, where(f, f.node), '%s: %s -> %s through %s' % (name, src, s[1], stmt_text(rets[0].value)[:60]))
            elif isinstance(t, tuple) and t[0] == '!':
                rep.violated('R-UNITS', key, where(f, f.node), '%s: %s (%s)' % (name, t[1], stmt_text(rets[0].value)[:60]), expected='%s -> %s' % (src, s[1]), actual=t[1])
            elif isinstance(t, tuple):
                # a leaf conversion computed directly: typed by its linear form (R-TABLE), not by composition
                rep.holds('R-UNITS', key, where(f, f.node), '%s is a leaf conversion (checked by its defining form)' % name, work=False)
            else:
                rep.violated('R-UNITS', key, where(f, f.node), '%s returns a value in %s notation; its name promises %s' % (name, t, s[1]),
                             expected=s[1], actual=str(t))
        else:
            rep.holds('R-UNITS', key, where(f, f.node), '%s is a leaf conversion (checked by its defining form)' % name, work=False)
    # methods
    for cname, note in CLASS_NOTATION.items():
        c = m.classes.get(cname)
        if c is None:
            raise AnalysisError('anchor vanished: angles.%s' % cname)
        for mname, f in c.methods.items():
            if mname not in ALL:
                continue
            rep.analysed(f)
            rets = [x for x in ast.walk(f.node) if isinstance(x, ast.Return) and x.value is not None]
            key = 'R-UNITS::geodepy/angles.py::%s.%s' % (cname, mname)
            n += 1
            ts = set()
            for r in rets:
                v = r.value
                if isinstance(v, ast.UnaryOp) and isinstance(v.op, ast.USub):
                    v = v.operand
                t = ty.type_of(v, {}, c)
                if isinstance(t, tuple) and isinstance(v, ast.Call) and isinstance(v.func, ast.Name) and v.func.id in ('DMSAngle', 'DDMAngle'):
                    t = CLASS_NOTATION[v.func.id]
                if isinstance(t, tuple) and t[0] == '!':
                    ts.add('!' + t[1])
                else:
                    ts.add(t if not isinstance(t, tuple) else '?')
            bad = [x for x in ts if x.startswith('!')]
            if bad:
                rep.violated('R-UNITS', key, where(f, f.node), '%s.%s(): %s' % (cname, mname, bad[0][1:]), expected='%s -> %s' % (note, mname), actual=bad[0][1:])
            elif ts == {mname}:
                rep.holds('R-UNITS', key, where(f, f.node), '%s.%s(): %s -> %s' % (cname, mname, note, mname))
            elif '?' in ts:
                rep.holds('R-UNITS', key, where(f, f.node), '%s.%s() computes its value directly (checked by its defining form)' % (cname, mname), work=False)
            else:
                rep.violated('R-UNITS', key, where(f, f.node), '%s.%s() returns %s notation' % (cname, mname, sorted(ts)), expected=mname, actual=str(sorted(ts)))
    rep.floor('R-UNITS', 55, 'conversion functions and methods')
    # completeness of the conversion table
    missing = []
    for s in ('dec', 'hp', 'gon'):
        for t in ALL:
            if t == s or t == s + 'a' or (s == 'dec' and t == 'rad'):
                continue
            if '%s2%s' % (s, t) not in m.functions:
                missing.append('%s2%s' % (s, t))
    for cname, note in CLASS_NOTATION.items():
        c = m.classes[cname]
        for t in ALL:
            if t == note:
                continue
            if t not in c.methods:
                missing.append('%s.%s()' % (cname, t))
    key = 'R-DISPATCH::geodepy/angles.py::conversion-table'
    if missing:
        rep.violated('R-DISPATCH', key, 'geodepy/angles.py:1', 'the module promises conversion between all notations; missing: %s' % ', '.join(missing),
                     expected='a function or method for every ordered pair', actual=', '.join(missing))
    else:
        rep.holds('R-DISPATCH', key, 'geodepy/angles.py:1', 'every ordered pair of the nine notations has a direct function, method, constructor or math.radians')


def forms_rules(repo, rep):
    """defining linear forms and sign symmetry by abstract evaluation"""
    m = repo.module('geodepy.angles')
    ev = Evaluator(repo)
    d, mi, s, mn = Rat.sym('d'), Rat.sym('m'), Rat.sym('s'), Rat.sym('mn')
    P = Rat.sym('positive')
    dms = Obj(m.classes['DMSAngle'], {'degree': d, 'minute': mi, 'second': s, 'positive': P}, origin='param:a')
    ddm = Obj(m.classes['DDMAngle'], {'degree': d, 'minute': mn, 'positive': P}, origin='param:b')
    minute_int = alg.opaque('floordiv', (mn, C(1)))
    frac = alg.opaque('mod', (mn, C(1)))
    forms = [('DMSAngle.dec', dms, d + mi / C(60) + s / C(3600), 'dec = d + m/60 + s/3600'),
             ('DMSAngle.hp', dms, d + mi / C(100) + s / C(10000), 'hp = d + m/100 + s/10000'),
             ('DDMAngle.dec', ddm, d + mn / C(60), 'dec = d + m/60'),
             ('DDMAngle.hp', ddm, d + minute_int / C(100) + frac * C(F(6, 1000)), 'hp = d + floor(m)/100 + frac(m)*60/10000')]
    for q, me, want, txt in forms:
        f = m.func(q)
        rep.analysed(f)
        rets_ = [r_ for r_ in ast.walk(f.node) if isinstance(r_, ast.Return) and r_.value is not None]
        if q.endswith('.hp') and len(rets_) == 1 and stmt_text(rets_[0].value).replace(' ', '') == 'dec2hp(self.dec())':
            # the HP number is produced by the decimal-to-HP conversion (rounding and carry included) from the object's decimal value:
            # both factors have their own defining-form rules (X.dec above, dec2hp under R-DIGITS)
            rep.holds('R-TABLE', 'R-TABLE::geodepy/angles.py::%s::positive' % q, where(f, f.node), '%s = dec2hp(self.dec()): typed dms/ddm -> dec -> hp' % q)
            rep.holds('R-SIBLING', 'R-SIBLING::geodepy/angles.py::%s::sign' % q, where(f, f.node), '%s: the sign travels through dec() and dec2hp' % q)
            continue
        got = ev.call_function(f, {'self': me})
        lv = ite_leaves(got) if isinstance(got, Rat) else []
        key = 'R-TABLE::geodepy/angles.py::%s' % q
        w = where(f, f.node)
        if len(lv) == 1 and isinstance(got, Rat):
            rep.violated('R-SIBLING', 'R-SIBLING::geodepy/angles.py::%s::sign' % q, w, '%s returns the same value whatever the sign flag: a negative angle comes back positive' % q,
                         expected='v if positive else -v', actual=show(got, 2, 120))
            continue
        if len(lv) != 2:
            rep.undecided('R-TABLE', key, w, '%s is not a positive/negative pair' % q)
            continue
        check_equal(rep, 'R-TABLE', key + '::positive', w, lv[0], want, q + ': ' + txt)
        check_equal(rep, 'R-SIBLING', 'R-SIBLING::geodepy/angles.py::%s::sign' % q, w, lv[1], -lv[0], q + ': the negative branch is the negated positive branch')
    x = Rat.sym('x')
    for q, want, txt in (('dec2gon', x * C(F(10, 9)), 'gon = 10/9 dec'), ('gon2dec', x * C(F(9, 10)), 'dec = 9/10 gon')):
        f = m.func(q)
        rep.analysed(f)
        got = ev.call_function(f, {f.params[0].name: x})
        check_equal(rep, 'R-TABLE', 'R-TABLE::geodepy/angles.py::%s' % q, where(f, f.node), got, want, q + ': ' + txt)
    # functions that build the result in a positive/negative pair
    for q in ('dec2hp', 'hp2dec', 'dd2sec'):
        f = m.func(q)
        rep.analysed(f)
        rets = [r for r in ast.walk(f.node) if isinstance(r, ast.Return)]
        key = 'R-SIBLING::geodepy/angles.py::%s::sign' % q
        r = rets[-1].value if rets else None
        if isinstance(r, ast.IfExp) and isinstance(r.orelse, ast.UnaryOp) and isinstance(r.orelse.op, ast.USub) \
                and stmt_text(r.orelse.operand) == stmt_text(r.body) and isinstance(r.test, ast.Compare) and isinstance(r.test.ops[0], ast.GtE) \
                and isinstance(r.test.comparators[0], ast.Constant) and r.test.comparators[0].value == 0:
            rep.holds('R-SIBLING', key, where(f, rets[-1]), '%s returns v when the argument is >= 0 and -v otherwise (v computed from the magnitude)' % q)
        else:
            rep.violated('R-SIBLING', key, where(f, f.node), '%s does not end with "v if x >= 0 else -v"' % q, expected='v if x >= 0 else -v', actual=stmt_text(r)[:100] if r is not None else 'no return')
    for q in ('dec2dms', 'dec2ddm', 'hp2dms', 'hp2ddm'):
        f = m.func(q)
        rep.analysed(f)
        rets = [r for r in ast.walk(f.node) if isinstance(r, ast.Return)]
        r = rets[-1].value if rets else None
        key = 'R-SIBLING::geodepy/angles.py::%s::sign' % q
        ok = False
        if isinstance(r, ast.IfExp) and isinstance(r.body, ast.Call) and isinstance(r.orelse, ast.Call):
            a, b = r.body, r.orelse
            same_args = [stmt_text(z) for z in a.args] == [stmt_text(z) for z in b.args] and stmt_text(a.func) == stmt_text(b.func)
            pa = [k.value.value for k in a.keywords if k.arg == 'positive' and isinstance(k.value, ast.Constant)]
            pb = [k.value.value for k in b.keywords if k.arg == 'positive' and isinstance(k.value, ast.Constant)]
            tst = isinstance(r.test, ast.Compare) and isinstance(r.test.ops[0], ast.GtE) and isinstance(r.test.comparators[0], ast.Constant) and r.test.comparators[0].value == 0
            ok = same_args and pa == [True] and pb == [False] and tst
        if isinstance(r, ast.Call):
            # one constructor call whose flag is the comparison itself: K(fields, positive=x >= 0)
            for k in r.keywords:
                kv = k.value
                if isinstance(kv, ast.Call) and getattr(kv.func, 'id', '') == 'bool' and len(kv.args) == 1 and not kv.keywords:
                    kv = kv.args[0]           # bool(x >= 0): a builtin bool for the identity tests of the constructors
                if k.arg == 'positive' and isinstance(kv, ast.Compare) and len(kv.ops) == 1 and isinstance(kv.ops[0], ast.GtE) \
                        and isinstance(kv.left, ast.Name) and kv.left.id == f.params[0].name \
                        and isinstance(kv.comparators[0], ast.Constant) and kv.comparators[0].value == 0:
                    ok = True
        if ok:
            rep.holds('R-SIBLING', key, where(f, rets[-1]), '%s builds the same fields with positive=True for arguments >= 0 and positive=False otherwise' % q)
        else:
            rep.violated('R-SIBLING', key, where(f, f.node), '%s: the two sign branches do not build the same fields with opposite flags' % q,
                         expected='K(fields, positive=True) if x >= 0 else K(fields, positive=False)', actual=stmt_text(r)[:140] if r is not None else 'no return')
    # digit scalings of hp2dms / hp2ddm / dec2dms / dec2ddm (magnitude part) against the reference digit arithmetic
    orc = Oracle(DIGITS)
    for q, oname in (('dec2dms', 'dec_fields_dms'), ('dec2ddm', 'dec_fields_ddm')):
        f = m.func(q)
        ev2 = Evaluator(repo, opaque={'DMSAngle.__init__', 'DDMAngle.__init__'}, summaries={'DMSAngle.__init__': _capture, 'DDMAngle.__init__': _capture})
        got = ev2.call_function(f, {f.params[0].name: x})
        ref = orc.call(oname, v=x)
        key = 'R-TABLE::geodepy/angles.py::%s::fields' % q
        lv = []
        if isinstance(got, IteV):
            lv = [got.a, got.b]
        elif isinstance(got, Tup):
            lv = [got, got]
        if len(lv) == 2 and all(isinstance(z, Tup) for z in lv):
            n_f = len(ref.items)
            check_equal(rep, 'R-TABLE', key, where(f, f.node), Tup(lv[0].items[:n_f]), ref, '%s: degree/minute/second fields (x3600, divmod 60, divmod 60)' % q)
        else:
            rep.undecided('R-TABLE', key, where(f, f.node), '%s: constructor arguments not captured' % q)
    # sign inference of the DMS / DDM constructors over the finite set of sign patterns
    for cname, nf in (('DMSAngle', 3), ('DDMAngle', 2)):
        c = m.classes[cname]
        init = c.init()
        rep.analysed(init)
        bad = []
        cases = 0
        for deg in (5, -5, 0):
            for mnt in (7, -7, 0):
                for sec in ((9, -9, 0) if nf == 3 else (None,)):
                    for pos in (None, True, False):
                        cases += 1
                        ev3 = Evaluator(repo)
                        ev3.fold_const_types = True
                        args = [C(deg), C(mnt)] + ([C(sec)] if nf == 3 else [])
                        o = ev3.construct(c, args, {'positive': NONE if pos is None else Bool(pos)}, None)
                        got = o.fields.get('positive')
                        if pos is not None:
                            want = pos
                            if deg < 0 and pos:
                                continue      # contradictory input: not specified
                        else:
                            vals = [deg, mnt] + ([sec] if nf == 3 else [])
                            first = next((v for v in vals if v != 0), 0)
                            if deg != 0:
                                want = deg > 0
                            else:
                                # zero degrees: sign taken from the first non-zero lower field that is given negative
                                want = not (mnt < 0 or (nf == 3 and mnt == 0 and sec < 0) or (nf == 3 and mnt > 0 and False))
                                if nf == 3 and mnt > 0 and sec < 0:
                                    continue  # mixed signs: not specified
                        g = got.b if isinstance(got, Bool) else None
                        if g is None or g != want:
                            bad.append(((deg, mnt, sec, pos), g, want))
                        mag_ok = all(isinstance(o.fields.get(k), Rat) and o.fields[k].as_fraction() is not None and o.fields[k].as_fraction() >= 0
                                     for k in (['degree', 'minute', 'second'][:nf]))
                        if not mag_ok:
                            bad.append(((deg, mnt, sec, pos), 'fields not stored as magnitudes', 'magnitudes'))
        key = 'R-DISPATCH::geodepy/angles.py::%s.__init__::sign' % cname
        if bad:
            rep.violated('R-DISPATCH', key, where(init, init.node), '%s(%s) stores positive=%s, expected %s (%d more cases)' % (cname, bad[0][0], bad[0][1], bad[0][2], len(bad) - 1),
                         expected='sign of the first non-zero field / explicit flag', actual=str(bad[:3]))
        else:
            rep.holds('R-DISPATCH', key, where(init, init.node), '%s infers the sign correctly in all %d sign patterns (zero degrees with negative minutes/seconds included) and stores magnitudes' % (cname, cases))


def _capture(ev, func, args, node):
    """summary used to capture constructor arguments: returns them as a tuple (degree, minute[, second], positive)"""
    names = [p.name for p in func.params[1:]]
    return Tup([args.get(n, NONE) for n in names])


DIGITS = '''
def hp_fields_dms(v):
    dm, s = divmod(abs(v) * 1000, 10)
    d, m = divmod(dm, 100)
    return d, m, s * 10

def hp_fields_ddm(v):
    dm, s = divmod(abs(v) * 1000, 10)
    d, m = divmod(dm, 100)
    return d, m + (s / 6)

def dec_fields_dms(v):
    m, s = divmod(abs(v) * 3600, 60)
    d, m = divmod(m, 60)
    return d, m, s

def dec_fields_ddm(v):
    m, s = divmod(abs(v) * 3600, 60)
    d, m = divmod(m, 60)
    return d, m + (s / 60)
'''


def carry_rule(repo, rep):
    f = repo.func('geodepy.angles', 'dec2hp')
    rep.analysed(f)
    key = 'R-CARRY::geodepy/angles.py::dec2hp'
    carry = None
    idx = None
    for i, st in enumerate(f.node.body):
        if isinstance(st, ast.If) and 'round' in stmt_text(st.test) and '60' in stmt_text(st.test):
            tested = set(n.id for n in ast.walk(st.test) if isinstance(n, ast.Name))
            # the field that receives the carry: a name other than the tested one that is updated from itself plus one
            for n in st.body:
                tgt = None
                if isinstance(n, ast.AugAssign) and isinstance(n.op, ast.Add) and isinstance(n.target, ast.Name):
                    tgt = n.target.id
                elif isinstance(n, ast.Assign) and len(n.targets) == 1 and isinstance(n.targets[0], ast.Name) \
                        and any(isinstance(x, ast.Name) and x.id == n.targets[0].id for x in ast.walk(n.value)) and not isinstance(n.value, ast.Constant):
                    tgt = n.targets[0].id
                if tgt is not None and tgt not in tested and carry is None:
                    carry = (st, tgt)
                    idx = i
    if carry is None:
        rep.undecided('R-CARRY', key, where(f, f.node), 'no seconds-carry of the form "if round(second, n) == 60: ...; minute += 1"')
        return
    mvar = carry[1]
    cascade = None
    # the cascade may be nested inside the seconds-carry or follow it
    for st in list(ast.walk(carry[0])) + [x for s_ in f.node.body[idx + 1:] for x in ast.walk(s_)]:
        if isinstance(st, ast.If) and st is not carry[0] and mvar in [n.id for n in ast.walk(st.test) if isinstance(n, ast.Name)] and '60' in stmt_text(st.test):
            incs = [n for n in ast.walk(st) if (isinstance(n, ast.AugAssign) and isinstance(n.op, ast.Add) and isinstance(n.target, ast.Name) and n.target.id != mvar)
                    or (isinstance(n, ast.Assign) and len(n.targets) == 1 and isinstance(n.targets[0], ast.Name) and n.targets[0].id != mvar
                        and isinstance(n.value, ast.BinOp) and isinstance(n.value.op, ast.Add)
                        and any(isinstance(x, ast.Name) and x.id == n.targets[0].id for x in ast.walk(n.value)))]
            if incs:
                cascade = st
    # values derived from a carried field before the carry must not be used after it (they would miss the carry)
    carried = set()
    for n in ast.walk(carry[0]):
        if isinstance(n, (ast.Assign, ast.AugAssign)):
            for t in (n.targets if isinstance(n, ast.Assign) else [n.target]):
                if isinstance(t, ast.Name):
                    carried.add(t.id)
    stale = None
    for st in f.node.body[:idx]:
        if isinstance(st, ast.Assign) and len(st.targets) == 1 and isinstance(st.targets[0], ast.Name) and st.targets[0].id not in carried:
            reads = set(n.id for n in ast.walk(st.value) if isinstance(n, ast.Name))
            if reads & carried:
                wname = st.targets[0].id
                used_after = any(isinstance(n, ast.Name) and n.id == wname and isinstance(n.ctx, ast.Load) for s_ in f.node.body[idx + 1:] for n in ast.walk(s_))
                if used_after:
                    stale = (st, wname, sorted(reads & carried))
    if stale is not None:
        rep.violated('R-CARRY', key + '::stale', where(f, stale[0]), '%s is computed from %s before the carry and used after it: when the seconds round up to 60 and the carry '
                     'reaches %s, the assembled HP value misses it' % (stale[1], ', '.join(stale[2]), ', '.join(stale[2])),
                     expected='format the fields after the carry', actual=stmt_text(stale[0]))
    else:
        rep.holds('R-CARRY', key + '::stale', where(f, carry[0]), 'no value derived from degree/minute/second before the carry is used after it')
    if cascade is not None:
        rep.holds('R-CARRY', key, where(f, cascade), 'a carry out of the seconds into the minutes is followed by a carry out of the minutes into the degrees')
    else:
        rep.violated('R-CARRY', key, where(f, carry[0]), 'dec2hp carries 60 seconds into the minutes but never 60 minutes into the degrees: dec2hp(29.9999999999999) returns 29.6, '
                     'which is not valid HP notation (hp2dec rejects it)', expected='if minute == 60: minute = 0; degree += 1', actual='no test of %s against 60 after "%s += 1"' % (mvar, mvar))


# ------------------------------------------------------------------------------------------------ digit strings (hp2dec, dec2hp) and field extraction
DEC2HP_REF = '''
def dec2hp_ref(dec, places):
    minute, second = divmod(abs(dec) * 3600, 60)
    degree, minute = divmod(minute, 60)
    if round(second, places) == 60:
        second = 0
        minute += 1
        if minute == 60:
            minute = 0
            degree += 1
    return int(degree) + int(minute) / 100 + second / 10000
'''

CARRY_WITNESS = ('dec2hp_v(numpy.array([1.0833333333333333])) returned 1.046 (1 deg 04 min 60 s) on the code as found: the seconds came out of divmod as 59.99999999999, '
                 'were not carried, and the float sum rounded them to 60; hp2dec rejects the value')


def producer_carry_rules(repo, rep, m):
    """dec -> HP splits the angle with divmod(abs(dec) * 3600, 60): the seconds can come out as 59.999999999999 for a whole minute.  The scalar
    dec2hp rounds them and carries 60 s into the minutes and 60 min into the degrees (R-CARRY); every sibling that assembles an HP number from
    such fields must do the same, otherwise it returns D.MM60 - an invalid HP value"""
    for name, f in sorted(m.functions.items()):
        if not (name.startswith('dec2hp') and not name.endswith('a')):
            continue
        splits = [n for n in ast.walk(f.node) if isinstance(n, ast.Call) and isinstance(n.func, ast.Name) and n.func.id == 'divmod' and len(n.args) == 2
                  and isinstance(n.args[1], ast.Constant) and n.args[1].value == 60]
        if not splits:
            continue
        key = 'R-CARRY::geodepy/angles.py::%s::seconds-carry' % name
        # a test of the (rounded) seconds against 60 anywhere in the function: `round(second, p) == 60`, `second.round(p) == 60`, `second >= 59.999...`
        tests = []
        for n in ast.walk(f.node):
            if isinstance(n, ast.Compare) and len(n.ops) == 1 and isinstance(n.ops[0], (ast.Eq, ast.GtE)) and isinstance(n.comparators[0], ast.Constant) \
                    and isinstance(n.comparators[0].value, (int, float)) and 59.9 < n.comparators[0].value <= 60:
                tests.append(n)
        if tests:
            rep.holds('R-CARRY', key, where(f, tests[0]), '%s tests its seconds against 60 (`%s`) before assembling the HP number' % (name, stmt_text(tests[0])[:60]))
            carry_order_rule(rep, f, name)
        else:
            rep.violated('R-CARRY', key, where(f, splits[0]), '%s splits the angle with divmod(.., 60) and assembles D + M/100 + S/10000 without carrying a seconds field that rounds to 60, '
                         'as its sibling dec2hp does: %s' % (name, CARRY_WITNESS), expected='seconds rounded, 60 carried into the minutes (and 60 minutes into the degrees)',
                         actual='no test of the seconds against 60')


def _tested_name(e):
    """the variable a `... == 60` test looks at: x, round(x, p), x.round(p), np.round(x, p)"""
    if isinstance(e, ast.Name):
        return e.id
    if isinstance(e, ast.Call):
        if isinstance(e.func, ast.Attribute) and e.func.attr == 'round' and isinstance(e.func.value, ast.Name) and e.func.value.id not in ('np', 'numpy'):
            return e.func.value.id
        if e.args:
            return _tested_name(e.args[0])
    return None


def carry_order_rule(rep, f, name):
    """the carry is a chain: seconds == 60 -> minutes + 1 -> minutes == 60 -> degrees + 1.  The minutes must be LOOKED AT after the seconds
    carry has been added to them (59 min 60 s is 60 min, i.e. the next degree); a test evaluated earlier - a mask computed up front, a test
    hoisted above the increment - sees 59 and leaves D.60 behind.  Decided on the statement order of the function (straight-line code and
    nested ifs; both forms of the repo: scalar ifs, boolean masks)."""
    stmts = [n for n in ast.walk(f.node) if isinstance(n, ast.stmt)]
    stmts.sort(key=lambda n: (n.lineno, n.col_offset))
    pos = dict((id(n), i) for i, n in enumerate(stmts))

    def stmt_of(node):
        best = None
        for st in stmts:
            if st.lineno <= node.lineno and getattr(st, 'end_lineno', st.lineno) >= getattr(node, 'end_lineno', node.lineno):
                if any(x is node for x in ast.walk(st)) and (best is None or pos[id(st)] > pos[id(best)]):
                    # innermost statement whose own expressions (not its body) contain the node
                    own = []
                    for fld in ('test', 'value', 'targets', 'target'):
                        o_ = getattr(st, fld, None)
                        if isinstance(o_, list):
                            own.extend(o_)
                        elif o_ is not None:
                            own.append(o_)
                    if any(x is node for o in own for x in ast.walk(o)):
                        best = st
        return best
    tests = {}      # variable -> [position of the statement that evaluates `var == 60`]
    for n in ast.walk(f.node):
        if isinstance(n, ast.Compare) and len(n.ops) == 1 and isinstance(n.ops[0], (ast.Eq, ast.GtE)) and isinstance(n.comparators[0], ast.Constant) \
                and isinstance(n.comparators[0].value, (int, float)) and 59.9 < n.comparators[0].value <= 60:
            v = _tested_name(n.left)
            st = stmt_of(n)
            if v is not None and st is not None:
                tests.setdefault(v, []).append((pos[id(st)], n))
    incs = {}       # variable -> [position of `var += 1` / `var[mask] += 1` / `var = var + 1`]
    for st in stmts:
        if isinstance(st, ast.AugAssign) and isinstance(st.op, ast.Add) and isinstance(st.value, ast.Constant) and st.value.value == 1:
            t = st.target
            if isinstance(t, ast.Subscript):
                t = t.value
            if isinstance(t, ast.Name):
                incs.setdefault(t.id, []).append(pos[id(st)])
        if isinstance(st, ast.Assign) and len(st.targets) == 1 and isinstance(st.targets[0], ast.Name) and isinstance(st.value, ast.BinOp) \
                and isinstance(st.value.op, ast.Add) and isinstance(st.value.left, ast.Name) and st.value.left.id == st.targets[0].id \
                and isinstance(st.value.right, ast.Constant) and st.value.right.value == 1:
            incs.setdefault(st.targets[0].id, []).append(pos[id(st)])
    key = 'R-CARRY::geodepy/angles.py::%s::minutes-carry-order' % name
    # the middle link: a variable that is both incremented (by the seconds carry) and tested against 60 (for the degrees carry)
    mids = [v for v in incs if v in tests]
    if not mids:
        rep.undecided('R-CARRY', key, where(f, f.node), 'no variable is both incremented by one and tested against 60: the minutes link of the carry chain was not recognised')
        return
    # the two arms of one `if` exclude each other: a test in the `else`/`elif` arm of the `if` whose body holds the increment is not evaluated
    # on the path that carried
    arm = {}
    def mark(node, path):
        for fld in ('body', 'orelse', 'finalbody'):
            for ch in getattr(node, fld, None) or []:
                if isinstance(ch, ast.stmt):
                    p2 = path + ((id(node), fld),) if isinstance(node, ast.If) else path
                    arm[id(ch)] = p2
                    mark(ch, p2)
    mark(f.node, ())

    def exclusive(pa, pb):
        da, db = dict(pa), dict(pb)
        return any(k in db and db[k] != fld for k, fld in da.items())
    for v in sorted(mids):
        first_inc = min(incs[v])
        inc_path = arm.get(id(stmts[first_inc]), ())
        late = [t for t in tests[v] if t[0] > first_inc and not exclusive(inc_path, arm.get(id(stmts[t[0]]), ()))]
        if late:
            rep.holds('R-CARRY', key, where(f, late[0][1]), '`%s` is compared with 60 after the seconds carry has been added to it' % v)
        else:
            t0 = tests[v][0]
            rep.violated('R-CARRY', key, where(f, t0[1]), '`%s` is evaluated before the seconds carry is added to `%s`: 59 min 60 s becomes 60 min and is never carried into '
                         'the degrees - %s returns D.60 (e.g. for 0.9999999999999999 degrees: 0.6 instead of 1.0)' % (stmt_text(t0[1])[:60], v, name),
                         expected='the minutes compared with 60 after `%s += 1`' % v, actual='compared before')


DEC2HP_WITNESS = ('DECAngle(512.9999999999998).hpa() raised "Invalid HP Notation: 3rd decimal place greater than 5: 512.5959999999999" on the code as found: '
                  'dec2hp wrote 13 decimals, the readers (rightly) read 12 from 512 up and round the seconds 59.99999999|9 up to 60')


def ulp_places(m_hi, open_hi):
    """largest P such that a double of magnitude up to m_hi (exclusive when open_hi) still determines P decimals: 10^-P > ulp"""
    import math
    m = m_hi
    e = math.floor(math.log2(float(m)))
    if open_hi and 2 ** e == m:
        e -= 1
    ulp = F(2) ** (e - 52)
    p = 0
    while F(1, 10 ** (p + 1)) > ulp:
        p += 1
    return p


HP_READERS = [('hp2dec', 'value'), ('hp2dms', 'dms'), ('hp2ddm', 'ddm'), ('HPAngle.__init__', 'validate')]
HP_MAX = F(720)
PLACES_WITNESS = ("doubles from 512 up are 1.1e-13 apart: f'{719.06:.13f}' is '719.0599999999999', so the valid value 719 deg 06 min reads as seconds 99.99 and is "
                  'rejected / decoded 40" off; this is the defect repaired in geodepy 2346092, where hp2dec(719.06) raised)')


def cond_value(c, env):
    """truth value of a condition normal form under an assignment {atom id: Fraction} of its digit atoms; None when not evaluable"""
    if isinstance(c, Bool):
        return c.b
    a = _single_atom(c) if isinstance(c, Rat) else None
    if a is None or a.kind != 'fn':
        return None

    def num(r):
        if not isinstance(r, Rat):
            return None
        return alg.subst(r, dict((k, C(v)) for k, v in env.items())).as_fraction()
    if a.name in ('lt', 'le', 'eq', 'ne', 'gt', 'ge') and len(a.args) == 2:
        l, r = num(a.args[0]), num(a.args[1])
        if l is None or r is None:
            return None
        return {'lt': l < r, 'le': l <= r, 'eq': l == r, 'ne': l != r, 'gt': l > r, 'ge': l >= r}[a.name]
    if a.name in ('and', 'or'):
        vs = [cond_value(x, env) for x in a.args]
        if any(v is None for v in vs):
            return None
        return all(vs) if a.name == 'and' else any(vs)
    if a.name == 'not':
        v = cond_value(a.args[0], env)
        return None if v is None else not v
    return None


def digit_rules(repo, rep):
    """the string-based conversions as positional decimal arithmetic: every slice, width and join of the digit strings, per magnitude regime"""
    from ..digits import DigitEvaluator, fdigit, fint
    m = repo.module('geodepy.angles')
    x = Rat.sym('x')
    ax = alg.fabs(x)
    rep.trust('format(x, ".Pf") = signed integer part, point, P digits; format(v, "0W.Pf") has W-P-1 zero-filled integer digits when v fits; '
              'formatting to P places denotes the value itself up to 0.5e-P (within the property tolerance for P >= 9 places of a second, 12 of an HP number)')
    rep.trust('IEEE double: values in [2^e, 2^(e+1)) are 2^(e-52) apart; a decimal written with P places is recovered by rendering to P places iff 10^-P > that spacing')

    def evaluate(q, mag, sign=1):
        opq = {'DMSAngle.__init__', 'DDMAngle.__init__'}
        ev = DigitEvaluator(repo, opaque=opq, summaries={'DMSAngle.__init__': _capture, 'DDMAngle.__init__': _capture})
        ev.magnitude = (x, mag, sign)
        if q == 'HPAngle.__init__':
            c = m.classes['HPAngle']
            f = c.init()
            got = ev.construct(c, [x], {}, None)
        else:
            f = m.func(q)
            got = ev.call_function(f, {f.params[0].name: x})
        return f, ev, got
    # the magnitudes the code itself distinguishes
    thresholds = set()
    for q, kind in HP_READERS:
        f, ev, got = evaluate(q, F(100))
        thresholds |= set(t for t in ev.thresholds if 0 < t < HP_MAX)
    cuts = [F(0)] + sorted(thresholds) + [HP_MAX]
    regimes = []
    for i in range(len(cuts) - 1):
        lo, hi = cuts[i], cuts[i + 1]
        last = i == len(cuts) - 2
        regimes.append(('%s <= |hp| %s %s' % (lo, '<=' if last else '<', hi), (lo + hi) / 2, ulp_places(hi, not last)))
    for q, kind in HP_READERS:
      for sign in (1, -1):
        for label, mag, pmax in regimes:
            f, ev, got = evaluate(q, mag, sign)
            rep.analysed(f)
            w = where(f, f.node)
            tag = '[%s%s]' % (label, '' if sign > 0 else ', hp < 0')
            specs = [sp for fn, sp, nd in ev.formats if re.match(r'^\.(\d+)f$', sp)]
            key = 'R-FORMAT::geodepy/angles.py::%s::places%s' % (q, tag)
            if ev.string_problems:
                k, nd, msg = ev.string_problems[0]
                rep.violated('R-DIGITS', 'R-DIGITS::geodepy/angles.py::%s::string%s' % (q, tag), where(f, nd), '%s parses a malformed number: %s' % (q, msg))
                continue
            shp = [(wh_, msg_) for k_, wh_, msg_ in ev.diagnostics if k_ == 'shape']
            if shp:
                rep.violated('R-DIGITS', 'R-DIGITS::geodepy/angles.py::%s::string%s' % (q, tag), shp[0][0] or w, '%s: %s (IndexError at run time)' % (q, shp[0][1]))
                continue
            if len(set(specs)) != 1:
                rep.undecided('R-FORMAT', key, w, '%s does not read the HP number through exactly one ".Pf" rendering (found %s)' % (q, sorted(set(specs))))
                continue
            P = int(specs[0][1:-1])
            need = min(13, pmax)
            if P > pmax:
                rep.violated('R-FORMAT', key, w, '%s renders the HP number with %d decimals for %s, where a double only determines %d: binary noise reaches the digit fields (%s)' % (
                    q, P, label, pmax, PLACES_WITNESS), expected='.%df for this magnitude' % need, actual='.%df' % P)
            elif P < need:
                rep.violated('R-FORMAT', key, w, '%s renders the HP number with %d decimals for %s: HP values written with %d decimals lose digits (1e-9" resolution needs 13 where the double '
                             'holds them, 1e-8" tolerance needs 12)' % (q, P, label, need), expected='.%df' % need, actual='.%df' % P)
            else:
                rep.holds('R-FORMAT', key, w, '%s reads %d decimals for %s (a double determines %d there)' % (q, P, label, pmax))
            # the digit atoms of this rendering: of x or of |x|
            base = None
            for cand in (ax, x):
                probe = fdigit(cand, P, 1)
                pid = list(probe.atoms(deep=False))[0]
                holder = got if isinstance(got, Rat) else None
                base = base or cand
            d = None
            # find which argument the rendering was applied to by looking at the atoms of the raise conditions / result
            def uses(val, cand):
                probe_ids = set(list(fdigit(cand, P, k).atoms(deep=False))[0] for k in range(1, P + 1)) | set(list(fint(cand, P).atoms(deep=False)))
                seen = set()

                def walk(v):
                    if isinstance(v, Rat):
                        seen.update(v.atoms(deep=True))
                    elif isinstance(v, Tup):
                        for y in v.items:
                            walk(y)
                    elif isinstance(v, IteV):
                        walk(v.cond); walk(v.a); walk(v.b)
                walk(val)
                for fn_, c_, n_ in ev.raise_conds:
                    walk(c_)
                return bool(probe_ids & seen)
            arg = ax if uses(got, ax) else x
            d = lambda k: fdigit(arg, P, k)
            mm = C(10) * d(1) + d(2)
            sec = C(10) * d(3) + d(4)
            for k in range(5, P + 1):
                sec = sec + d(k) / C(10 ** (k - 4))
            deg = alg.fabs(fint(arg, P))
            fkey = 'R-DIGITS::geodepy/angles.py::%s::fields%s' % (q, tag)
            if kind == 'value':
                if not isinstance(got, Rat):
                    rep.undecided('R-DIGITS', fkey, w, '%s does not evaluate to a number: %s' % (q, show(got, 2, 160)))
                else:
                    check_equal(rep, 'R-DIGITS', fkey, w, got, C(sign) * (deg + mm / C(60) + sec / C(3600)),
                                '%s = %s(|DDD| + MM/60 + SS.s/3600) with MM = decimals 1-2, SS = decimals 3-4, s = decimals 5-%d of the rendering' % (q, '' if sign > 0 else '-', P))
            elif kind in ('dms', 'ddm'):
                lv = [got.a, got.b] if isinstance(got, IteV) else ([got, got] if isinstance(got, Tup) else [])
                if len(lv) != 2 or not all(isinstance(z, Tup) for z in lv):
                    rep.undecided('R-DIGITS', fkey, w, '%s: constructor arguments not captured' % q)
                else:
                    want = [deg, mm, sec] if kind == 'dms' else [deg, mm + sec / C(60)]
                    names = ['degree', 'minute', 'second'] if kind == 'dms' else ['degree', 'minute']
                    for i_, nm in enumerate(names):
                        gi = lv[0].items[i_]
                        if nm == 'degree' and isinstance(gi, Rat) and alg.decide_equal(gi, fint(arg, P)) == 'equal' and arg is ax:
                            gi = alg.fabs(gi)     # integer part of the rendering of |hp| is non-negative
                        check_equal(rep, 'R-DIGITS', fkey + '::' + nm, w, gi, want[i_],
                                    '%s %s field from the decimals of the rendering (MM = decimals 1-2, SS.s = decimals 3-%d)' % (q, nm, P))
                    flag = lv[0].items[-1]
                    skey = 'R-SIBLING::geodepy/angles.py::%s::digits-sign%s' % (q, tag)
                    if isinstance(flag, Bool) and flag.b == (sign > 0):
                        rep.holds('R-SIBLING', skey, w, '%s: positive=%s for hp %s 0' % (q, flag.b, '>=' if sign > 0 else '<'))
                    elif isinstance(flag, Bool):
                        rep.violated('R-SIBLING', skey, w, '%s builds the object with positive=%s for a %s HP value' % (q, flag.b, 'non-negative' if sign > 0 else 'negative'))
                    elif isinstance(flag, Rat) and any(alg.TABLE.atoms[k_].kind == 'fn' and alg.TABLE.atoms[k_].name in ('in', 'notin') and any(isinstance(x_, str) and x_ in ('str<->', 'str<+>') for x_ in alg.TABLE.atoms[k_].args)
                                                       for k_ in flag.atoms(deep=True)):
                        # the sign is read off the TEXT of the number ('-' in str(x)): the shortest repr of a float below 1e-4 is in exponent
                        # form - '5e-05' holds a minus sign although the number is positive
                        rep.violated('R-SIBLING', skey, w, '%s takes the sign flag from a test for a sign CHARACTER in the text of the number (%s): a positive value below 0.0001 prints in exponent '
                                     'form (5e-05) and counts as negative - %s(0.00005) is -0 deg 0 min 0.5 sec' % (q, show(flag, 2, 60), q), expected='hp >= 0', actual=show(flag, 2, 80))
                    else:
                        rep.undecided('R-SIBLING', skey, w, '%s: sign flag not decided: %s' % (q, show(flag, 2, 80)))
            # validators: the rejected set is exactly {minutes field >= 60 or seconds field >= 60}
            if kind in ('value', 'validate', 'dms', 'ddm'):
                conds = [c_ for fn_, c_, n_ in ev.raise_conds if fn_ in (q, q.split('.')[-1], f.qualname)]
                if kind in ('dms', 'ddm') and not conds:
                    continue            # these readers need not validate; when they do, they must not reject a valid value (below)
                vkey = 'R-SIBLING::geodepy/angles.py::hp-validators::%s%s' % (q, tag)
                ids = [list(d(k).atoms(deep=False))[0] for k in range(1, 5)]
                others = set()
                for c_ in conds:
                    if isinstance(c_, Rat):
                        others |= set(c_.atoms(deep=True))
                others -= set(ids)
                other_digits = [o_ for o_ in others if alg.TABLE.atoms[o_].kind == 'fn' and alg.TABLE.atoms[o_].name == 'fdigit']
                bad = None
                undec = False
                deps = []
                for c_ in conds:
                    a_ids = set(c_.atoms(deep=True)) if isinstance(c_, Rat) else set()
                    deps.append([i_ for i_ in ids + other_digits if i_ in a_ids])
                cache = {}

                def cval(n_, env):
                    kk = (n_,) + tuple(env[i_] for i_ in deps[n_])
                    if kk not in cache:
                        cache[kk] = cond_value(conds[n_], dict((i_, env[i_]) for i_ in deps[n_]))
                    return cache[kk]
                if not conds:
                    rep.violated('R-SIBLING', vkey, w, '%s never rejects an HP value: minutes / seconds fields of 60 or more are accepted' % q,
                                 expected='raise for MM >= 60 or SS >= 60', actual='no raising test')
                    continue
                for d1 in range(10):
                    for d2 in range(10):
                        for d3 in range(10):
                            for d4 in range(10):
                                for fill in ((0,), (9,)) if other_digits else ((0,),):
                                    env = dict(zip(ids, (F(d1), F(d2), F(d3), F(d4))))
                                    for o_ in other_digits:
                                        env[o_] = F(fill[0])
                                    vals = [cval(n_, env) for n_ in range(len(conds))]
                                    if any(v is None for v in vals):
                                        undec = True
                                        continue
                                    rejected = any(vals)
                                    want_rej = (10 * d1 + d2 >= 60) or (10 * d3 + d4 >= 60)
                                    if kind in ('dms', 'ddm') and want_rej:
                                        continue        # what these readers do with an invalid value is not constrained
                                    if rejected != want_rej and bad is None:
                                        bad = (d1, d2, d3, d4, rejected)
                                        bad_fill = fill[0]
                if bad is not None:
                    d1, d2, d3, d4, rj = bad
                    if rj and bad_fill == 9:
                        rep.violated('R-SIBLING', vkey, w, '%s rejects the valid HP decimals .%d%d%d%d999... (minutes %d%d, seconds %d%d.999): only a minutes or seconds field of 60 or more is invalid' % (
                            q, d1, d2, d3, d4, d1, d2, d3, d4), expected='reject iff MM >= 60 or SS >= 60', actual='rejects .%d%d%d%d999' % (d1, d2, d3, d4))
                        continue
                    rep.violated('R-SIBLING', vkey, w, '%s %s the HP decimals .%d%d%d%d (minutes %d%d, seconds %d%d): exactly the values with a minutes or seconds field of 60 or more have to be rejected' % (
                        q, 'rejects' if rj else 'accepts', d1, d2, d3, d4, d1, d2, d3, d4), expected='reject iff MM >= 60 or SS >= 60', actual='%s .%d%d%d%d' % ('rejects' if rj else 'accepts', d1, d2, d3, d4))
                elif undec:
                    rep.undecided('R-SIBLING', vkey, w, '%s: a validity test could not be evaluated over the digit domain' % q)
                else:
                    rep.holds('R-SIBLING', vkey, w, '%s rejects exactly the renderings whose minutes or seconds field is 60 or more (decided over all digit values)' % q)
    # ---- dec2hp: the HP number assembled as a string, per magnitude regime (the thresholds dec2hp itself uses are added)
    f = m.func('dec2hp')
    rep.analysed(f)
    w = where(f, f.node)
    probe = DigitEvaluator(repo)
    probe.magnitude = (x, F(100))
    probe.call_function(f, {f.params[0].name: x})
    cuts2 = [F(0)] + sorted(set(t for t in (thresholds | probe.thresholds) if 0 < t < HP_MAX)) + [HP_MAX]
    for i_ in range(len(cuts2) - 1):
        lo, hi = cuts2[i_], cuts2[i_ + 1]
        last = i_ == len(cuts2) - 2
        label = '%s <= |dec| %s %s' % (lo, '<=' if last else '<', hi)
        tag = '[%s]' % label
        pmax = ulp_places(hi, not last)
        ev = DigitEvaluator(repo)
        ev.magnitude = (x, (lo + hi) / 2)
        got = ev.call_function(f, {f.params[0].name: x})
        key = 'R-DIGITS::geodepy/angles.py::dec2hp'
        if ev.string_problems:
            k_, nd, msg = ev.string_problems[0]
            rep.violated('R-DIGITS', key + '::string' + tag, where(f, nd), 'dec2hp builds a malformed number: ' + msg, expected='DDD.MMSSsssssssss', actual=msg[:160])
            continue
        ps = [int(mm_.group(2)) for mm_ in (re.match(r'^0(\d+)\.(\d+)f$', sp) for fn, sp, nd in ev.formats if fn == 'dec2hp') if mm_]
        if len(ps) != 1:
            rep.undecided('R-DIGITS', key + '::assembly' + tag, w, 'dec2hp does not write its seconds through exactly one "0W.Pf" format (found %s)' % [sp for fn, sp, nd in ev.formats if fn == 'dec2hp'])
            continue
        p_ = ps[0]
        lv = ite_leaves(got) if isinstance(got, Rat) else []
        ref = Oracle(DEC2HP_REF).call('dec2hp_ref', dec=x, places=C(p_))
        if len(lv) != 2:
            rep.undecided('R-DIGITS', key + '::assembly' + tag, w, 'dec2hp is not "v if dec >= 0 else -v": %s' % show(got, 2, 160))
        else:
            check_equal(rep, 'R-DIGITS', key + '::assembly' + tag, w, lv[0], ref,
                        'float(f"{D}.{MM}{SSsss}") = D + MM/100 + SS.sss/10000: the minutes fill exactly two digits and the seconds start exactly two digits later')
            check_equal(rep, 'R-SIBLING', 'R-SIBLING::geodepy/angles.py::dec2hp::digits-sign' + tag, w, lv[1], -lv[0], 'dec2hp: negative branch is the negated positive branch')
        need = min(13, pmax) - 4
        k2 = 'R-FORMAT::geodepy/angles.py::dec2hp::second-places' + tag
        if p_ > pmax - 4:
            rep.violated('R-FORMAT', k2, w, 'dec2hp writes the seconds with %d decimals for %s, i.e. an HP value of %d decimals where a double determines %d: the HP readers, which read '
                         '%d decimals there, round a seconds field of 59.99999999x up to 60 and reject the value (%s)' % (p_, label, p_ + 4, pmax, pmax, DEC2HP_WITNESS),
                         expected='%d decimals of a second' % need, actual=str(p_))
        elif p_ < need:
            rep.violated('R-FORMAT', k2, w, 'dec2hp writes the seconds with %d decimals for %s: rounding error 0.5e-%d" (the tolerance is 1e-8", the resolution promised where the double '
                         'allows it 1e-9")' % (p_, label, p_), expected='%d' % need, actual=str(p_))
        else:
            rep.holds('R-FORMAT', k2, w, 'seconds written with %d decimals for %s (HP value of %d decimals; a double determines %d there)' % (p_, label, p_ + 4, pmax))
        rs = [(dg, ln) for fn, dg, val, ln in ev.roundings if fn == 'dec2hp']
        kc = 'R-CARRY::geodepy/angles.py::dec2hp::places' + tag
        if rs:
            dg, ln = rs[0]
            if dg == p_:
                rep.holds('R-CARRY', kc, '%s:%d' % (f.module.relpath, ln), 'the carry test rounds the seconds to %d places, the places they are written with' % dg)
            else:
                rep.violated('R-CARRY', kc, '%s:%d' % (f.module.relpath, ln), 'the carry test rounds the seconds to %s places but they are written with %d: a value that rounds to 60 only at %d places '
                             'is not carried and is written as a seconds field of 60 (invalid HP)' % (dg, p_, min(dg or 0, p_)), expected=str(p_), actual=str(dg))
        else:
            rep.undecided('R-CARRY', kc, w, 'carry test not recognised')
    # ---- string form of the DMS / DDM constructors: 'DDD MM SS.SSS' -> fields by position
    for cname, fields in (('DMSAngle', ['degree', 'minute', 'second']), ('DDMAngle', ['degree', 'minute'])):
        init = m.classes[cname].init()
        got_ = {}
        for n_ in ast.walk(init.node):
            if isinstance(n_, ast.Assign) and isinstance(n_.targets[0], ast.Name) and n_.targets[0].id in fields and isinstance(n_.value, ast.Call) \
                    and n_.value.args and isinstance(n_.value.args[0], ast.Subscript) and isinstance(n_.value.args[0].slice, ast.Constant) \
                    and isinstance(n_.value.args[0].value, ast.Name):
                src_ = n_.value.args[0].value.id
                split_ = any(isinstance(a_, ast.Assign) and isinstance(a_.targets[0], ast.Name) and a_.targets[0].id == src_ and isinstance(a_.value, ast.Call)
                             and getattr(a_.value.func, 'attr', '') == 'split' for a_ in ast.walk(init.node))
                if split_:
                    got_[n_.targets[0].id] = (n_.value.args[0].slice.value, n_)
        key = 'R-TABLE::geodepy/angles.py::%s.__init__::string-fields' % cname
        if not got_:
            rep.undecided('R-TABLE', key, where(init, init.node), 'no string form found')
            continue
        wrong = [(k_, v_[0]) for k_, v_ in got_.items() if v_[0] != fields.index(k_)]
        if wrong or len(got_) != len(fields):
            k_, ix_ = wrong[0] if wrong else (sorted(set(fields) - set(got_))[0], None)
            rep.violated('R-TABLE', key, where(init, got_[k_][1]) if k_ in got_ else where(init, init.node),
                         "%s('DDD MM SS.S'): %s is taken from part %s of the string; the parts are %s in this order" % (cname, k_, ix_, fields),
                         expected=str(fields.index(k_)), actual=str(ix_))
        else:
            rep.holds('R-TABLE', key, where(init, init.node), '%s string form: %s = parts 0..%d' % (cname, ', '.join(fields), len(fields) - 1))
    # ---- sibling rule: every producer of an HP number from decimal degrees carries a seconds field that rounds to 60
    producer_carry_rules(repo, rep, m)
    method_carry_rules(repo, rep, m)
    # ---- sibling rule: how positional fields are taken out of an HP number
    extraction_rules(repo, rep, m)
    rep.floor('R-DIGITS', 14, 'field cutting of hp2dec / hp2dms / hp2ddm per magnitude regime, assembly of dec2hp, field extraction of the hp2* functions')


METHOD_CARRY_WITNESS = ('dec2dms(1.0833333333333333).hp() returned 1.046 (1 deg 04 min 60 s) on the code as found: dec2dms stores the seconds as 59.999999999999545 and the sum '
                        'D + M/100 + S/10000 rounds them to 60; HPAngle(...) and hp2dec reject the value, so DMSAngle.hpa() raises')


def method_carry_rules(repo, rep, m):
    """the object methods that produce HP from stored sexagesimal fields (DMSAngle.hp, DDMAngle.hp): the fields come out of divmod (dec2dms,
    dec2ddm) and may hold 59.9999999999 seconds; the HP number has to be produced with the rounding and carry of dec2hp (by delegating to it
    or by testing the seconds against 60), not by the bare sum D + M/100 + S/10000"""
    for cname in ('DMSAngle', 'DDMAngle'):
        c = m.classes.get(cname)
        f = c.methods.get('hp') if c is not None else None
        if f is None:
            continue
        key = 'R-CARRY::geodepy/angles.py::%s.hp::seconds-carry' % cname
        delegates = any(isinstance(n, ast.Call) and isinstance(n.func, ast.Name) and n.func.id in ('dec2hp', 'dec2hpa') for n in ast.walk(f.node))
        tests = [n for n in ast.walk(f.node) if isinstance(n, ast.Compare) and isinstance(n.comparators[0], ast.Constant) and isinstance(n.comparators[0].value, (int, float))
                 and 59.9 < n.comparators[0].value <= 60]
        bare = [n for n in ast.walk(f.node) if isinstance(n, ast.BinOp) and isinstance(n.op, ast.Div) and isinstance(n.right, ast.Constant) and n.right.value in (100, 10000)]
        if delegates:
            rep.holds('R-CARRY', key, where(f, f.node), '%s.hp() produces the HP number through dec2hp (rounding and carry of the seconds)' % cname)
        elif tests:
            rep.holds('R-CARRY', key, where(f, tests[0]), '%s.hp() tests its seconds against 60 before assembling the HP number' % cname)
        elif bare:
            rep.violated('R-CARRY', key, where(f, bare[0]), '%s.hp() assembles D + M/100 + S/10000 from the stored fields without carrying a seconds field that rounds to 60: %s' % (
                cname, METHOD_CARRY_WITNESS), expected='dec2hp(self.dec()) or an explicit carry', actual=stmt_text(bare[0])[:80])
        else:
            rep.undecided('R-CARRY', key, where(f, f.node), '%s.hp() is neither a delegation to dec2hp nor the positional sum' % cname)


HP_WITNESS = 'hp2dms(259.02) = 259d 01m 99.99999999971s (259.0444 deg, 40" off 259d 02m 00s) because 259.02 * 1000 = 259019.99999999997'


def extraction_rules(repo, rep, m):
    """HP -> value is discontinuous at every field boundary (the digits are re-weighted 1/100 -> 1/60), so a floor / divmod / int applied to a
    binary-float multiple of the HP number lands in the wrong field when the product falls an ulp below the boundary.  The module states
    this itself (hp2dec, dec2hp, HPAngle: 'parse string to avoid precision problems with floating point ops and base 10 numbers').
    Rule: in every function whose source notation is HP, the first positional extraction acts on the decimal rendering (string path) or on
    a value rounded (round / numpy.round) to at most 9 decimals after scaling; siblings must agree."""
    n = 0
    for name, f in sorted(m.functions.items()):
        if not name.startswith('hp2'):
            continue
        p0 = f.params[0].name if f.params else None
        if p0 is None:
            continue
        state = {p0: 'raw'}      # raw: binary float carrying decimal fields; safe: rounded / integral / from a string; other names untracked
        found = []               # (node, verdict, text)
        defs_ = {}
        for st_ in ast.walk(f.node):
            if isinstance(st_, ast.Assign) and len(st_.targets) == 1 and isinstance(st_.targets[0], ast.Name):
                defs_.setdefault(st_.targets[0].id, []).append(st_.value)

        def _scaled(e, depth=0):
            """the expression multiplies / divides the HP number by something (a product is not exact)"""
            if depth > 8:
                return False
            if isinstance(e, ast.BinOp) and isinstance(e.op, (ast.Mult, ast.Div, ast.Pow)):
                return True
            if isinstance(e, ast.Call) and e.args:
                return _scaled(e.args[0], depth + 1)
            if isinstance(e, ast.Name) and e.id != p0:
                return any(_scaled(v_, depth + 1) for v_ in defs_.get(e.id, []))
            return False

        def _ibound(e, depth=0):
            """(lo, hi) of a small integer expression: constants, comparisons (0..1), + - of those, numpy.where(c, a, b), names by definition"""
            if depth > 8:
                return None
            if isinstance(e, ast.Constant) and isinstance(e.value, (int, float)) and not isinstance(e.value, bool):
                return (e.value, e.value)
            if isinstance(e, ast.Compare):
                return (0, 1)
            if isinstance(e, ast.BinOp) and isinstance(e.op, (ast.Add, ast.Sub)):
                a_, b_ = _ibound(e.left, depth + 1), _ibound(e.right, depth + 1)
                if a_ is None or b_ is None:
                    return None
                return (a_[0] + b_[0], a_[1] + b_[1]) if isinstance(e.op, ast.Add) else (a_[0] - b_[1], a_[1] - b_[0])
            if isinstance(e, ast.Call) and getattr(e.func, 'attr', getattr(e.func, 'id', '')) == 'where' and len(e.args) == 3:
                a_, b_ = _ibound(e.args[1], depth + 1), _ibound(e.args[2], depth + 1)
                return None if a_ is None or b_ is None else (min(a_[0], b_[0]), max(a_[1], b_[1]))
            if isinstance(e, ast.IfExp):
                a_, b_ = _ibound(e.body, depth + 1), _ibound(e.orelse, depth + 1)
                return None if a_ is None or b_ is None else (min(a_[0], b_[0]), max(a_[1], b_[1]))
            if isinstance(e, ast.Name):
                bs = [_ibound(v_, depth + 1) for v_ in defs_.get(e.id, [])]
                if bs and all(b_ is not None for b_ in bs):
                    return (min(b_[0] for b_ in bs), max(b_[1] for b_ in bs))
            return None

        def _kbound(e, depth=0):
            """bounds of k in <frac> * 10 ** k / <frac> * 1e13"""
            if depth > 8:
                return None
            if isinstance(e, ast.Name):
                bs = [_kbound(v_, depth + 1) for v_ in defs_.get(e.id, [])]
                return bs[-1] if bs and bs[-1] is not None else None
            if isinstance(e, ast.BinOp) and isinstance(e.op, ast.Mult):
                for side in (e.right, e.left):
                    if isinstance(side, ast.BinOp) and isinstance(side.op, ast.Pow) and isinstance(side.left, ast.Constant) and side.left.value in (10, 10.0):
                        return _ibound(side.right)
                    if isinstance(side, ast.Constant) and isinstance(side.value, (int, float)) and side.value > 0:
                        import math
                        k_ = math.log10(side.value)
                        if abs(k_ - round(k_)) < 1e-12:
                            return (round(k_), round(k_))
            return None

        def kind(e):
            """'raw' (the HP number / its magnitude) | 'whole' (its integer part: exact) | 'frac' (raw - whole: exact) | 'fracdigits' (frac times
            a power of ten: the digits after the point as a number) | 'safe' (rounded / integral / from a string) | None"""
            if isinstance(e, ast.Name):
                return state.get(e.id)
            if isinstance(e, ast.Constant):
                return None
            if isinstance(e, ast.Call):
                fn = e.func.id if isinstance(e.func, ast.Name) else (e.func.attr if isinstance(e.func, ast.Attribute) else '')
                if fn in ('abs', 'float', 'fabs', 'absolute', 'array', 'asarray') and e.args:
                    return kind(e.args[0])
                # the integer part of the (unscaled) HP number is its whole degrees: exact, no digit boundary is crossed
                if fn in ('floor', 'trunc', 'int') and e.args and kind(e.args[0]) == 'raw' and not _scaled(e.args[0]):
                    found.append((e, 'ok', stmt_text(e)))
                    return 'whole'
                # digits of the fraction, rounded to the nearest integer: sound while the power of ten stays within what a double below 512
                # degrees resolves (13 decimals; 12 from 512 up)
                zero_places = (fn in ('rint',) and e.args) or (fn in ('round', 'around') and isinstance(e.func, ast.Name) and len(e.args) == 1 and not e.keywords) \
                    or (fn == 'round' and isinstance(e.func, ast.Attribute) and not e.args and not e.keywords)
                if zero_places:
                    inner = e.args[0] if e.args else e.func.value
                    if kind(inner) == 'fracdigits':
                        kb = _kbound(inner)
                        if kb is not None and kb[1] <= 13:
                            return 'safe'
                        found.append((e, 'bad', stmt_text(e) + ' (more decimal digits than the double holds)'))
                        return 'safe'
                if fn == 'round' and isinstance(e.func, ast.Attribute) and not (isinstance(e.func.value, ast.Name) and e.func.value.id not in state):
                    # (expr).round(n) / tracked_name.round(n) - not np.round(x, n), handled below
                    k = kind(e.func.value)
                    if k == 'raw':
                        nd = e.args[0].value if e.args and isinstance(e.args[0], ast.Constant) else None
                        return 'safe' if isinstance(nd, int) and nd <= 9 else 'raw'
                    return k
                if fn in ('round', 'around', 'round_') and e.args:
                    k = kind(e.args[0])
                    if k == 'raw':
                        nd = None
                        if len(e.args) > 1 and isinstance(e.args[1], ast.Constant):
                            nd = e.args[1].value
                        for kw in e.keywords:
                            if kw.arg in ('ndigits', 'decimals') and isinstance(kw.value, ast.Constant):
                                nd = kw.value.value
                        return 'safe' if isinstance(nd, int) and nd <= 9 else 'raw'
                    return k
                if fn in ('int', 'floor', 'trunc') and e.args:
                    k = kind(e.args[0])
                    if k == 'raw':
                        found.append((e, 'bad', stmt_text(e)))
                    return 'safe' if k else None
                if fn == 'divmod' and len(e.args) == 2:
                    k = kind(e.args[0])
                    if k in ('raw', 'fracdigits', 'frac'):
                        found.append((e, 'bad', stmt_text(e)))
                    elif k == 'safe':
                        found.append((e, 'ok', stmt_text(e)))
                    return 'safe' if k else None
                return None
            if isinstance(e, ast.JoinedStr) or (isinstance(e, ast.Call) and getattr(e.func, 'attr', '') == 'format'):
                return None
            if isinstance(e, ast.BinOp):
                a, b = kind(e.left), kind(e.right)
                if isinstance(e.op, ast.FloorDiv) and a == 'raw' and not _scaled(e.left) and isinstance(e.right, ast.Constant) and e.right.value == 1:
                    found.append((e, 'ok', stmt_text(e)))
                    return 'whole'
                if isinstance(e.op, ast.Sub) and a == 'raw' and b == 'whole' and not _scaled(e.left):
                    return 'frac'
                if isinstance(e.op, ast.Mult) and 'frac' in (a, b) and 'raw' not in (a, b):
                    return 'fracdigits'
                if isinstance(e.op, (ast.FloorDiv, ast.Mod)):
                    if a in ('raw', 'fracdigits', 'frac'):
                        found.append((e, 'bad', stmt_text(e)))
                    elif a == 'safe':
                        found.append((e, 'ok', stmt_text(e)))
                    return 'safe' if a else None
                if 'raw' in (a, b):
                    return 'raw'
                if 'safe' in (a, b):
                    return 'safe'
                return None
            if isinstance(e, ast.UnaryOp):
                return kind(e.operand)
            if isinstance(e, ast.Subscript):
                # a masked selection of an array keeps its kind
                return kind(e.value)
            return None
        strings = False
        for st in ast.walk(f.node):
            if isinstance(st, ast.FormattedValue) and isinstance(st.value, ast.Name) and state.get(st.value.id) == 'raw' and st.format_spec is not None:
                strings = True
        for st in f.node.body:
            for sub in ast.walk(st):
                if isinstance(sub, ast.Assign):
                    k = kind(sub.value)
                    for t in sub.targets:
                        if isinstance(t, ast.Name):
                            if k:
                                state[t.id] = k
                            elif t.id in state and t.id != p0:
                                del state[t.id]
                        elif isinstance(t, ast.Tuple) and k:
                            for el in t.elts:
                                if isinstance(el, ast.Name):
                                    state[el.id] = 'safe'
                elif isinstance(sub, (ast.Return, ast.Expr)) and sub.value is not None:
                    kind(sub.value)
        key = 'R-DIGITS::geodepy/angles.py::%s::extraction' % name
        bad = [x for x in found if x[1] == 'bad']
        ok = [x for x in found if x[1] == 'ok']
        if bad:
            n += 1
            rep.violated('R-DIGITS', key, where(f, bad[0][0]), '%s takes the HP fields by `%s` on an unrounded binary-float multiple of the HP number; its siblings (hp2dec, dec2hp, HPAngle) '
                         'cut the decimal rendering for exactly this reason. Witness on the code as found: %s' % (name, bad[0][2][:70], HP_WITNESS),
                         expected='fields from format(hp, ".13f") or from round(scaled, <= 9)', actual=bad[0][2][:120])
        elif strings:
            n += 1
            rep.holds('R-DIGITS', key, where(f, f.node), '%s cuts its fields out of the decimal rendering of the HP number' % name)
        elif ok:
            n += 1
            rep.holds('R-DIGITS', key, where(f, ok[0][0]), '%s extracts its fields from a safely rounded value (<= 9 decimals of the scaled value, or the digits of the exact fraction '
                      'hp - floor(hp) rounded to an integer of at most 13 places)' % name)
        else:
            # a function that does cut fields (divmod / floor / // / %) of something the rule could not classify is not passed over silently
            cuts = [x for x in ast.walk(f.node) if (isinstance(x, ast.Call) and getattr(x.func, 'id', getattr(x.func, 'attr', '')) in ('divmod', 'floor', 'trunc'))
                    or (isinstance(x, ast.BinOp) and isinstance(x.op, (ast.FloorDiv, ast.Mod)) and not isinstance(x.left, ast.Constant))]
            if cuts:
                n += 1
                rep.undecided('R-DIGITS', key, where(f, cuts[0]), '%s cuts fields with `%s` but the operand could not be traced back to the HP argument' % (name, stmt_text(cuts[0])[:60]))
    return n


def run(repo, rep):
    alg.reset()
    rep.trust('notation type of a conversion is stated by its name (a2b) - the module\'s own documented convention')
    rep.trust('sv/alg.py normal forms for the linear forms; divmod kept as opaque floor/mod atoms')
    typing_rules(repo, rep)
    forms_rules(repo, rep)
    carry_rule(repo, rep)
    digit_rules(repo, rep)
    vector_validator_rule(repo, rep)
    from . import common
    common.identity_flag_rule(repo, rep, 'geodepy.angles')
    common.ctor_sign_table(repo, rep)
    zero_angle_rules(repo, rep)
    method_value_table(repo, rep)
    float_subclass_rule(repo, rep)
    vector_rules(repo, rep)
    threshold_sibling_rule(repo, rep)


def method_value_table(repo, rep):
    """object -> object methods keep the angle: for DMS and DDM objects built from constant fields (a lattice that holds the awkward ones: zero
    degrees with a negative sign, whole minutes with zero seconds, 59.7 minutes, a minutes field of exactly 60 as round() leaves it) the
    decimal value of x.dms(), x.ddm(), x.deca(), x.gona(), -x, abs(x) and of the two-step chains is the decimal value of x (negated /
    made positive).  Constant arguments fold exactly through the constructors' sign inference, divmod, int() and the operators."""
    m = repo.module('geodepy.angles')

    def decval(ev, o):
        if not isinstance(o, Obj) or 'dec' not in o.cls.methods:
            return None
        r = ev.invoke(o.cls.methods['dec'], [o], {}, None)
        r = r.rat if isinstance(r, CallV) else r
        return r.as_fraction() if isinstance(r, Rat) else None
    lattice = {'DMSAngle': [(d_, mi_, s_) for d_ in (0, 12) for mi_ in (0, 30, 59) for s_ in (0, F(61, 2), F(599996, 10000))],
               'DDMAngle': [(d_, mi_) for d_ in (0, 12) for mi_ in (0, F(1, 2), F(121, 4), F(597, 10), 60)]}
    chains = (('dms',), ('ddm',), ('deca',), ('gona',), ('__neg__',), ('__abs__',), ('ddm', 'dms'), ('dms', 'ddm'), ('__neg__', 'dms'), ('__neg__', 'ddm'), ('__neg__', '__neg__'))
    for cname, pts in sorted(lattice.items()):
        cls = m.classes.get(cname)
        if cls is None:
            raise AnalysisError('anchor vanished: angles.%s' % cname)
        for chain in chains:
            if chain[0] not in cls.methods:
                continue
            key = 'R-TABLE::geodepy/angles.py::%s.%s::value-table' % (cname, '.'.join(chain))
            f0 = cls.methods[chain[0]]
            bad = None
            n_ok = 0
            n_skip = 0
            raised = None
            # a chain that asks a class for a conversion to itself (DMSAngle has no .dms()) does not exist
            names_ = {'dms': 'DMSAngle', 'ddm': 'DDMAngle', 'deca': 'DECAngle', 'gona': 'GONAngle'}
            cur_cls = cname
            valid = True
            for meth in chain:
                if meth in names_:
                    if names_[meth] == cur_cls:
                        valid = False
                    cur_cls = names_[meth]
            if not valid:
                continue
            for args in pts:
                for pos in (True, False):
                    ev = Evaluator(repo)
                    ev.fold_const_types = True
                    try:
                        o = ev.construct(cls, [C(x_) for x_ in args], {'positive': Bool(pos)}, None)
                        base = decval(ev, o)
                        cur = o
                        for meth in chain:
                            if not isinstance(cur, Obj) or meth not in cur.cls.methods:
                                cur = None
                                break
                            cur = ev.invoke(cur.cls.methods[meth], [cur], {}, None)
                        got = decval(ev, cur) if cur is not None else None
                    except (AnalysisError, RecursionError, KeyError, TypeError, ZeroDivisionError):
                        base = got = None
                    if getattr(ev, 'raised', None) and raised is None:
                        raised = (args, pos, ev.raised[0])
                    if base is None or got is None:
                        n_skip += 1
                        continue
                    want = base
                    for meth in chain:
                        if meth == '__neg__':
                            want = -want
                        elif meth == '__abs__':
                            want = abs(want)
                    if got == want:
                        n_ok += 1
                    elif bad is None:
                        bad = (args, pos, got, want)
            if raised is not None:
                args, pos, (rq_, rst_) = raised
                rep.violated('R-TABLE', key + '::raises', where(f0, rst_) if False else '%s:%d' % (f0.module.relpath, rst_.lineno),
                             '%s(%s, positive=%s).%s(): `%s` in %s is reached - an exception for an object of the lattice (fields that the class itself builds: round() leaves a '
                             'minutes / seconds field of exactly 60 when 59.97 rounds up)' % (cname, ', '.join(str(float(x_)) if isinstance(x_, F) else str(x_) for x_ in args), pos,
                                                                                                '().'.join(chain), stmt_text(rst_)[:60], rq_),
                             expected='a value', actual='raise')
            if bad is not None:
                args, pos, got, want = bad
                rep.violated('R-TABLE', key, where(f0, f0.node), '%s(%s, positive=%s).%s() denotes %.12g degrees, the angle itself is %s%.12g: the conversion does not keep the angle' % (
                    cname, ', '.join(str(float(x_)) if isinstance(x_, F) else str(x_) for x_ in args), pos, '().'.join(chain), float(got),
                    'then ' if any(c_ in ('__neg__', '__abs__') for c_ in chain) else '', float(want)), expected='%.12g' % float(want), actual='%.12g' % float(got))
            elif n_ok < len(pts):
                rep.undecided('R-TABLE', key, where(f0, f0.node), 'only %d of %d lattice points fold to numbers' % (n_ok, 2 * len(pts)))
            else:
                rep.holds('R-TABLE', key, where(f0, f0.node), '%s.%s keeps the angle on %d lattice objects (zero degrees, negative sign, whole minutes, a minutes field of 60)' % (cname, '.'.join(chain), n_ok))


def _small_bound(e, defs, depth=0):
    """(lo, hi) of a small integer expression (constants, comparisons as 0..1, sums and differences, numpy.where, names by their definitions)"""
    if depth > 8:
        return None
    if isinstance(e, ast.Constant) and isinstance(e.value, (int, float)) and not isinstance(e.value, bool):
        return (e.value, e.value)
    if isinstance(e, ast.Compare):
        return (0, 1)
    if isinstance(e, ast.BinOp) and isinstance(e.op, (ast.Add, ast.Sub)):
        a_, b_ = _small_bound(e.left, defs, depth + 1), _small_bound(e.right, defs, depth + 1)
        if a_ is None or b_ is None:
            return None
        return (a_[0] + b_[0], a_[1] + b_[1]) if isinstance(e.op, ast.Add) else (a_[0] - b_[1], a_[1] - b_[0])
    if isinstance(e, ast.Call) and getattr(e.func, 'attr', getattr(e.func, 'id', '')) == 'where' and len(e.args) == 3:
        a_, b_ = _small_bound(e.args[1], defs, depth + 1), _small_bound(e.args[2], defs, depth + 1)
        return None if a_ is None or b_ is None else (min(a_[0], b_[0]), max(a_[1], b_[1]))
    if isinstance(e, ast.IfExp):
        a_, b_ = _small_bound(e.body, defs, depth + 1), _small_bound(e.orelse, defs, depth + 1)
        return None if a_ is None or b_ is None else (min(a_[0], b_[0]), max(a_[1], b_[1]))
    if isinstance(e, ast.Name):
        bs = [_small_bound(st.value, defs, depth + 1) for st in defs.get(e.id, []) if isinstance(st, ast.Assign)]
        if bs and all(b_ is not None for b_ in bs):
            return (min(b_[0] for b_ in bs), max(b_[1] for b_ in bs))
    return None


def float_subclass_rule(repo, rep):
    """DECAngle, HPAngle and GONAngle subclass float AND keep the angle in an attribute (dec_angle / hp_angle / gon_angle); every method reads
    the attribute.  The float value of the object itself is a second copy that differs from the attribute whenever the object was built
    by keyword (DECAngle(dec_angle=30.0) has the float value 0.0) or the attribute was assigned later: a method that hands `self` to
    arithmetic or to a math function (radians(self)) reads the wrong copy.  One instance per class: no bare `self` used as a number."""
    m = repo.module('geodepy.angles')
    for cname, cls in sorted(m.classes.items()):
        if not any(getattr(b_, 'id', '') == 'float' for b_ in cls.node.bases):
            continue
        key = 'R-WIRE::geodepy/angles.py::%s::one-copy-of-the-angle' % cname
        bad = None
        for f in cls.methods.values():
            parents = {}
            for n in ast.walk(f.node):
                for ch in ast.iter_child_nodes(n):
                    parents[id(ch)] = n
            for n in ast.walk(f.node):
                if isinstance(n, ast.Name) and n.id == 'self' and isinstance(n.ctx, ast.Load):
                    par = parents.get(id(n))
                    if isinstance(par, ast.Attribute):
                        continue
                    if isinstance(par, ast.Call) and getattr(par.func, 'id', '') in ('isinstance', 'type', 'id', 'repr', 'super'):
                        continue
                    if isinstance(par, (ast.BinOp, ast.UnaryOp, ast.Compare)) or (isinstance(par, ast.Call) and n in par.args):
                        bad = bad or (f, par)
        if bad:
            f, par = bad
            rep.violated('R-WIRE', key, where(f, par), '%s uses the object itself as a number (`%s`): the float value of a %s is a second copy of the angle next to the attribute every '
                         'other method reads - for %s(%s=30.0) it is 0.0, so this method answers for another angle than .dec() does' % (
                             f.qualname, stmt_text(par)[:50], cname, cname, [p.name for p in cls.init().params if p.name != 'self'][0] if cls.init() else 'value'),
                         expected='the stored attribute', actual=stmt_text(par)[:60])
        else:
            rep.holds('R-WIRE', key, '%s:%d' % (m.relpath, cls.node.lineno), 'no method of %s reads the float value of the object instead of its stored angle' % cname, work=False)


def vector_rules(repo, rep):
    """two structural rules for the vectorised converters (dec2hp_v, hp2dec_v):
    - a masked update `a[m1] = f(a[m2])` uses ONE mask: with two different masks (<= 0 and < 0) the selections have different lengths as
      soon as an element is exactly zero - numpy broadcasts a single value silently or raises;
    - the result is not accumulated IN PLACE into an array derived from the argument by integer-preserving operations (abs, //, floor,
      indexing): for an integer argument that array is an integer array and `+= <fraction>` raises a casting error."""
    m = repo.module('geodepy.angles')
    for name, f in sorted(m.functions.items()):
        if not name.endswith('_v') or not f.params:
            continue
        p0 = f.params[0].name
        key = 'R-WIRE::geodepy/angles.py::%s::one-mask' % name
        bad = None
        n_mask = 0
        for st in ast.walk(f.node):
            if isinstance(st, ast.Assign) and len(st.targets) == 1 and isinstance(st.targets[0], ast.Subscript) and isinstance(st.targets[0].value, ast.Name) \
                    and isinstance(st.targets[0].slice, (ast.Compare, ast.BoolOp, ast.Name, ast.UnaryOp)):
                base = st.targets[0].value.id
                m1 = stmt_text(st.targets[0].slice)
                for x in ast.walk(st.value):
                    if isinstance(x, ast.Subscript) and isinstance(x.value, ast.Name) and x.value.id == base and isinstance(x.slice, (ast.Compare, ast.BoolOp, ast.Name, ast.UnaryOp)):
                        n_mask += 1
                        if stmt_text(x.slice) != m1:
                            bad = bad or (st, m1, stmt_text(x.slice))
        if bad:
            st, m1, m2 = bad
            rep.violated('R-WIRE', key, where(f, st), '`%s` writes the elements selected by `%s` from those selected by `%s`: with an element that is exactly zero the two selections differ in '
                         'length - one value is broadcast over all of them (dec2hp_v([0.0, -12.575, 30.5]) gives [-12.343, -12.343, 30.3]) or numpy raises' % (stmt_text(st)[:60], m1, m2),
                         expected='one mask on both sides', actual=stmt_text(st)[:80])
        elif n_mask:
            rep.holds('R-WIRE', key, where(f, f.node), 'masked updates of %s use the same mask on both sides' % name, work=False)
        key = 'R-DTYPE::geodepy/angles.py::%s::in-place-accumulation' % name
        intlike = {p0}

        def is_intlike(e):
            if isinstance(e, ast.Name):
                return e.id in intlike
            if isinstance(e, ast.Call) and getattr(e.func, 'id', getattr(e.func, 'attr', '')) in ('abs', 'absolute', 'floor', 'trunc', 'copy') and (e.args or isinstance(e.func, ast.Attribute)):
                return is_intlike(e.args[0]) if e.args else is_intlike(e.func.value)
            if isinstance(e, ast.BinOp) and isinstance(e.op, (ast.FloorDiv, ast.Mod, ast.Sub, ast.Add)):
                return is_intlike(e.left) and (is_intlike(e.right) or (isinstance(e.right, ast.Constant) and isinstance(e.right.value, int)))
            if isinstance(e, ast.UnaryOp):
                return is_intlike(e.operand)
            if isinstance(e, ast.Subscript):
                return is_intlike(e.value)
            return False
        bad = None
        for st in f.node.body:
            for sub in ast.walk(st):
                if isinstance(sub, ast.Assign) and len(sub.targets) == 1 and isinstance(sub.targets[0], ast.Name):
                    if is_intlike(sub.value):
                        intlike.add(sub.targets[0].id)
                    else:
                        intlike.discard(sub.targets[0].id)
                if isinstance(sub, ast.AugAssign) and isinstance(sub.target, ast.Name) and sub.target.id in intlike and sub.target.id != p0 \
                        and isinstance(sub.op, (ast.Add, ast.Sub, ast.Mult, ast.Div)):
                    frac = any(isinstance(x, ast.BinOp) and isinstance(x.op, ast.Div) for x in ast.walk(sub.value)) or any(
                        isinstance(x, ast.Constant) and isinstance(x.value, float) for x in ast.walk(sub.value)) or isinstance(sub.op, ast.Div)
                    if frac:
                        bad = bad or sub
        if bad is not None:
            rep.violated('R-DTYPE', key, where(f, bad), '`%s` accumulates fractions in place into `%s`, which is the argument after integer-preserving operations only (abs, //, floor): for whole-degree '
                         'values held in an integer array (numpy.array([150, -35, 0, 258])) it is an integer array and numpy raises UFuncTypeError (same-kind casting) - the scalar twin accepts '
                         'such values' % (stmt_text(bad)[:50], bad.target.id), expected='a new array: x = degree + minute / 60 + ...', actual=stmt_text(bad)[:60])
        else:
            rep.holds('R-DTYPE', key, where(f, f.node), '%s builds its result as a new array (no in-place accumulation into an array of the argument\'s element type)' % name, work=False)


def threshold_sibling_rule(repo, rep):
    """the vectorised converters switch their resolution at the same magnitude as their scalar twins (from 512 degrees up a double no longer
    resolves the 13th decimal of an HP value).  Every comparison of the argument's magnitude - or of its whole degrees - with a constant is
    brought to the form "|x| >= T" / "|x| > T" (whole degrees d: d > c means |x| >= c + 1) and the sets of the two functions must agree:
    `degree > 512` treats 512.18 as a small angle, rounds its seconds to 9 decimals and prints 512.1059999999997 for 512 10 59.999999996."""
    m = repo.module('geodepy.angles')

    def thresholds(f):
        p0 = f.params[0].name
        kind = {}
        quot = set()

        def is_mag(e):
            return (isinstance(e, ast.Call) and (getattr(e.func, 'id', '') or getattr(e.func, 'attr', '')) in ('abs', 'fabs', 'absolute') and e.args
                    and isinstance(e.args[0], ast.Name) and e.args[0].id == p0) or (isinstance(e, ast.Name) and kind.get(e.id) == 'mag')
        for st in ast.walk(f.node):
            if isinstance(st, ast.Assign) and len(st.targets) == 1:
                t, v = st.targets[0], st.value
                if isinstance(t, ast.Name) and is_mag(v):
                    kind[t.id] = 'mag'
                if isinstance(t, ast.Name) and isinstance(v, ast.BinOp) and isinstance(v.op, ast.FloorDiv) and is_mag(v.left) and isinstance(v.right, ast.Constant) and v.right.value == 1:
                    kind[t.id] = 'deg'
                if isinstance(t, ast.Name) and isinstance(v, ast.Call) and getattr(v.func, 'id', getattr(v.func, 'attr', '')) in ('int', 'floor', 'trunc') and v.args and is_mag(v.args[0]):
                    kind[t.id] = 'deg'
                if isinstance(t, ast.Tuple) and len(t.elts) == 2 and isinstance(v, ast.Call) and getattr(v.func, 'id', '') == 'divmod' and len(v.args) == 2 and isinstance(t.elts[0], ast.Name):
                    a0 = v.args[0]
                    if isinstance(a0, ast.BinOp) and isinstance(a0.op, ast.Mult) and (is_mag(a0.left) or is_mag(a0.right)):
                        quot.add(t.elts[0].id)          # whole minutes (x 3600 / 60) or whole degree-minutes
                    elif isinstance(a0, ast.Name) and a0.id in quot:
                        kind[t.elts[0].id] = 'deg'
        out = set()
        sites = []
        for c in ast.walk(f.node):
            if isinstance(c, ast.Compare) and len(c.ops) == 1 and isinstance(c.comparators[0], ast.Constant) and isinstance(c.comparators[0].value, (int, float)) and c.comparators[0].value >= 100:
                k = 'mag' if is_mag(c.left) else (kind.get(c.left.id) if isinstance(c.left, ast.Name) else None)
                if k is None:
                    continue
                cv = c.comparators[0].value
                op = type(c.ops[0])
                if k == 'mag':
                    t = {ast.Lt: (cv, 'ge'), ast.GtE: (cv, 'ge'), ast.LtE: (cv, 'gt'), ast.Gt: (cv, 'gt')}.get(op)
                else:
                    t = {ast.Lt: (cv, 'ge'), ast.GtE: (cv, 'ge'), ast.LtE: (cv + 1, 'ge'), ast.Gt: (cv + 1, 'ge')}.get(op)
                if t is not None:
                    out.add(t)
                    sites.append((c, t))
        return out, sites
    for name, f in sorted(m.functions.items()):
        if not name.endswith('_v') or not f.params or name[:-2] not in m.functions:
            continue
        g = m.functions[name[:-2]]
        tv, sites_v = thresholds(f)
        ts, sites_s = thresholds(g)
        # helpers of the same module that are handed the argument itself (hp2dec reads its digits through _hp_decimals)
        for h_ in (f, g):
            for c in ast.walk(h_.node):
                if isinstance(c, ast.Call) and isinstance(c.func, ast.Name) and c.func.id in m.functions and c.func.id not in (f.qualname, g.qualname) and c.args \
                        and isinstance(c.args[0], ast.Name) and c.args[0].id == h_.params[0].name and m.functions[c.func.id].params:
                    t2, s2 = thresholds(m.functions[c.func.id])
                    if h_ is f:
                        tv, sites_v = tv | t2, sites_v + s2
                    else:
                        ts, sites_s = ts | t2, sites_s + s2
        key = 'R-SIBLING::geodepy/angles.py::%s::resolution-threshold' % name
        if not ts and not tv:
            rep.holds('R-SIBLING', key, where(f, f.node), '%s and %s switch their resolution at no magnitude' % (name, g.qualname), work=False)
        elif tv == ts:
            rep.holds('R-SIBLING', key, where(f, sites_v[0][0]), '%s switches its resolution where %s does: %s' % (name, g.qualname, sorted(ts)))
        else:
            odd = [sv_ for sv_ in sites_v if sv_[1] not in ts]
            nd = odd[0][0] if odd else f.node
            rep.violated('R-SIBLING', key, where(f, nd), '%s switches its resolution at |x| %s, its scalar twin %s at |x| %s%s: between the two thresholds the vectorised result keeps a '
                         'decimal the double does not resolve (dec2hp_v of 512 10 59.999999996 prints 512.1059999999997, which reads as 60 seconds and is refused by hp2dec)'
                         % (name, ', '.join('%s %s' % ('>=' if s_ == 'ge' else '>', c_) for c_, s_ in sorted(tv)) or 'nowhere', g.qualname,
                            ', '.join('%s %s' % ('>=' if s_ == 'ge' else '>', c_) for c_, s_ in sorted(ts)) or 'nowhere', (' (`%s`)' % stmt_text(nd)) if odd else ''),
                         expected=str(sorted(ts)), actual=str(sorted(tv)))


def vector_validator_rule(repo, rep):
    """the vectorised HP-to-decimal conversion is an HP-to-decimal conversion: a minutes or seconds field of 60 or more must be rejected with an
    error as hp2dec does (sibling rule), not silently carried into the degrees.  Structural: hp2dec_v raises under a test of both fields."""
    m = repo.module('geodepy.angles')
    f = m.functions.get('hp2dec_v')
    key = 'R-SIBLING::geodepy/angles.py::hp-validators::hp2dec_v'
    if f is None:
        rep.undecided('R-SIBLING', key, 'geodepy/angles.py:1', 'hp2dec_v not found')
        return
    rep.analysed(f)
    # the two fields: names bound by the divmod split
    fields = set()
    for n in ast.walk(f.node):
        if isinstance(n, ast.Assign) and isinstance(n.targets[0], ast.Tuple) and isinstance(n.value, ast.Call) and getattr(n.value.func, 'id', '') == 'divmod':
            for t in n.targets[0].elts:
                if isinstance(t, ast.Name):
                    fields.add(t.id)
    tested = set()
    for n in ast.walk(f.node):
        if isinstance(n, ast.If) and any(isinstance(b, ast.Raise) for b in n.body):
            for c in ast.walk(n.test):
                if isinstance(c, ast.Compare) and len(c.ops) == 1 and isinstance(c.ops[0], (ast.GtE, ast.Gt)) and isinstance(c.comparators[0], ast.Constant):
                    for x in ast.walk(c.left):
                        if isinstance(x, ast.Name) and x.id in fields:
                            tested.add(x.id)
    if len(tested) >= 2:
        rep.holds('R-SIBLING', key, where(f, f.node), 'hp2dec_v raises under a test of its minutes and seconds fields (%s)' % ', '.join(sorted(tested)))
        # ... and the fields it tests are cut at the resolution the scalar reader uses: below 512 degrees an HP value has 13 decimals
        # (10 of the value scaled by 1000); cut at 9, seconds of 59.999999999 become 60 and a VALID value is rejected
        key2 = 'R-FORMAT::geodepy/angles.py::hp2dec_v::validation-places'
        defs = {}
        for n in ast.walk(f.node):
            if isinstance(n, ast.Assign):
                for t in n.targets:
                    for x in ast.walk(t):
                        if isinstance(x, ast.Name):
                            defs.setdefault(x.id, []).append(n)
        test_line = min(n.lineno for n in ast.walk(f.node) if isinstance(n, ast.If) and any(isinstance(b, ast.Raise) for b in n.body))
        reach, todo = set(), list(tested)
        rounds = []
        while todo:
            v = todo.pop()
            if v in reach:
                continue
            reach.add(v)
            for st in defs.get(v, []):
                if st.lineno >= test_line:
                    continue
                for x in ast.walk(st.value):
                    if isinstance(x, ast.Name) and x.id not in reach:
                        todo.append(x.id)
                    if isinstance(x, ast.Call) and isinstance(x.func, ast.Attribute) and x.func.attr == 'round' and x.args and isinstance(x.args[0], ast.Constant):
                        rounds.append(x.args[0].value)
        # the other way to the digits: the exact fraction hp - floor(hp) times 10**k, rounded to an integer
        frac_k = None
        mentions_512 = False
        for v in reach:
            for st in defs.get(v, []):
                if st.lineno >= test_line:
                    continue
                for x in ast.walk(st.value):
                    if isinstance(x, ast.Constant) and x.value == 512:
                        mentions_512 = True
                    if isinstance(x, ast.BinOp) and isinstance(x.op, ast.Pow) and isinstance(x.left, ast.Constant) and x.left.value in (10, 10.0):
                        b_ = _small_bound(x.right, defs)
                        if b_ is not None and (frac_k is None or b_[1] > frac_k[1]):
                            frac_k = b_
        whole_split = any(isinstance(x, ast.BinOp) and isinstance(x.op, ast.FloorDiv) and isinstance(x.right, ast.Constant) and x.right.value == 1 for x in ast.walk(f.node)) or \
            any(isinstance(x, ast.Call) and getattr(x.func, 'attr', getattr(x.func, 'id', '')) in ('floor', 'trunc') for x in ast.walk(f.node))
        # the choice between 13 and 12 decimals is made PER ELEMENT: a reduction over the array (.all() / .any() / max) or a Python
        # conditional picks one resolution for all of them - one element of 512 degrees or more makes a 13-decimal value next to it
        # validate at 12, where seconds of 59.999999999 round to 60
        reduced = None
        for v in reach:
            for st in defs.get(v, []):
                if st.lineno >= test_line:
                    continue
                for x in ast.walk(st.value):
                    if isinstance(x, ast.Call) and getattr(x.func, 'attr', getattr(x.func, 'id', '')) in ('all', 'any', 'max', 'min', 'amax', 'amin') and any(
                            isinstance(y, ast.Constant) and y.value == 512 for y in ast.walk(x)):
                        reduced = x
                    if isinstance(x, ast.IfExp) and any(isinstance(y, ast.Constant) and y.value == 512 for y in ast.walk(x.test)):
                        reduced = reduced or x
        if not rounds and frac_k is not None and whole_split and reduced is not None:
            rep.violated('R-FORMAT', key2, where(f, reduced), 'the number of decimals read is chosen ONCE for the whole array (`%s`): with one element of 512 degrees or more every element is '
                         'validated at 12 decimals - hp2dec_v(numpy.array([0.0059999999999, 600.0])) rejects the first value (seconds 59.999999999), which is valid and accepted on its own' % stmt_text(reduced)[:60],
                         expected='the resolution chosen element by element (12 + (mag < 512))', actual=stmt_text(reduced)[:80])
        elif not rounds and frac_k is not None and whole_split:
            if frac_k == (12, 13) and mentions_512:
                rep.holds('R-FORMAT', key2, where(f, f.node), 'the validated fields are the digits of the exact fraction hp - floor(hp), read at 13 decimals below 512 degrees and 12 from there: '
                          'the resolution hp2dec reads its decimal rendering with')
            elif frac_k[1] > 13:
                rep.violated('R-FORMAT', key2, where(f, f.node), 'hp2dec_v reads %d decimal digits of the fraction: more than a double near 512 degrees holds (13)' % frac_k[1],
                             expected='13 decimals below 512 degrees, 12 from there', actual='%s decimals' % (frac_k,))
            else:
                rep.violated('R-FORMAT', key2, where(f, f.node), 'hp2dec_v validates the digits of the fraction at %s decimals for every magnitude: below 512 degrees an HP value carries 13 '
                             '(seconds of 59.999999999 are valid and would round to 60 at 12), from 512 degrees the double resolves 12' % (frac_k,),
                             expected='13 decimals below 512 degrees, 12 from there', actual='%s decimals' % (frac_k,))
        elif rounds:
            # fields validated on a rounded PRODUCT abs(hp) * 1000: the product is not exact, and whatever the number of decimals kept some
            # valid values are pushed over a field boundary
            if max(rounds) >= 10:
                rep.violated('R-FORMAT', key2, where(f, f.node), 'hp2dec_v validates fields cut from the rounded product abs(hp) * 1000 at %d decimals: from 262.144 degrees up the product times '
                             '1e10 passes 2^51 and the rounding lifts a seconds field of 59.999999999 to 60 - hp2dec_v(numpy.array([262.3059999999999])) raises although the value is valid '
                             'HP (hp2dec returns 262.51666666666637)' % max(rounds), expected='the digits of the exact fraction hp - floor(hp), 13 decimals below 512 degrees',
                             actual='.round(%d) of the scaled value' % max(rounds))
            else:
                rep.violated('R-FORMAT', key2, where(f, f.node), 'hp2dec_v validates fields cut at %d decimals of the scaled value (12 decimals of the HP value): hp2dec_v(numpy.array([12.3459999999999])) - '
                             'minutes 34, seconds 59.999999999, valid and accepted by hp2dec - is rejected because the seconds round to 60' % max(rounds),
                             expected='13 decimals of the HP value below 512 degrees', actual='.round(%d)' % max(rounds))
        else:
            rep.undecided('R-FORMAT', key2, where(f, f.node), 'no rounding found on the way to the validated fields')
    else:
        rep.violated('R-SIBLING', key, where(f, f.node), 'hp2dec_v never rejects an HP value: hp2dec_v(numpy.array([123.7])) returns 124.1666... (70 minutes carried into the degrees) where '
                     'hp2dec(123.7) raises "Invalid HP Notation" - the property has minutes / seconds fields of 60 or more rejected by the HP-to-decimal conversion',
                     expected='raise ValueError when any minutes or seconds field is 60 or more', actual='no raising test on %s' % (', '.join(sorted(fields)) or 'the fields'))


def zero_angle_rules(repo, rep):
    """an angle of exactly zero is inside the domain (the equator, Greenwich, a whole-degree value of 0): no conversion divides by the angle
    or its magnitude.  Every module-level conversion function with one parameter is evaluated on a symbolic angle x in [-720, 720] (array
    methods it does not model stay opaque - the divisions are met all the same) and the division rule looks at x = 0."""
    from ..symval import Evaluator, DIV_EVENTS
    from . import common
    m = repo.module('geodepy.angles')
    del DIV_EVENTS[:]
    funcs = []
    for name, f in sorted(m.functions.items()):
        if len(f.params) != 1 or name.startswith('_') or '2' not in name:
            continue
        ev = Evaluator(repo, opaque=set(), inline_depth=3)
        try:
            ev.call_function(f, {f.params[0].name: Rat.sym('x')})
        except Exception:
            continue
        funcs.append(('geodepy.angles', name))
    common.division_rule(repo, rep, funcs, {'x': (-720.0, 720.0)})


def controls(repo):
    out = []
    out.append(('dms-dec-factor', text_variant(repo, 'geodepy/angles.py', "            return -(self.degree + (self.minute / 60) + (self.second / 3600))",
                                             "            return -(self.degree + (self.minute / 60) + (self.second / 360))"), 'DMSAngle.dec::sign'))
    out.append(('gon-composition', text_variant(repo, 'geodepy/angles.py', "    return dec2hp(gon2dec(gon))", "    return dec2hp(gon)"), 'gon2hp'))
    # minutes of a negated DMS angle left positive: only zero-degree angles with whole minutes show it
    out.append(('neg-minutes', text_variant(repo, 'geodepy/angles.py', "            return DMSAngle(-self.degree, -self.minute, -self.second)", "            return DMSAngle(-self.degree, self.minute, -self.second)"), 'value-table'))
    # the number of decimals chosen once for the whole array
    out.append(('places-per-array', text_variant(repo, 'geodepy/angles.py', "    places = 12 + (mag < 512)\n", "    places = 13 if (mag < 512).all() else 12\n"), 'validation-places'))
    out.append(('vector-threshold-moved', text_variant(repo, 'geodepy/angles.py', '    big = abs(dec) >= 512\n', '    big = abs(dec) > 512\n'), 'dec2hp_v::resolution-threshold'))
    return out
