"""C16 - local-frame rotations, covariance rotation, error measures, coverage table (statistics.py, geodesy.enu2xyz/xyz2enu)."""
import ast
from fractions import Fraction as F
from .. import alg, tables
from ..alg import Rat, C
from ..model import AnalysisError, ModuleConst, stmt_text
from ..symval import Evaluator, Tup, Mat, NONE, Bool
from ..symcheck import Oracle, check_equal, compare_values, show, flatten
from ..rules import where
from . import common
from ..mutate import replace_in_function, substitute, text_variant

META = {
    'level': 'other',
    'rule_text': 'rule instances: R^T R = I (9 entries), det R = +1, three columns of R = east/north/up; covariance rotations '
                 '(3x3 and 3x1 in both directions) and vector rotations against R^T V R / R V R^T / R v / R^T v; shape guards; error '
                 'ellipse formulas; the 9 elements of the relative covariance and the four results of relative_error; 120 table entries '
                 'against Student-t quantiles computed in the checker; k_val95 index logic for every integer -5..200',
    'explanation': 'Static: the numpy-literal code of statistics.py is abstractly evaluated over symbolic 3x3 matrices into exact normal forms '
                   '(sin^2+cos^2=1 holds by construction), the coverage table is read from the syntax tree and compared with quantiles '
                   'computed independently (incomplete beta function, pure python), and k_val95 is constant-folded for every integer in '
                   'the quantifier. Decides orthonormality, handedness, the transposition pattern (hence mutual inverses, symmetry, '
                   'eigenvalue and trace preservation by form), the ellipse and relative-error algebra and the whole table. '
                   'Also: no square root of error_ellipse receives a negative argument on eight singular (rank-one) witness matrices '
                   '(IEEE evaluation of the straight-line body by the checker\'s own interpreter); no definite-only linear algebra on the covariances; '
                   'in-place dtype rule. Other ill-conditioned floating-point behaviour is not decided.',
}

ORACLE = '''
from math import sin, cos, sqrt, atan2, radians, degrees
import numpy as np

def rot(lat, lon):
    p = radians(lat)
    l = radians(lon)
    east = (-sin(l), cos(l), 0.0)
    north = (-sin(p) * cos(l), -sin(p) * sin(l), cos(p))
    up = (cos(p) * cos(l), cos(p) * sin(l), sin(p))
    return ((east[0], north[0], up[0]), (east[1], north[1], up[1]), (east[2], north[2], up[2]))

def rotm(lat, lon):
    r = rot(lat, lon)
    return np.array([[r[0][0], r[0][1], r[0][2]], [r[1][0], r[1][1], r[1][2]], [r[2][0], r[2][1], r[2][2]]])

def relative(lat, lon, var1, var2, cov12):
    R = rotm(lat, lon)
    a = R.transpose() @ var1 @ R
    b = R.transpose() @ var2 @ R
    c = R.transpose() @ cov12 @ R
    rel = np.zeros((3, 3))
    for i in range(3):
        for j in range(3):
            if i == j:
                rel[i, j] = a[i, j] + b[i, j] - 2 * c[i, j]
            else:
                rel[i, j] = a[i, j] + b[i, j] - c[i, j] - c[j, i]
    e = ellipse(rel[0, 0], rel[0, 1], rel[1, 1])
    return e[0], e[1], e[2], rel[2, 2] ** 0.5, rel[1, 0], rel[2, 0], rel[2, 1], rel[0, 1], rel[0, 2], rel[1, 2]

def ellipse(v00, v01, v11):
    z = sqrt((v00 - v11) ** 2 + 4 * v01 ** 2)
    a = sqrt(0.5 * (v00 + v11 + z))
    b = sqrt(0.5 * (v00 + v11 - z))
    o = 90 - degrees(0.5 * atan2((2 * v01), (v00 - v11)))
    return a, b, o
'''


def sym_mat(name, r=3, c=3, symmetric=False):
    """symmetric: a covariance matrix - the property quantifies over symmetric matrices, so an implementation may use either triangle"""
    if symmetric:
        return Mat([[Rat.sym('%s%d%d' % (name, min(i, j), max(i, j))) for j in range(c)] for i in range(r)], (r, c))
    return Mat([[Rat.sym('%s%d%d' % (name, i, j)) for j in range(c)] for i in range(r)], (r, c))


def mat_mul(A, B):
    n, k, m = len(A), len(B), len(B[0])
    return [[alg.sum_rats([alg.define(A[i][t] * B[t][j]) for t in range(k)]) for j in range(m)] for i in range(n)]


def transpose(A):
    return [[A[i][j] for i in range(len(A))] for j in range(len(A[0]))]


def ref_rotation(orc):
    r = orc.call('rot', lat=Rat.sym('lat'), lon=Rat.sym('lon'))
    return [[r.items[i].items[j] for j in range(3)] for i in range(3)]


def compare_matrix(rep, rule, key, w, got, want, what):
    """got: Mat or nested; want nested list"""
    if not isinstance(got, Mat):
        rep.undecided(rule, key, w, what + ': result is not an array (%s)' % show(got, 2, 120))
        return
    shp = (len(want), len(want[0]))
    if got.shape != shp:
        rep.violated(rule, key + '::shape', w, what + ': shape %s instead of %s' % (got.shape, shp), expected=str(shp), actual=str(got.shape))
        return
    for i in range(shp[0]):
        for j in range(shp[1]):
            check_equal(rep, rule, key + '[%d,%d]' % (i, j), w, got.data[i][j], want[i][j], what + ' element (%d,%d)' % (i, j))


def rotation_rules(repo, rep, orc):
    f = repo.func('geodepy.statistics', 'rotation_matrix')
    rep.analysed(f)
    w = where(f, f.node)
    ev = Evaluator(repo)
    ps = [p.name for p in f.params]
    R = ev.call_function(f, {ps[0]: Rat.sym('lat'), ps[1]: Rat.sym('lon')})
    base = 'R-TABLE::geodepy/statistics.py::rotation_matrix::'
    if not isinstance(R, Mat) or R.shape != (3, 3):
        rep.undecided('R-TABLE', base + 'shape', w, 'rotation_matrix does not evaluate to a 3x3 array')
        return None
    Rr = ref_rotation(orc)
    compare_matrix(rep, 'R-TABLE', base + 'columns', w, R, Rr, 'columns are east (-sin l, cos l, 0), north (-sin p cos l, -sin p sin l, cos p), up (cos p cos l, cos p sin l, sin p)')
    # orthonormality and handedness of the code's own matrix (exact)
    D = R.data
    RtR = mat_mul(transpose(D), D)
    ok = True
    for i in range(3):
        for j in range(3):
            want = C(1 if i == j else 0)
            r = alg.decide_equal(RtR[i][j], want)
            key = 'R-TABLE::geodepy/statistics.py::rotation_matrix::RtR[%d,%d]' % (i, j)
            if r == 'equal':
                rep.holds('R-TABLE', key, w, '(R^T R)[%d,%d] = %d identically in lat, lon' % (i, j, 1 if i == j else 0))
            elif r == 'different':
                rep.violated('R-TABLE', key, w, 'the rotation matrix is not orthonormal: (R^T R)[%d,%d] = %s' % (i, j, show(RtR[i][j], 2, 200)),
                             expected=str(1 if i == j else 0), actual=show(RtR[i][j], 2, 200))
            else:
                rep.undecided('R-TABLE', key, w, '(R^T R)[%d,%d] not decided' % (i, j))
    det = (D[0][0] * (D[1][1] * D[2][2] - D[1][2] * D[2][1]) - D[0][1] * (D[1][0] * D[2][2] - D[1][2] * D[2][0])
           + D[0][2] * (D[1][0] * D[2][1] - D[1][1] * D[2][0]))
    r = alg.decide_equal(det, C(1))
    key = 'R-TABLE::geodepy/statistics.py::rotation_matrix::det'
    if r == 'equal':
        rep.holds('R-TABLE', key, w, 'det R = +1 identically (right-handed)')
    elif r == 'different':
        rep.violated('R-TABLE', key, w, 'det R = %s, not +1: the local frame is not a right-handed rotation' % show(det, 2, 200), expected='1', actual=show(det, 2, 200))
    else:
        rep.undecided('R-TABLE', key, w, 'determinant not decided')
    return Rr


def vcv_rules(repo, rep, Rr):
    V = sym_mat('v', symmetric=True)
    Vd = [[V.data[i][j] for j in range(3)] for i in range(3)]
    col = sym_mat('c', 3, 1)
    diag = [[col.data[i][0] if i == j else C(0) for j in range(3)] for i in range(3)]
    for fname, left, right, txt in (('vcv_cart2local', transpose(Rr), Rr, 'R^T V R'), ('vcv_local2cart', Rr, transpose(Rr), 'R V R^T')):
        f = repo.func('geodepy.statistics', fname)
        rep.analysed(f)
        w = where(f, f.node)
        ps = [p.name for p in f.params]
        ev = Evaluator(repo)
        got = ev.call_function(f, {ps[0]: sym_mat('v', symmetric=True), ps[1]: Rat.sym('lat'), ps[2]: Rat.sym('lon')})
        want = mat_mul(mat_mul(left, Vd), right)
        compare_matrix(rep, 'R-SIBLING', 'R-SIBLING::geodepy/statistics.py::%s::3x3' % fname, w, got, want, '%s = %s' % (fname, txt))
        ev = Evaluator(repo)
        got = ev.call_function(f, {ps[0]: sym_mat('c', 3, 1), ps[1]: Rat.sym('lat'), ps[2]: Rat.sym('lon')})
        full = mat_mul(mat_mul(left, diag), right)
        want = [[full[i][i]] for i in range(3)]
        compare_matrix(rep, 'R-SIBLING', 'R-SIBLING::geodepy/statistics.py::%s::3x1' % fname, w, got, want,
                       '%s of a 3x1 variance column = diagonal of %s with V = diag(column)' % (fname, txt))
        # shape guards: anything but 3x1 / 3x3 raises
        for shp in ((3, 2), (2, 3), (4, 4)):
            ev = Evaluator(repo)
            got = ev.call_function(f, {ps[0]: sym_mat('s', shp[0], shp[1]), ps[1]: Rat.sym('lat'), ps[2]: Rat.sym('lon')})
            key = 'R-GUARD::geodepy/statistics.py::%s::shape%dx%d' % (fname, shp[0], shp[1])
            from ..symval import NoneV
            if isinstance(got, NoneV) or getattr(ev, 'raised', None):
                # (a raise reached with no symbolic condition open - in the function itself or in a helper it hands the matrix to)
                rep.holds('R-GUARD', key, w, 'a %dx%d input raises (no value is returned)' % shp)
            else:
                rep.violated('R-GUARD', key, w, 'a %dx%d input is not rejected' % shp, expected='ValueError', actual=show(got, 2, 100))
    # vectors
    vec = [[Rat.sym('e')], [Rat.sym('n')], [Rat.sym('u')]]
    for fname, M, txt in (('enu2xyz', Rr, 'R (e, n, u)^T'), ('xyz2enu', transpose(Rr), 'R^T (x, y, z)^T')):
        f = repo.func('geodepy.geodesy', fname)
        rep.analysed(f)
        w = where(f, f.node)
        ps = [p.name for p in f.params]
        ev = Evaluator(repo)
        got = ev.call_function(f, {ps[0]: Rat.sym('lat'), ps[1]: Rat.sym('lon'), ps[2]: Rat.sym('e'), ps[3]: Rat.sym('n'), ps[4]: Rat.sym('u')})
        want = mat_mul(M, vec)
        if not isinstance(got, Tup) or len(got.items) != 3:
            rep.undecided('R-SIBLING', 'R-SIBLING::geodepy/geodesy.py::%s::shape' % fname, w, '%s does not return a triple' % fname)
            continue
        for i in range(3):
            check_equal(rep, 'R-SIBLING', 'R-SIBLING::geodepy/geodesy.py::%s::[%d]' % (fname, i), w, got.items[i], want[i][0], '%s = %s, component %d' % (fname, txt, i))


def ellipse_rules(repo, rep, orc, Rr):
    f = repo.func('geodepy.statistics', 'error_ellipse')
    rep.analysed(f)
    w = where(f, f.node)
    ev = Evaluator(repo)
    V = sym_mat('v', symmetric=True)
    got = ev.call_function(f, {f.params[0].name: V})
    # the eigenvalues of the positive semi-definite 2x2 block are >= 0 in exact arithmetic: a clamp max(., 0) under the root is the identity
    # of the exact model (it is there for rounding - and the boundary rule below asks for it)
    from ..symcheck import strip_floor_clamps
    got = strip_floor_clamps(got)
    ref = orc.call('ellipse', v00=V.data[0][0], v01=V.data[0][1], v11=V.data[1][1])
    names = ['semi-major', 'semi-minor', 'orientation']
    texts = ['a = sqrt((v00 + v11 + sqrt((v00-v11)^2 + 4 v01^2))/2) (larger eigenvalue of the 2x2 block)',
             'b = sqrt((v00 + v11 - sqrt(...))/2) (smaller eigenvalue)', 'orientation = 90 - degrees(atan2(2 v01, v00 - v11)/2)']
    if isinstance(got, Tup) and len(got.items) == 3:
        for i in range(3):
            check_equal(rep, 'R-FORMULA', 'R-FORMULA::geodepy/statistics.py::error_ellipse::%s' % names[i], w, got.items[i], ref.items[i], texts[i])
    else:
        rep.undecided('R-FORMULA', 'R-FORMULA::geodepy/statistics.py::error_ellipse::shape', w, 'error_ellipse does not return a triple')
    # singular covariances are inside the domain: rank-one witnesses outer(w, w) (+ an up variance)
    wit = []
    for v00, v01, v11 in ((1.44, -1.32, 1.21), (0.09, 0.21, 0.49), (0.36, 0.66, 1.21), (0.01, 0.09, 0.81), (4.0, -6.0, 9.0), (1.0, 1.0, 1.0), (2.25, 1.95, 1.69), (0.0169, -0.0091, 0.0049)):
        # the squares and the product of two decimals: exactly singular as decimals, a rounding away from it as doubles
        wit.append(('vcv = [[%g, %g, 0], [%g, %g, 0], [0, 0, 1]] (rank one)' % (v00, v01, v01, v11), [[v00, v01, 0.0], [v01, v11, 0.0], [0.0, 0.0, 1.0]]))
    common.sqrt_boundary_rule(repo, rep, 'geodepy.statistics', 'error_ellipse', f.params[0].name, wit, 'random symmetric PSD matrices including singular ones')
    # the other degenerate set: a circular block (equal eigenvalues, discriminant zero).  Witnesses a few ulps off it, as an isotropic
    # covariance rotated into the local frame arrives
    from decimal import Decimal as D, getcontext
    getcontext().prec = 60

    def ref_axes(m):
        v00, v01, v11 = D(m[0][0]), D(m[0][1]), D(m[1][1])
        z = ((v00 - v11) ** 2 + 4 * v01 ** 2).sqrt()
        return (float(((v00 + v11 + z) / 2).sqrt()), float(max((v00 + v11 - z) / 2, D(0)).sqrt()), None)
    circ = []
    for s_ in (4e-4, 1.0, 2.5e-5, 0.0169):
        for d_, c_ in ((1e-9, 0.0), (3e-10, 2e-10), (-2e-12, 1e-12), (5e-14, -3e-14), (2e-16, 0.0), (0.0, 1e-13), (-4e-16, 2e-16)):
            v00, v11, v01 = s_, s_ * (1 + d_), s_ * c_
            circ.append(('vcv = [[%.17g, %.3g, 0], [%.3g, %.17g, 0], [0, 0, 1]] (circular to %.0e)' % (v00, v01, v01, v11, max(abs(d_), abs(c_))),
                         [[v00, v01, 0.0], [v01, v11, 0.0], [0.0, 0.0, 1.0]]))
    common.float_accuracy_rule(repo, rep, 'geodepy.statistics', 'error_ellipse', f.params[0].name, circ, ref_axes, 1e-12, 'accuracy-on-a-circular-block',
                               'an isotropic covariance rotated into the local frame')
    common.unclamped_root_rule(repo, rep, 'geodepy.statistics', 'relative_error', 'a covariance without an up component')
    # relative error
    g = repo.func('geodepy.statistics', 'relative_error')
    rep.analysed(g)
    wg = where(g, g.node)
    ev = Evaluator(repo)
    ps = [p.name for p in g.params]
    A, B, Cc = sym_mat('a', symmetric=True), sym_mat('b', symmetric=True), sym_mat('k')
    got = strip_floor_clamps(ev.call_function(g, {ps[0]: Rat.sym('lat'), ps[1]: Rat.sym('lon'), ps[2]: A, ps[3]: B, ps[4]: Cc}))
    ref = orc.call('relative', lat=Rat.sym('lat'), lon=Rat.sym('lon'), var1=sym_mat('a', symmetric=True), var2=sym_mat('b', symmetric=True), cov12=sym_mat('k'))
    want = list(ref.items[:4])
    names = ['semi-major', 'semi-minor', 'orientation', 'up']
    if isinstance(got, Tup) and len(got.items) == 4:
        for i in range(4):
            check_equal(rep, 'R-AFFINE', 'R-AFFINE::geodepy/statistics.py::relative_error::%s' % names[i], wg, got.items[i], want[i],
                        'relative error %s from rel = var1 + var2 - cov12 - cov12^T in the local frame at (lat, lon)' % names[i])
    else:
        rep.undecided('R-AFFINE', 'R-AFFINE::geodepy/statistics.py::relative_error::shape', wg, 'relative_error does not return four values')


def table_rules(repo, rep):
    m = repo.module('geodepy.statistics')
    f = repo.func('geodepy.statistics', 'k_val95')
    rep.analysed(f)
    ev = Evaluator(repo)
    tab = None
    tname = None
    # the table k_val95 indexes
    for n in ast.walk(f.node):
        if isinstance(n, ast.Subscript) and isinstance(n.value, ast.Name):
            g = repo.resolve_global(m, n.value.id)
            if isinstance(g, ModuleConst):
                v = ev.global_value(m, n.value.id)
                if isinstance(v, Tup) and len(v.items) > 10:
                    tab, tname, tnode = v, n.value.id, g.stmt
    if tab is None:
        raise AnalysisError('anchor vanished: coverage-factor table indexed by k_val95')
    w = '%s:%d' % (m.relpath, tnode.lineno)
    key = 'R-TABLE::geodepy/statistics.py::%s::length' % tname
    if len(tab.items) == 120:
        rep.holds('R-TABLE', key, w, 'table has 120 entries')
    else:
        rep.violated('R-TABLE', key, w, 'table has %d entries, not 120' % len(tab.items), expected='120', actual=str(len(tab.items)))
    vals = []
    for i, x in enumerate(tab.items):
        fr = x.as_fraction() if isinstance(x, Rat) else None
        vals.append(fr)
        key = 'R-TABLE::geodepy/statistics.py::%s[%d]' % (tname, i)
        if fr is None:
            rep.undecided('R-TABLE', key, w, 'entry %d is not a literal' % i)
            continue
        t = tables.t_quantile_975(i + 1)
        if abs(float(fr) - t) <= 0.5e-5 + 1e-8:
            rep.holds('R-TABLE', key, w, 'dof %d: %s = t_0.975 (%.7f) to five decimals' % (i + 1, float(fr), t))
        else:
            rep.violated('R-TABLE', key, w, 'coverage factor for %d degrees of freedom is %s; the two-sided 95 %% Student-t quantile is %.6f' % (i + 1, float(fr), t),
                         expected='%.5f' % t, actual=str(float(fr)))
    # index logic, constant-folded for every integer in the quantifier
    bad = []
    und = 0
    for k in range(-5, 201):
        ev2 = Evaluator(repo)
        got = ev2.call_function(f, {f.params[0].name: C(k)})
        g = got.as_fraction() if isinstance(got, Rat) else None
        if k < 1:
            want = vals[0]
        elif k > 120:
            want = F('1.96')
        else:
            want = vals[k - 1] if k - 1 < len(vals) else None
        if g is None:
            und += 1
        elif want is not None and g != want:
            bad.append((k, float(g), float(want)))
    key = 'R-DISPATCH::geodepy/statistics.py::k_val95::index'
    wf = where(f, f.node)
    if bad:
        rep.violated('R-DISPATCH', key, wf, 'k_val95 returns the wrong entry for dof = %s (got %s, expected %s)' % bad[0] + ('; %d more' % (len(bad) - 1) if len(bad) > 1 else ''),
                     expected='dof < 1 -> table[0]; 1..120 -> table[dof-1]; > 120 -> 1.96', actual=str(bad[:5]))
    elif und:
        rep.undecided('R-DISPATCH', key, wf, 'k_val95 did not fold to a constant for %d of 206 integers' % und)
    else:
        rep.holds('R-DISPATCH', key, wf, 'k_val95(dof) = table[0] for dof < 1, table[dof-1] for 1..120, 1.96 above, for all 206 integers -5..200')
    # non-int raises
    ev3 = Evaluator(repo)
    got = ev3.call_function(f, {f.params[0].name: C(F(5, 2))})
    from ..symval import NoneV
    key = 'R-GUARD::geodepy/statistics.py::k_val95::non-int'
    if isinstance(got, NoneV):
        rep.holds('R-GUARD', key, wf, 'a non-integer dof raises')
    else:
        rep.violated('R-GUARD', key, wf, 'a non-integer dof is accepted', expected='TypeError', actual=show(got, 2, 80))
    rep.floor('R-TABLE', 130, '120 table entries plus rotation-matrix entries')


def _run(repo, rep):
    alg.reset()
    # the two local-frame conversions take their position in any angle notation: both must convert it (siblings agree)
    from .common import angle_param_rule
    for q in ('enu2xyz', 'xyz2enu'):
        f_ = repo.func('geodepy.geodesy', q)
        for p_ in f_.params[:2]:
            angle_param_rule(rep, f_, p_.name)
    common.typecheck_rules(repo, rep)
    rep.trust('sv/alg.py exact normal forms (circular functions expanded into exponentials: every trigonometric identity holds by construction)')
    rep.trust('Student-t quantiles: regularised incomplete beta function by continued fraction + bisection in sv/tables.py (|error| < 1e-9)')
    orc = Oracle(ORACLE)
    Rr = rotation_rules(repo, rep, orc)
    if Rr is not None:
        vcv_rules(repo, rep, Rr)
        ellipse_rules(repo, rep, orc, Rr)
    table_rules(repo, rep)


def variance_guard_rule(repo, rep):
    """a covariance with an exactly zero variance (a horizontal-only 3x3, a 3x1 column with no up component) is positive SEMI-definite and
    valid: a raising test on the diagonal may refuse negative values only.  `diag <= 0`, `not diag > 0`, `min(diag) <= 0` in front of a raise
    refuse the zero.  One instance per covariance function."""
    for q in ('vcv_local2cart', 'vcv_cart2local', 'error_ellipse', 'relative_error'):
        f = repo.func('geodepy.statistics', q)
        key = 'R-GUARD::geodepy/statistics.py::%s::zero-variance' % q
        hit = None
        for n in ast.walk(f.node):
            if not isinstance(n, ast.If) or not any(isinstance(x, ast.Raise) for st in n.body for x in ast.walk(st)):
                continue
            negated = isinstance(n.test, ast.UnaryOp) and isinstance(n.test.op, ast.Not)
            for c in ast.walk(n.test):
                if isinstance(c, ast.Compare) and len(c.ops) == 1 and isinstance(c.comparators[0], ast.Constant) and c.comparators[0].value == 0 \
                        and any(isinstance(x, ast.Call) and (getattr(x.func, 'attr', '') or getattr(x.func, 'id', '')) in ('diagonal', 'diag', 'trace') or isinstance(x, ast.Subscript)
                                for x in ast.walk(c.left)):
                    refuses_zero = isinstance(c.ops[0], ast.LtE) if not negated else isinstance(c.ops[0], ast.Gt)
                    if refuses_zero:
                        hit = (n, c)
        if hit:
            rep.violated('R-GUARD', key, where(f, hit[0]), '%s raises when `%s`: a variance of exactly zero (a covariance without an up component, one known coordinate) is refused although '
                         'such a matrix is a valid positive semi-definite covariance' % (q, stmt_text(hit[1])[:60]), expected='< 0', actual=stmt_text(hit[0].test)[:100])
        else:
            rep.holds('R-GUARD', key, where(f, f.node), 'no raise refuses a zero variance', work=False)


def exact_symmetry_guard_rule(repo, rep):
    """a covariance that comes out of a rotation (R^T V R, what vcv_cart2local returns and vcv_local2cart is then given: the round trip of the
    property) is symmetric only to the last bit.  A raising test that demands bit-exact symmetry of an argument (`array_equal(v, v.T)`,
    `(v != v.T).any()`) refuses such matrices: valid input.  One instance per covariance function."""
    def is_transpose_of(a, b):
        ta, tb = stmt_text(a), stmt_text(b)
        return tb in (ta + '.T', ta + '.transpose()', 'np.transpose(%s)' % ta, 'transpose(%s)' % ta, 'numpy.transpose(%s)' % ta)

    for q in ('vcv_local2cart', 'vcv_cart2local', 'error_ellipse', 'relative_error'):
        f = repo.func('geodepy.statistics', q)
        key = 'R-GUARD::geodepy/statistics.py::%s::bit-exact-symmetry' % q
        hit = None
        for n in ast.walk(f.node):
            if not isinstance(n, ast.If) or not any(isinstance(x, ast.Raise) for st in n.body + n.orelse for x in ast.walk(st)):
                continue
            for c in ast.walk(n.test):
                if isinstance(c, ast.Call) and (getattr(c.func, 'attr', '') or getattr(c.func, 'id', '')) in ('array_equal', 'array_equiv') and len(c.args) == 2 \
                        and (is_transpose_of(c.args[0], c.args[1]) or is_transpose_of(c.args[1], c.args[0])):
                    hit = (n, c)
                if isinstance(c, ast.Compare) and len(c.ops) == 1 and isinstance(c.ops[0], (ast.Eq, ast.NotEq)) \
                        and (is_transpose_of(c.left, c.comparators[0]) or is_transpose_of(c.comparators[0], c.left)):
                    hit = (n, c)
        if hit:
            rep.violated('R-GUARD', key, where(f, hit[0]), '%s raises unless `%s` holds bit for bit: a covariance that was itself computed by a rotation (the local matrix vcv_cart2local '
                         'returns - the round trip cart -> local -> cart of the property) is symmetric only to about one unit in the last place and is refused' % (q, stmt_text(hit[1])[:70]),
                         expected='no exact float comparison in front of a raise (a tolerance, or no test)', actual=stmt_text(hit[0].test)[:100])
        else:
            rep.holds('R-GUARD', key, where(f, f.node), 'no raise depends on bit-exact symmetry of a covariance argument', work=False)


def run(repo, rep):
    from ..symval import INPLACE_EVENTS
    del INPLACE_EVENTS[:]
    _run(repo, rep)
    # the coverage factor, the ellipse and the rotations depend on their arguments only: no table, iterator or flag at module level is
    # consumed or updated by a call
    common.state_rule(repo, rep, [('geodepy.statistics', q_) for q_ in ('k_val95', 'error_ellipse', 'relative_error', 'vcv_local2cart', 'vcv_cart2local', 'rotation_matrix')])
    exact_symmetry_guard_rule(repo, rep)
    variance_guard_rule(repo, rep)
    common.partial_call_rule(repo, rep, [('geodepy.statistics', 'vcv_local2cart'), ('geodepy.statistics', 'vcv_cart2local'), ('geodepy.statistics', 'error_ellipse'), ('geodepy.statistics', 'relative_error')], 'the covariance matrices')
    # in-place array updates met while evaluating the functions above (element type follows the caller's numbers)
    common.dtype_rule(repo, rep, [('geodepy.statistics', 'vcv_local2cart'), ('geodepy.statistics', 'vcv_cart2local'), ('geodepy.statistics', 'rotation_matrix'), ('geodepy.statistics', 'error_ellipse'), ('geodepy.statistics', 'relative_error'),
                                  ('geodepy.geodesy', 'enu2xyz'), ('geodepy.geodesy', 'xyz2enu')], helpers=True)


def controls(repo):
    out = []
    out.append(('table-digit', text_variant(repo, 'geodepy/statistics.py', '2.03452, 2.03224,', '2.03452, 2.03242,'), 'ttable_p95[33]'))
    src = repo.sources['geodepy/statistics.py']

    def untranspose(fn):
        def pred(n):
            return isinstance(n, ast.Assign) and isinstance(n.targets[0], ast.Name) and n.targets[0].id == 'vcv_cart'

        def make(n):
            # R V R^T  ->  R^T V R
            if isinstance(n.value, ast.BinOp) and isinstance(n.value.op, ast.MatMult):
                n.value = ast.parse('rot_matrix.transpose() @ vcv_local @ rot_matrix', mode='eval').body
            return n
        substitute(fn, pred, make, limit=None)
    out.append(('wrong-transpose', repo.variant({'geodepy/statistics.py': replace_in_function(src, 'vcv_local2cart', untranspose)}), 'vcv_local2cart::3x3'))
    out.append(('bit-exact-symmetry-demanded', text_variant(repo, 'geodepy/statistics.py', '        elif vcv_local.shape[1] == 3:\n            pass\n', '        elif vcv_local.shape[1] == 3:\n            if not np.array_equal(vcv_local, vcv_local.T):\n                raise ValueError(\'not symmetric\')\n'), 'vcv_local2cart::bit-exact-symmetry'))
    return out
