"""C11 - the shipped transformation catalogue (geodepy/constants.py), folded from the syntax tree."""
import ast
import re
from fractions import Fraction as F
from .. import alg
from ..alg import Rat, C
from ..model import AnalysisError, ModuleConst, stmt_text
from ..symval import Evaluator, Tup, Obj, Str, NoneV, _single_atom
from ..symcheck import check_equal, compare_values, show
from ..rules import where
from ..mutate import text_variant, replace_in_function, substitute

META = {
    'level': 'proof',
    'exhaustive': True,
    'rule_text': 'one obligation per catalogue entry (labels, literal shape), per reverse binding (exact negation of its partner), per '
                 'ordered ITRF triple (A->B, B->C, A->C) and epoch (chain consistency in exact rational arithmetic), per slot of '
                 'Transformation.__add__, __neg__ and iers2trans; the catalogue is enumerated completely from the module source',
    'explanation': 'The catalogue is data in the source: every module-level Transformation binding of geodepy/constants.py is folded, without '
                   'importing the module, through the constructor, iers2trans and __neg__ (whose bodies are abstractly evaluated, so '
                   'their unit and sign conventions are read from the code) into exact rational parameter vectors. Labels, exact '
                   'negation of reverse sets, literal shape of every entry, and consistency of every ITRF chain A->B->C with the direct '
                   'set A->C at the reference epochs are decided for all entries; epoch shifting and the IERS conversion are decided '
                   'symbolically for all inputs. Values with no redundant chain (GDA94/AGD sets, uncertainties) cannot be cross-checked.',
}

PARAMS = ['tx', 'ty', 'tz', 'sc', 'rx', 'ry', 'rz']
RATES = ['d_' + p for p in PARAMS]
# published rounding: 0.1 mm, 0.01 ppb, 0.01 mas (and per year); three rounded values in a triple -> 0.15 units
TOL = {'tx': F(15, 100000), 'ty': F(15, 100000), 'tz': F(15, 100000), 'sc': F(15, 1000000),
       'rx': F(15, 1000000), 'ry': F(15, 1000000), 'rz': F(15, 1000000)}
NAME_RE = re.compile(r'^([a-z]+[0-9]+)_to_([a-z]+[0-9]+)(_[a-z0-9_]+)?$')


def fold_catalogue(repo, ev):
    m = repo.module('geodepy.constants')
    cls = repo.cls('geodepy.constants', 'Transformation')
    out = {}
    for name, binds in m.assigns.items():
        if not NAME_RE.match(name):
            continue
        v = ev.global_value(m, name)
        if isinstance(v, Obj) and v.cls is cls:
            out[name] = (v, binds[-1][0], binds[-1][1])
        elif isinstance(v, (Tup, Str, Rat)) or isinstance(v, NoneV):
            # the name of a set bound to something that FOLDS and is not a set (a stray trailing comma makes a 1-tuple)
            NOT_A_SET.append((name, binds[-1][1], 'a tuple' if isinstance(v, Tup) else ('a string' if isinstance(v, Str) else ('None' if isinstance(v, NoneV) else 'a number'))))
        elif not isinstance(v, Obj):
            UNFOLDED.append((name, binds[-1][1]))
    return out


UNFOLDED = []
NOT_A_SET = []


def fr(v):
    return v.as_fraction() if isinstance(v, Rat) else None


def label_rules(repo, rep, cat):
    m = repo.module('geodepy.constants')
    for name, (obj, expr, st) in sorted(cat.items()):
        mm = NAME_RE.match(name)
        src, dst = mm.group(1), mm.group(2)
        w = '%s:%d' % (m.relpath, st.lineno)
        key = 'R-LABEL::geodepy/constants.py::%s' % name
        fd, td = obj.fields.get('from_datum'), obj.fields.get('to_datum')
        if not isinstance(fd, Str) or not isinstance(td, Str):
            rep.undecided('R-LABEL', key, w, 'labels are not string constants')
            continue
        if fd.s.lower() == src and td.s.lower() == dst:
            rep.holds('R-LABEL', key, w, 'from %s to %s' % (fd.s, td.s))
        else:
            rep.violated('R-LABEL', key, w, '%s is labelled from %s to %s' % (name, fd.s, td.s),
                         expected='from %s to %s' % (src.upper(), dst.upper()), actual='from %s to %s' % (fd.s, td.s))


def reverse_rules(repo, rep, cat):
    m = repo.module('geodepy.constants')
    n = 0
    for name, (obj, expr, st) in sorted(cat.items()):
        mm = NAME_RE.match(name)
        partner = '%s_to_%s%s' % (mm.group(2), mm.group(1), mm.group(3) or '')
        if partner not in cat:
            continue
        # the pair is visited from the binding defined later in the file
        if cat[partner][2].lineno > st.lineno:
            continue
        n += 1
        w = '%s:%d' % (m.relpath, st.lineno)
        key = 'R-NEG::geodepy/constants.py::%s' % name
        fwd = cat[partner][0]
        bad = []
        for p in PARAMS + RATES:
            a, b = fr(obj.fields.get(p)), fr(fwd.fields.get(p))
            if a is None or b is None:
                bad.append('%s not a constant' % p)
            elif a != -b:
                bad.append('%s: %s vs -(%s)' % (p, a, b))
        if compare_values(obj.fields.get('ref_epoch'), fwd.fields.get('ref_epoch')) != 'equal':
            bad.append('reference epochs differ')
        fa, ta = obj.fields.get('from_datum'), obj.fields.get('to_datum')
        fb, tb = fwd.fields.get('from_datum'), fwd.fields.get('to_datum')
        if not (isinstance(fa, Str) and isinstance(tb, Str) and fa.s == tb.s and ta.s == fb.s):
            bad.append('labels are not swapped')
        if bad:
            rep.violated('R-NEG', key, w, '%s is not the exact negation of %s: %s' % (name, partner, '; '.join(bad[:4])),
                         expected='negated parameters and rates, same epoch, swapped labels', actual='; '.join(bad[:6]))
        else:
            rep.holds('R-NEG', key, w, '%s carries exactly the negated parameters and rates of %s, same epoch, swapped labels' % (name, partner))
    return n


def literal_rules(repo, rep):
    """R-LITERAL: entries of the data tables are literals (optionally signed), dates, strings or names"""
    m = repo.module('geodepy.constants')
    n = 0
    for name, binds in m.assigns.items():
        for value, st in binds:
            if not isinstance(value, ast.Call):
                continue
            fn = value.func.id if isinstance(value.func, ast.Name) else None
            if fn not in ('Transformation', 'TransformationSD', 'iers2trans', 'Ellipsoid', 'Projection'):
                continue
            n += 1
            bad = []
            items = [(None, a) for a in value.args] + [(k.arg, k.value) for k in value.keywords]
            for kw, v in items:
                vv = v
                if isinstance(vv, ast.UnaryOp) and isinstance(vv.op, (ast.USub, ast.UAdd)):
                    vv = vv.operand
                if isinstance(vv, ast.Constant):
                    continue
                if isinstance(vv, ast.Name) and not isinstance(v, ast.UnaryOp):
                    continue
                if isinstance(vv, ast.Call) and isinstance(vv.func, ast.Name) and vv.func.id == 'date' and \
                        all(isinstance(a, ast.Constant) and isinstance(a.value, int) for a in vv.args) and len(vv.args) == 3:
                    continue
                bad.append('%s=%s' % (kw, stmt_text(v)))
            key = 'R-LITERAL::geodepy/constants.py::%s' % name
            w = '%s:%d' % (m.relpath, st.lineno)
            if bad:
                rep.violated('R-LITERAL', key, w, 'catalogue entry %s contains arithmetic instead of a literal: %s' % (name, ', '.join(bad)),
                             expected='numeric literal with optional sign', actual=', '.join(bad))
            else:
                rep.holds('R-LITERAL', key, w, 'all %d values of %s are literals' % (len(items), name))
    return n


def at_epoch(obj, t):
    """exact parameter vector at the date ordinal t (Julian years of 365.25 days, as __add__ uses)"""
    t0 = fr(obj.fields['ref_epoch'])
    dt = F(t - t0) / F(36525, 100)
    return dict((p, fr(obj.fields[p]) + fr(obj.fields['d_' + p]) * dt) for p in PARAMS)


def chain_rules(repo, rep, cat, ev, thorough):
    m = repo.module('geodepy.constants')
    itrf = {}
    for name, (obj, expr, st) in cat.items():
        mm = NAME_RE.match(name)
        if mm.group(3) or not (mm.group(1).startswith('itrf') and mm.group(2).startswith('itrf')):
            continue
        if any(fr(obj.fields.get(p)) is None for p in PARAMS + RATES + ['ref_epoch']):
            continue
        itrf[(mm.group(1), mm.group(2))] = (name, obj, st)
    frames = sorted(set(a for a, b in itrf) | set(b for a, b in itrf))
    all_epochs = sorted(set(fr(o.fields['ref_epoch']) for n, o, s in itrf.values()))
    n_triples = 0
    n_bad = 0
    for (A, B), (nab, oab, sab) in sorted(itrf.items()):
        for Cc in frames:
            if Cc in (A, B) or (B, Cc) not in itrf or (A, Cc) not in itrf:
                continue
            nbc, obc, sbc = itrf[(B, Cc)]
            nac, oac, sac = itrf[(A, Cc)]
            n_triples += 1
            epochs = sorted(set(fr(o.fields['ref_epoch']) for o in (oab, obc, oac))) if not thorough else all_epochs
            worst = None
            for t in epochs:
                pab, pbc, pac = at_epoch(oab, t), at_epoch(obc, t), at_epoch(oac, t)
                for p in PARAMS:
                    d = abs(pab[p] + pbc[p] - pac[p])
                    if d > TOL[p] and (worst is None or d / TOL[p] > worst[0]):
                        worst = (d / TOL[p], p, d, t)
            for p in PARAMS:
                d = abs(fr(oab.fields['d_' + p]) + fr(obc.fields['d_' + p]) - fr(oac.fields['d_' + p]))
                if d > TOL[p] and (worst is None or d / TOL[p] > worst[0]):
                    worst = (d / TOL[p], 'd_' + p, d, None)
            key = 'R-CHAIN::geodepy/constants.py::%s+%s=%s' % (nab, nbc, nac)
            w = '%s:%d' % (m.relpath, sac.lineno)
            if worst is None:
                rep.holds('R-CHAIN', key, w, 'chain consistent at %d epoch(s)' % len(epochs))
            else:
                n_bad += 1
                ep = ev.dates.get(int(worst[3])) if worst[3] is not None else None
                rep.violated('R-CHAIN', key, w, '%s followed by %s differs from %s in %s by %s (tolerance %s)%s' % (
                    nab, nbc, nac, worst[1], float(worst[2]), float(TOL[worst[1].replace('d_', '')]), ' at epoch %s' % (ep,) if ep else ''),
                    expected='%s(A->B) + %s(B->C) = %s(A->C) within the published rounding' % (worst[1], worst[1], worst[1]),
                    actual='difference %s' % float(worst[2]))
    return n_triples, len(itrf)


def suspects(rep):
    """summarise which single catalogue entry explains the inconsistent triples (information)"""
    cnt = {}
    tot = 0
    for i in rep.instances:
        if i.rule == 'R-CHAIN' and i.verdict == 'VIOLATED':
            tot += 1
            names = re.split(r'[+=]', i.key.split('::')[-1])
            for n in names:
                base = n
                mm = NAME_RE.match(n)
                # a reverse binding points at its forward definition
                cnt[frozenset((mm.group(1), mm.group(2)))] = cnt.get(frozenset((mm.group(1), mm.group(2))), 0) + 1
    if tot:
        best = sorted(cnt.items(), key=lambda kv: -kv[1])[:1]
        for k, c in best:
            if c == tot:
                rep.info('R-CHAIN', 'R-CHAIN::suspect', 'geodepy/constants.py', 'all %d inconsistent triples involve the pair %s' % (tot, ' <-> '.join(sorted(k))))


def immutable_rule(repo, rep):
    """a set of the catalogue is a VALUE: -a, a + date build new sets.  A method other than __init__ that assigns to a field of `self` (an
    in-place `__iadd__` that shifts the epoch) changes the shipped constant whenever a caller writes `trans += epoch` on it: the forward set
    then no longer is the exact negation of its reverse partner and carries another reference epoch than its name's publication."""
    for cname in ('Transformation', 'TransformationSD'):
        cls = repo.cls('geodepy.constants', cname)
        for mname, f in cls.methods.items():
            if mname == '__init__':
                continue
            slf = f.params[0].name if f.params else 'self'
            key = 'R-PURE::geodepy/constants.py::%s.%s::receiver-unchanged' % (cname, mname)
            hit = None
            for n in ast.walk(f.node):
                tg = []
                if isinstance(n, ast.Assign):
                    tg = n.targets
                elif isinstance(n, (ast.AugAssign, ast.AnnAssign)):
                    tg = [n.target]
                for t in tg:
                    for x in ([t] if not isinstance(t, ast.Tuple) else t.elts):
                        if isinstance(x, ast.Attribute) and isinstance(x.value, ast.Name) and x.value.id == slf:
                            hit = hit or n
                if isinstance(n, ast.Call) and getattr(n.func, 'id', '') == 'setattr' and n.args and isinstance(n.args[0], ast.Name) and n.args[0].id == slf:
                    hit = hit or n
                if isinstance(n, ast.Call) and isinstance(n.func, ast.Attribute) and n.func.attr == 'update' and stmt_text(n.func.value) in ('%s.__dict__' % slf, 'vars(%s)' % slf):
                    hit = hit or n
            if hit is not None:
                rep.violated('R-PURE', key, where(f, hit), '%s.%s assigns to its receiver (`%s`): used on a shipped constant (conform14 does `trans += epoch` / the user does) it rewrites the '
                             'catalogue entry itself - the pair stops being exact negations with one reference epoch' % (cname, mname, stmt_text(hit)[:60]),
                             expected='a new %s' % cname, actual=stmt_text(hit)[:80])
            else:
                rep.holds('R-PURE', key, where(f, f.node), '%s.%s leaves its receiver as it is' % (cname, mname), work=False)


def method_rules(repo, rep, ev):
    neg_rules(repo, rep, ev)
    add_rules(repo, rep, ev)
    iers_rules(repo, rep, ev)
    immutable_rule(repo, rep)


def type_dependent(value, slot):
    """the value contains a branch on type(slot) - the numeric result depends on the python type of a number"""
    sid = set(slot.atoms(deep=False)) if isinstance(slot, Rat) else set()
    for k in value.atoms(deep=True):
        a = alg.TABLE.atoms[k]
        if a.kind == 'fn' and a.name in ('type', 'isinstance') and a.args and isinstance(a.args[0], Rat) and sid & set(a.args[0].atoms(deep=False)):
            return True
    return False


def neg_rules(repo, rep, ev):
    cls = repo.cls('geodepy.constants', 'Transformation')
    T = ev.symbolic_object(cls, 'T')
    neg = cls.methods.get('__neg__')
    if neg is None:
        raise AnalysisError('anchor vanished: Transformation.__neg__')
    rep.analysed(neg)
    r = ev.call_function(neg, {neg.params[0].name: T})
    wn = where(neg, neg.node)
    base = 'R-WIRE::geodepy/constants.py::Transformation.__neg__::'
    if transformation_shape(repo, rep, r, cls, 'R-WIRE', base + 'shape', wn, '__neg__'):
        for p in PARAMS + RATES:
            got = r.fields.get(p)
            if isinstance(got, Rat) and type_dependent(got, T.fields[p]):
                rep.violated('R-WIRE', base + p, wn, 'the negation of %s depends on the dynamic type of the stored number (%s): a parameter held as an int or a numpy scalar '
                             'is passed on without its sign being reversed' % (p, show(got, 2, 140)), expected='-self.%s whatever its numeric type' % p, actual=show(got, 2, 200))
                continue
            check_equal(rep, 'R-WIRE', base + p, wn, got, -T.fields[p], 'slot %s receives -self.%s' % (p, p))
        check_equal(rep, 'R-WIRE', base + 'from_datum', wn, r.fields.get('from_datum'), T.fields['to_datum'], 'labels are swapped (from)')
        check_equal(rep, 'R-WIRE', base + 'to_datum', wn, r.fields.get('to_datum'), T.fields['from_datum'], 'labels are swapped (to)')
        check_equal(rep, 'R-WIRE', base + 'ref_epoch', wn, r.fields.get('ref_epoch'), T.fields['ref_epoch'], 'reference epoch kept')
        check_equal(rep, 'R-WIRE', base + 'tf_sd', wn, r.fields.get('tf_sd'), T.fields['tf_sd'], 'uncertainties forwarded')


def add_rules(repo, rep, ev):
    cls = repo.cls('geodepy.constants', 'Transformation')
    T = ev.symbolic_object(cls, 'T')
    add = cls.methods.get('__add__')
    if add is None:
        raise AnalysisError('anchor vanished: Transformation.__add__')
    rep.analysed(add)
    ev.roundings[:] = []
    other = Rat.sym('epoch')
    r = ev.call_function(add, {add.params[0].name: T, add.params[1].name: other})
    wa = where(add, add.node)
    base = 'R-WIRE::geodepy/constants.py::Transformation.__add__::'
    # strip the 'type(other) == date' guard
    from ..symval import IteV
    guard = 0
    while isinstance(r, IteV) and guard < 4:
        guard += 1
        r = r.a if isinstance(r.a, Obj) else r.b
    if not transformation_shape(repo, rep, r, cls, 'R-WIRE', base + 'shape', wa, '__add__ (date argument)'):
        return
    dt = (other - T.fields['ref_epoch']) / C(F(36525, 100))
    for p in PARAMS:
        check_equal(rep, 'R-WIRE', base + p, wa, r.fields.get(p), T.fields[p] + T.fields['d_' + p] * dt,
                    'slot %s receives self.%s + self.d_%s * (epoch - ref_epoch).days / 365.25' % (p, p, p))
    for p in RATES:
        check_equal(rep, 'R-WIRE', base + p, wa, r.fields.get(p), T.fields[p], 'rate %s is passed on unchanged' % p)
    check_equal(rep, 'R-WIRE', base + 'from_datum', wa, r.fields.get('from_datum'), T.fields['from_datum'],
                're-referencing a set to another epoch keeps its source label')
    check_equal(rep, 'R-WIRE', base + 'to_datum', wa, r.fields.get('to_datum'), T.fields['to_datum'],
                're-referencing a set to another epoch keeps its target label')
    check_equal(rep, 'R-WIRE', base + 'ref_epoch', wa, r.fields.get('ref_epoch'), other, 'the new reference epoch is the argument')
    # every rounding met while __add__ ran (the list was emptied before the call): its own and those of helpers it calls
    nround = [d for fn, d, v, line in ev.roundings]
    key = 'R-ROUND::geodepy/constants.py::Transformation.__add__::params'
    if len(nround) >= 7 and all(d is not None and d >= 8 for d in nround):
        rep.holds('R-ROUND', key, wa, 'propagated parameters rounded to %s decimals' % sorted(set(nround)))
    elif nround and any(d is None for d in nround):
        rep.violated('R-ROUND', key, wa, 'propagated parameters are cut to a number of SIGNIFICANT figures (a %g-style format or a rounding without fixed decimals): the decimals kept '
                     'shrink as the value grows - a translation of 100 m keeps 5 decimals with eight figures (4.8e-6 m against the 2e-6 m of the property)',
                     expected='>= 8 decimals whatever the magnitude', actual='significant-figure rounding')
    elif nround:
        rep.violated('R-ROUND', key, wa, 'propagated parameters are rounded to %s decimals: coarser than 1e-8' % sorted(set(nround)),
                     expected='>= 8 decimals', actual=str(sorted(set(nround))))


def _derives_from(c, cls):
    seen = 0
    while c is not None and seen < 8:
        if c is cls:
            return True
        nxt = None
        for b in c.bases:
            if isinstance(b, ast.Name) and b.id in c.module.classes:
                nxt = c.module.classes[b.id]
        c, seen = nxt, seen + 1
    return False


def exact_type_guards(repo, clsname='Transformation'):
    """raising tests of geodepy.transform that ask for the EXACT class of a set: `type(trans) != Transformation`"""
    out = []
    m = repo.module('geodepy.transform')
    for f in m.all_functions():
        for n in ast.walk(f.node):
            if isinstance(n, ast.Compare) and len(n.ops) == 1 and isinstance(n.ops[0], (ast.NotEq, ast.IsNot, ast.Eq, ast.Is)) \
                    and isinstance(n.left, ast.Call) and getattr(n.left.func, 'id', '') == 'type' and isinstance(n.comparators[0], ast.Name) and n.comparators[0].id == clsname:
                out.append((f, n))
    return out


def transformation_shape(repo, rep, r, cls, rule, key, w, what):
    """True when r is a Transformation the rest of the library accepts.  An object of a SUBCLASS is one only while no function tests the exact
    class: conform7 / conform14 do (`type(trans) != Transformation`) - they refuse such a set with ValueError."""
    if isinstance(r, Obj) and r.cls is cls:
        return True
    if isinstance(r, Obj) and _derives_from(r.cls, cls):
        guards = exact_type_guards(repo, cls.name)
        if guards:
            g_f, g_n = guards[0]
            rep.violated(rule, key, w, '%s returns an object of class %s, a subclass of %s - and %s tests `%s` (line %d): every set built this way is refused with ValueError '
                         'by the transformation functions, while its negation or its epoch-propagated copy (built by %s itself) is accepted'
                         % (what, r.cls.name, cls.name, g_f.qualname, stmt_text(g_n), g_n.lineno, cls.name), expected='an object of class %s itself' % cls.name, actual=r.cls.name)
            return False
        return True
    rep.undecided(rule, key, w, '%s does not evaluate to a Transformation' % what)
    return False


def iers_rules(repo, rep, ev):
    cls = repo.cls('geodepy.constants', 'Transformation')
    f = repo.func('geodepy.constants', 'iers2trans')
    rep.analysed(f)
    ev.roundings[:] = []
    args = dict((p.name, Rat.sym('q_' + p.name)) for p in f.params)
    r = ev.call_function(f, args)
    wi = where(f, f.node)
    base = 'R-FORMULA::geodepy/constants.py::iers2trans::'
    if not transformation_shape(repo, rep, r, cls, 'R-FORMULA', base + 'shape', wi, 'iers2trans'):
        return
    thousand = C(1000)
    for p in PARAMS + RATES:
        q = Rat.sym('q_' + p)
        rot = p.replace('d_', '').startswith('r')
        want = (-q if rot else q) / thousand
        got_ = r.fields.get(p)
        if isinstance(got_, Rat) and type_dependent(got_, q):
            rep.violated('R-FORMULA', base + p, wi, '%s depends on the PYTHON TYPE of the number handed in (%s): a rotation typed as the integer 7 and one typed as 7.0 give different '
                         'parameter sets - the catalogue itself writes whole numbers without a decimal point' % (p, show(got_, 2, 140)),
                         expected='%s%s/1000 for every number' % ('-' if rot else '+', p), actual=show(got_, 2, 200))
            continue
        check_equal(rep, 'R-FORMULA', base + p, wi, r.fields.get(p), want,
                    '%s is stored as %s%s/1000 (%s)' % (p, '-' if rot else '+', p, 'mas -> arcsec, sign reversed' if rot else ('ppb -> ppm' if 'sc' in p else 'mm -> m')))
    ps = [p.name for p in f.params]
    check_equal(rep, 'R-FORMULA', base + 'from_datum', wi, r.fields.get('from_datum'), Rat.sym('q_' + ps[0]), 'source label passed through')
    check_equal(rep, 'R-FORMULA', base + 'to_datum', wi, r.fields.get('to_datum'), Rat.sym('q_' + ps[1]), 'target label passed through')
    check_equal(rep, 'R-FORMULA', base + 'ref_epoch', wi, r.fields.get('ref_epoch'), Rat.sym('q_' + ps[2]), 'reference epoch passed through')
    nround = [d for fn, d, v, line in ev.roundings if fn == 'iers2trans']
    key = 'R-ROUND::geodepy/constants.py::iers2trans::params'
    if len(nround) >= 14 and all(d is not None and d >= 8 for d in nround):
        rep.holds('R-ROUND', key, wi, 'converted parameters rounded to %s decimals' % sorted(set(nround)))
    elif nround:
        rep.violated('R-ROUND', key, wi, 'converted parameters rounded to %s decimals' % sorted(set(nround)), expected='>= 8', actual=str(sorted(set(nround))))


def epoch_rules(repo, rep, cat):
    """re-referencing is defined at EVERY epoch the catalogue itself uses (the oldest, 1988-01-01, included) and at the ends of the
    property's span: Transformation.__add__ is evaluated with concrete typed dates on a catalogue set; a raise (or no result) at one of
    them is a refusal inside the domain - the chains through the sets referenced to that epoch cannot be formed"""
    import datetime
    from ..symval import Evaluator as _Ev, Bool as _Bool, NoneV as _NoneV
    cls = repo.cls('geodepy.constants', 'Transformation')
    add = cls.methods.get('__add__')
    if add is None:
        raise AnalysisError('anchor vanished: Transformation.__add__')
    ords = set()
    for name, (obj, expr, st) in cat.items():
        v = fr(obj.fields.get('ref_epoch'))
        if v is not None and v > 700000:
            ords.add(int(v))
    for ymd in ((1980, 1, 1), (2060, 12, 31), (2020, 2, 29)):
        ords.add(datetime.date(*ymd).toordinal())
    pick = sorted(n_ for n_ in cat if n_.startswith('itrf2014_to_itrf2008'))
    if not pick or not ords:
        rep.undecided('R-GUARD', 'R-GUARD::geodepy/constants.py::Transformation.__add__::catalogue-epochs', where(add, add.node), 'no catalogue set / epochs to evaluate at')
        return
    bad = []
    for o in sorted(ords):
        ev = _Ev(repo)
        ev.fold_const_types = True
        ev.dates_are_typed = True
        ev.dates[o] = datetime.date.fromordinal(o).timetuple()[:3]
        T = ev.global_value(repo.module('geodepy.constants'), pick[0])
        try:
            got = ev.call_function(add, {'self': T, add.params[1].name: C(o)})
        except AnalysisError:
            got = 'error'
        fired = [nd_ for q_, c_, nd_ in ev.raise_conds if q_ == add.qualname and isinstance(c_, _Bool) and c_.b]
        if fired or got is None or isinstance(got, _NoneV):
            bad.append((o, fired[0] if fired else None))
    key = 'R-GUARD::geodepy/constants.py::Transformation.__add__::catalogue-epochs'
    if bad:
        o, nd = bad[0]
        rep.violated('R-GUARD', key, where(add, nd if nd is not None else add.node), 'Transformation.__add__ refuses the epoch %s (%s), which is %s: `%s` - sets referenced to it cannot be brought to a '
                     'common epoch with the others (%d of %d epochs refused)' % (datetime.date.fromordinal(o).isoformat(), pick[0], 'a reference epoch of the catalogue itself' if any(
                         fr(ob.fields.get('ref_epoch')) == o for ob, e_, s_ in cat.values()) else 'inside the span 1980 - 2060 of the property', stmt_text(nd.test)[:70] if nd is not None and hasattr(nd, 'test') else 'no result',
                         len(bad), len(ords)), expected='a re-referenced set at every epoch', actual='raise at %s' % datetime.date.fromordinal(o).isoformat())
    else:
        rep.holds('R-GUARD', key, where(add, add.node), 'Transformation.__add__ answers at the %d epochs the catalogue uses and at the ends of the span 1980 - 2060' % len(ords))


def run(repo, rep):
    alg.reset()
    thorough = rep.tier == 'thorough'
    ev = Evaluator(repo)
    ev.fold_const_types = True      # catalogue entries are literals: their python types are known
    ev.dates_are_typed = True       # ... and a date literal is a datetime.date (an entry may be re-referenced: -a_to_b + date(...))
    rep.trust('python ast of geodepy/constants.py; abstract evaluation of Transformation.__init__/__neg__/__add__ and iers2trans (sv/symval.py)')
    rep.trust('tolerances of the chain rule: published rounding 0.1 mm / 0.01 ppb / 0.01 mas (x 1.5 for a triple), year of 365.25 days')
    rep.assume('dates are modelled by their proleptic Gregorian ordinal; round(x, 8) of a literal is folded exactly')
    # re-referencing, negating and unit conversion depend on the set and the epoch given, not on earlier calls
    from . import common
    common.state_rule(repo, rep, [('geodepy.constants', 'Transformation.__add__'), ('geodepy.constants', 'Transformation.__neg__'), ('geodepy.constants', 'iers2trans')])
    del UNFOLDED[:]
    del NOT_A_SET[:]
    cat = fold_catalogue(repo, ev)
    rep.extra['catalogue_entries'] = len(cat)
    for name_, st_, what_ in NOT_A_SET:
        rep.violated('R-LABEL', 'R-LABEL::geodepy/constants.py::%s' % name_, 'geodepy/constants.py:%d' % st_.lineno,
                     'the constant %s is %s, not a Transformation (`%s`): the set its name states does not exist - conform14 refuses it, an enumeration of the catalogue by class skips it '
                     'and its partner has no reverse' % (name_, what_, stmt_text(st_)[:70]), expected='a Transformation', actual=what_)
    for name_, st_ in UNFOLDED:
        rep.undecided('R-LABEL', 'R-LABEL::geodepy/constants.py::%s' % name_, 'geodepy/constants.py:%d' % st_.lineno,
                      'the constant %s does not fold to a Transformation object: its labels, negation partner and chains are not decided' % name_)
    label_rules(repo, rep, cat)
    npairs = reverse_rules(repo, rep, cat)
    nlit = literal_rules(repo, rep)
    ntr, nitrf = chain_rules(repo, rep, cat, ev, thorough)
    suspects(rep)
    rep.extra['itrf_sets'] = nitrf
    rep.extra['triples'] = ntr
    rep.extra['reverse_pairs'] = npairs
    method_rules(repo, rep, ev)
    epoch_rules(repo, rep, cat)
    if not NOT_A_SET:
        # (a name that is not a set is reported above: the counts below are then short by what hangs on it)
        rep.floor('R-LABEL', 120, 'catalogue entries')
        rep.floor('R-CHAIN', 384, 'ordered ITRF triples')
        rep.floor('R-NEG', 55, 'forward/reverse pairs')
    rep.floor('R-LITERAL', 60, 'literal catalogue entries')
    # odd entry: suffixed sets are outside the chain rule
    for name in sorted(cat):
        mm = NAME_RE.match(name)
        if mm.group(3) and mm.group(1).startswith('itrf') and mm.group(2).startswith('itrf'):
            rep.info('R-CHAIN', 'R-CHAIN::suffixed::' + name, 'geodepy/constants.py', '%s is a suffixed set: outside the chain rule' % name)


def controls(repo):
    out = []
    out.append(('digit-typo', text_variant(repo, 'geodepy/constants.py', 'tx=7.4, ty=-0.5, tz=-62.8,\n    sc=3.80,\n    rx=0, ry=0, rz=0.26,\n    d_tx=0.1, d_ty=-0.5, d_tz=-3.3,\n    d_sc=0.12,\n    d_rx=0, d_ry=0, d_rz=0.02)\n\nitrf2014_to_itrf96',
                                        'tx=7.4, ty=-0.5, tz=-68.2,\n    sc=3.80,\n    rx=0, ry=0, rz=0.26,\n    d_tx=0.1, d_ty=-0.5, d_tz=-3.3,\n    d_sc=0.12,\n    d_rx=0, d_ry=0, d_rz=0.02)\n\nitrf2014_to_itrf96'), 'R-CHAIN'))
    out.append(('label-swap', text_variant(repo, 'geodepy/constants.py', "itrf_from='ITRF2005', itrf_to='ITRF2000'", "itrf_from='ITRF2000', itrf_to='ITRF2005'"), 'R-LABEL'))
    src = repo.sources['geodepy/constants.py']

    def neg_keep(fn):
        def pred(n):
            return isinstance(n, ast.UnaryOp) and isinstance(n.op, ast.USub) and isinstance(n.operand, ast.Attribute) and n.operand.attr == 'd_sc'

        def make(n):
            return n.operand
        substitute(fn, pred, make, limit=1, expect=1)
    out.append(('neg-forgets-rate', repo.variant({'geodepy/constants.py': replace_in_function(src, 'Transformation.__neg__', neg_keep)}), '__neg__::d_sc'))
    out.append(('in-place-epoch-shift', text_variant(repo, 'geodepy/constants.py', '    def __neg__(self):\n', '    def __iadd__(self, other):\n        self.ref_epoch = other\n        return self\n\n    def __neg__(self):\n'), 'Transformation.__iadd__::receiver-unchanged'))
    return out
