"""C19 - survey reductions (survey.py, convert.polar2rect / rect2polar)."""
import ast
from fractions import Fraction as F
from .. import alg
from ..alg import Rat, C
from ..model import AnalysisError, stmt_text
from ..symval import Evaluator, Tup, NONE, NoneV, CallV, _single_atom
from ..symcheck import Oracle, check_equal, compare_values, show
from ..rules import where, optnum_rule
from . import common
from ..mutate import replace_in_function, substitute, text_variant
from .c10 import ite_leaves

META = {
    'level': 'other',
    'rule_text': 'rule instances: truthiness tests of optional atmospheric parameters whose zero is physical; polar/rectangular pair; joins and '
                 'radiations; zenith reduction (four results); both branches of the first velocity correction (formula and degree-one '
                 'homogeneity in the distance); the dispersion identity N_g = N_p + sigma dN_p/dsigma between the two refractivity routines '
                 '(exact differentiation)',
    'explanation': 'Static: None-vs-falsy analysis of the optional parameters; abstract evaluation of the reduction routines to exact normal '
                   'forms compared with reference formulas; exact symbolic differentiation of the 130-line phase refractivity routine compared '
                   'with the separately typed group refractivity routine (every constant read as an exact decimal). Decides definedness at 0 '
                   'degrees / 0 %, the inverse relation of joins/radiations by form, Pythagoras by form, proportionality to the distance and the '
                   'dispersion identity for all arguments. The 1 ppm agreement of the two branches and the 1e-9 closure are numerical, not decided.',
}

ORACLE = '''
from math import sin, cos, sqrt, atan, atan2, radians, degrees, exp

def p2r(r, theta):
    return r * sin(radians(theta)), r * cos(radians(theta))

def r2p(x, y):
    r = sqrt(x ** 2 + y ** 2)
    t = atan2(x, y)
    if t < 0:
        t = degrees(t) + 360
    else:
        t = degrees(t)
    return r, t

def join(e1, n1, e2, n2):
    return r2p(e2 - e1, n2 - n1)

def radiate(e1, n1, brg, dist, rotation, psf):
    d = p2r(dist * psf, brg + rotation)
    return e1 + d[0], n1 + d[1]

def zenith(z, s, hi, ht):
    if 0 < z < 180:
        v = radians(90 - z)
    elif 180 < z < 360:
        v = radians(270 - z)
    else:
        raise ValueError
    hz = s * cos(v)
    dh = hi + s * sin(v) - ht
    return degrees(atan(dh / hz)), sqrt(dh ** 2 + hz ** 2), hz, dh

def fvc_closed(dist, c, d, temp, pressure, e):
    t = temp + 273.15
    return dist * (c - ((d * pressure) / t) + ((11.27 * e) / t)) * (10 ** -6)

def saturation(t, p):
    return (1.0007 + 3.46 * p * (10 ** -6)) * 6.1121 * exp((17.502 * t) / (240.94 + t))

def vapour_rh(dry, p, rh):
    return saturation(dry, p) * rh / 100

def vapour_wet(dry, p, wet):
    return saturation(wet, p) - 0.000662 * p * (dry - wet)

def fvc_co2(dist, c, ng):
    n_ref = 1 + (c / 1.0e6)
    n_g = 1 + (ng / 1.0e8)
    return ((n_ref / n_g) - 1) * dist
'''


def optnum(repo, rep):
    zero_valid = {'temp': '0 degrees Celsius is a temperature', 'dry_temp': '0 degrees Celsius is a temperature',
                  'wet_temp': '0 degrees Celsius is a temperature', 'rel_humidity': '0 % humidity is physical (vapour pressure 0)'}
    zero_invalid = {'CO2_ppm': '300-600 ppm, never 0', 'n_REF': 'a refractive index is never 0', 'unit_length': 'a length, never 0',
                    'frequency': 'a modulation frequency, never 0', 'pressure': '650-1100 hPa, never 0', 'wavelength': '0.4-1.6 um, never 0'}
    for q in ('first_vel_params', 'part_h2o_vap_press', 'first_vel_corrn', 'mets_partial_differentials'):
        optnum_rule(rep, repo.func('geodepy.survey', q), zero_valid, zero_invalid)
    rep.floor('R-OPTNUM', 4, 'four atmospheric routines scanned')


def plane_rules(repo, rep, orc):
    sy = lambda n: Rat.sym(n)
    f = repo.func('geodepy.convert', 'polar2rect')
    rep.analysed(f)
    ev = Evaluator(repo)
    got = ev.call_function(f, {f.params[0].name: sy('r'), f.params[1].name: sy('theta')})
    check_equal(rep, 'R-FORMULA', 'R-FORMULA::geodepy/convert.py::polar2rect::xy', where(f, f.node), got, orc.call('p2r', r=sy('r'), theta=sy('theta')),
                'x = r sin(theta), y = r cos(theta), theta in degrees clockwise from north')
    f = repo.func('geodepy.convert', 'rect2polar')
    rep.analysed(f)
    ev = Evaluator(repo)
    got = ev.call_function(f, {f.params[0].name: sy('x'), f.params[1].name: sy('y')})
    check_equal(rep, 'R-FORMULA', 'R-FORMULA::geodepy/convert.py::rect2polar::r,theta', where(f, f.node), got, orc.call('r2p', x=sy('x'), y=sy('y')),
                'r = sqrt(x^2 + y^2), theta = degrees(atan2(x, y)) wrapped to [0, 360): same argument order as polar2rect')
    range_rule(repo, rep)
    f = repo.func('geodepy.survey', 'joins')
    rep.analysed(f)
    ev = Evaluator(repo)
    ps = [p.name for p in f.params]
    got = ev.call_function(f, dict(zip(ps, [sy('e1'), sy('n1'), sy('e2'), sy('n2')])))
    check_equal(rep, 'R-FORMULA', 'R-FORMULA::geodepy/survey.py::joins::dist,brg', where(f, f.node), got,
                orc.call('join', e1=sy('e1'), n1=sy('n1'), e2=sy('e2'), n2=sy('n2')), 'joins = rect2polar(e2 - e1, n2 - n1)')
    f = repo.func('geodepy.survey', 'radiations')
    rep.analysed(f)
    ev = Evaluator(repo)
    ps = [p.name for p in f.params]
    got = ev.call_function(f, dict(zip(ps, [sy('e1'), sy('n1'), sy('brg'), sy('dist'), sy('rot'), sy('psf')])))
    check_equal(rep, 'R-FORMULA', 'R-FORMULA::geodepy/survey.py::radiations::e,n', where(f, f.node), got,
                orc.call('radiate', e1=sy('e1'), n1=sy('n1'), brg=sy('brg'), dist=sy('dist'), rotation=sy('rot'), psf=sy('psf')),
                'radiations = (e1, n1) + polar2rect(dist * psf, brg + rotation): the rotation rotates and the scale factor scales the vector')
    # inverse relation by form: radiating (r, theta) of a join from point 1 reproduces the offsets
    r, th = sy('r'), sy('theta')
    back = orc.call('p2r', r=r, theta=th)
    key = 'R-SIBLING::geodepy/survey.py::joins/radiations::inverse'
    # x = r sin t, y = r cos t  =>  sqrt(x^2+y^2) = sqrt(r^2) and atan2 argument order (x, y) matches sin/cos assignment
    x2y2 = alg.norm(back.items[0] * back.items[0] + back.items[1] * back.items[1])
    if alg.decide_equal(x2y2, r * r) == 'equal':
        rep.holds('R-SIBLING', key, 'geodepy/convert.py', 'x^2 + y^2 of polar2rect(r, theta) equals r^2 identically (with atan2(x, y) in rect2polar this makes the pair mutually inverse)')
    else:
        rep.undecided('R-SIBLING', key, 'geodepy/convert.py', 'x^2 + y^2 != r^2 by form')
    # zenith reduction
    f = repo.func('geodepy.survey', 'va_conv')
    rep.analysed(f)
    ev = Evaluator(repo)
    ps = [p.name for p in f.params]
    got = ev.call_function(f, dict(zip(ps, [sy('z'), sy('s'), sy('hi'), sy('ht')])))
    ref = orc.call('zenith', z=sy('z'), s=sy('s'), hi=sy('hi'), ht=sy('ht'))
    names = ['vertical angle', 'slope distance between ground points', 'horizontal distance', 'height difference']
    if isinstance(got, Tup) and len(got.items) == 4:
        for i in range(4):
            check_equal(rep, 'R-FORMULA', 'R-FORMULA::geodepy/survey.py::va_conv::%d' % i, where(f, f.node), got.items[i], ref.items[i],
                        '%s: horizontal = s cos v, vertical = s sin v + hi - ht of the same v (90 - z on (0,180), 270 - z on (180,360))' % names[i])
    else:
        rep.undecided('R-FORMULA', 'R-FORMULA::geodepy/survey.py::va_conv::shape', where(f, f.node), 'va_conv does not return four values')
    # invalid angles raise
    for val in (0, 180, 360, -10, 400):
        ev = Evaluator(repo)
        g = ev.call_function(f, dict(zip(ps, [C(val), sy('s'), sy('hi'), sy('ht')])))
        key = 'R-GUARD::geodepy/survey.py::va_conv::zenith=%d' % val
        if isinstance(g, NoneV):
            rep.holds('R-GUARD', key, where(f, f.node), 'zenith angle %d raises' % val)
        else:
            rep.violated('R-GUARD', key, where(f, f.node), 'zenith angle %d is accepted' % val, expected='ValueError', actual=show(g, 2, 100))


def range_rule(repo, rep):
    """the bearing lies in [0, 360): half-open.  `t + 360` for a negative t (and `t % 360`) is below 360 in exact arithmetic only - for a
    direction a hair west of north (|t| below half an ulp of 360, e.g. rect2polar(-1e-9, 1e7)) the sum rounds to 360.0 exactly.  The exact
    model cannot see that (the test `t + 360 >= 360` under `t < 0` is dead there), so the closing test is demanded structurally: after the
    wrap the same variable is compared with 360 (>=, ==) and brought back."""
    _range_rule_for(repo, rep, repo.func('geodepy.convert', 'rect2polar'), True)
    # ... and any routine of geodepy.survey that wraps a bearing itself (a private copy of rect2polar inside joins needs the closing test too)
    for f_ in repo.module('geodepy.survey').all_functions():
        _range_rule_for(repo, rep, f_, False)


def _range_rule_for(repo, rep, f, required):
    key = 'R-RANGE::%s::%s::theta<360' % (f.module.relpath, f.qualname)
    wraps = []
    for n in ast.walk(f.node):
        v = None
        if isinstance(n, ast.Assign) and len(n.targets) == 1 and isinstance(n.targets[0], ast.Name):
            e = n.value
            if isinstance(e, ast.BinOp) and isinstance(e.op, ast.Add) and any(isinstance(c, ast.Constant) and c.value == 360 for c in (e.left, e.right)):
                v = n.targets[0].id
            if isinstance(e, ast.BinOp) and isinstance(e.op, ast.Mod) and isinstance(e.right, ast.Constant) and e.right.value == 360:
                v = n.targets[0].id
        if isinstance(n, ast.AugAssign) and isinstance(n.target, ast.Name) and isinstance(n.op, (ast.Add, ast.Mod)) and isinstance(n.value, ast.Constant) and n.value.value == 360:
            v = n.target.id
        if v is not None:
            wraps.append((n, v))
    if not wraps:
        if required:
            rep.undecided('R-RANGE', key, where(f, f.node), 'no `+ 360` / `% 360` wrap of the bearing found in rect2polar')
        return
    for n, v in wraps:
        closing = [c for c in ast.walk(f.node) if isinstance(c, ast.Compare) and c.lineno >= n.lineno and len(c.ops) == 1 and isinstance(c.ops[0], (ast.GtE, ast.Eq))
                   and isinstance(c.left, ast.Name) and c.left.id == v and isinstance(c.comparators[0], ast.Constant) and c.comparators[0].value == 360]
        if closing:
            rep.holds('R-RANGE', key, where(f, closing[0]), 'after the wrap `%s` the bearing is compared with 360 and brought back: the result stays in [0, 360) under rounding' % stmt_text(n)[:40])
        else:
            rep.violated('R-RANGE', key, where(f, n), 'the bearing is wrapped by `%s` and never compared with 360 afterwards: for a direction a hair west of north the sum rounds to 360.0 '
                         '(rect2polar(-1e-9, 1e7) and joins(0, 0, -1e-9, 1e7) return 360.0), outside the half-open range [0, 360) of the property [%s]' % (stmt_text(n)[:40], f.qualname),
                         expected='if theta >= 360: theta = 0.0', actual='no closing test')


def fvc_rules(repo, rep, orc):
    f = repo.func('geodepy.survey', 'first_vel_corrn')
    rep.analysed(f)
    w = where(f, f.node)
    sy = lambda n: Rat.sym(n)
    ps = [p.name for p in f.params]
    opq = {'part_h2o_vap_press', 'humidity2part_water_vapour_press', 'group_refractivity'}
    base = 'R-FORMULA::geodepy/survey.py::first_vel_corrn::'
    # closed-form branch: CO2_ppm is None
    ev = Evaluator(repo, opaque=opq)
    prm = Tup([sy('c'), sy('d')])
    got = ev.call_function(f, {ps[0]: sy('dist'), ps[1]: prm, ps[2]: sy('temp'), ps[3]: sy('pressure'), ps[4]: sy('rh'), ps[5]: sy('wet'), ps[6]: NONE, ps[7]: NONE})
    e = None
    for caller, callee, b, node in ev.calls:
        if callee == 'part_h2o_vap_press':
            g = repo.func('geodepy.survey', 'part_h2o_vap_press')
            from ..symval import argkey
            e = alg.opaque('call:part_h2o_vap_press', tuple(argkey(b.get(p.name, NONE)) for p in g.params))
            wired = [b.get(g.params[0].name), b.get(g.params[1].name), b.get(g.params[2].name), b.get(g.params[3].name)]
    if e is None:
        rep.undecided('R-FORMULA', base + 'closed', w, 'closed-form branch does not obtain the vapour pressure from part_h2o_vap_press')
    else:
        ok = all(compare_values(a, b) == 'equal' for a, b in zip(wired, [sy('temp'), sy('pressure'), sy('rh'), sy('wet')]))
        if ok:
            rep.holds('R-WIRE', 'R-WIRE::geodepy/survey.py::first_vel_corrn::vapour-pressure', w, 'vapour pressure from (temp, pressure, rel_humidity, wet_temp) in that order')
        else:
            rep.violated('R-WIRE', 'R-WIRE::geodepy/survey.py::first_vel_corrn::vapour-pressure', w, 'part_h2o_vap_press receives its arguments in the wrong slots')
        ref = orc.call('fvc_closed', dist=sy('dist'), c=sy('c'), d=sy('d'), temp=sy('temp'), pressure=sy('pressure'), e=e)
        check_equal(rep, 'R-FORMULA', base + 'closed', w, got, ref, 'closed form (Rueger eq. 6.11): dist * (C - D p/(273.15+t) + 11.27 e/(273.15+t)) * 1e-6')
        homogeneity(rep, base + 'closed::degree-one', w, got)
    # CO2 branch
    ev = Evaluator(repo, opaque=opq)
    got = ev.call_function(f, {ps[0]: sy('dist'), ps[1]: prm, ps[2]: sy('temp'), ps[3]: sy('pressure'), ps[4]: sy('rh'), ps[5]: NONE, ps[6]: sy('co2'), ps[7]: sy('wl')})
    ng = None
    for caller, callee, b, node in ev.calls:
        if callee == 'group_refractivity':
            g = repo.func('geodepy.survey', 'group_refractivity')
            from ..symval import argkey
            ng = alg.opaque('call:group_refractivity', tuple(argkey(b.get(p.name, NONE)) for p in g.params))
            gw = [b.get(p.name) for p in g.params]
    if ng is None:
        rep.undecided('R-FORMULA', base + 'co2', w, 'CO2 branch does not call group_refractivity')
        return
    # leaves of the guarded result (the all([...]) presence test)
    leaves_ = ite_leaves(got) if isinstance(got, Rat) else [got]
    ref = orc.call('fvc_co2', dist=sy('dist'), c=sy('c'), ng=ng)
    vals = [x for x in leaves_ if isinstance(x, Rat)]
    ngid = _single_atom(ng).id
    with_ng = [x for x in vals if ngid in x.atoms(deep=True)]
    if with_ng:
        vals = with_ng
    if len(vals) == 1 or all(compare_values(v, ref) == 'equal' for v in vals):
        check_equal(rep, 'R-FORMULA', base + 'co2', w, vals[0], ref, 'CO2-aware form: (n_ref/n_g - 1) * dist with n_ref = 1 + C/1e6, n_g = 1 + N_g/1e8')
        homogeneity(rep, base + 'co2::degree-one', w, vals[0])
    else:
        rep.undecided('R-FORMULA', base + 'co2', w, 'CO2 branch has several distinct results')
    want = [sy('wl'), sy('temp'), sy('pressure'), None, sy('co2')]
    ok = all(wv is None or compare_values(a, wv) == 'equal' for a, wv in zip(gw, want))
    key = 'R-WIRE::geodepy/survey.py::first_vel_corrn::group_refractivity'
    if ok:
        rep.holds('R-WIRE', key, w, 'group_refractivity(wavelength, temp, pressure, e, CO2_ppm) receives its arguments in the right slots')
    else:
        rep.violated('R-WIRE', key, w, 'group_refractivity receives its arguments in the wrong slots', expected='(wavelength, temp, pressure, e, CO2_ppm)',
                     actual=', '.join(show(a, 2, 40) for a in gw))


def homogeneity(rep, key, w, v):
    d = alg.TABLE.sym('dist')
    try:
        r = alg.decide_equal(alg.diff(v, d.id) * Rat.atom(d), v)
    except ValueError as e:
        # a generator without a derivative (a rounding, an integer part): proportionality is not decided here - the formula rule speaks
        rep.undecided('R-LEAVES', key.replace('R-FORMULA', 'R-LEAVES'), w, 'proportionality not decided: %s' % e)
        return
    if r == 'equal':
        rep.holds('R-LEAVES', key.replace('R-FORMULA', 'R-LEAVES'), w, 'the correction is homogeneous of degree one in the distance (dist * d/d dist = itself)')
    elif r == 'different':
        rep.violated('R-LEAVES', key.replace('R-FORMULA', 'R-LEAVES'), w, 'the correction is not proportional to the measured distance', expected='k * dist', actual=show(v, 2, 200))
    else:
        rep.undecided('R-LEAVES', key.replace('R-FORMULA', 'R-LEAVES'), w, 'proportionality not decided')


def unify(a, b, mapping, rev):
    """structural unification of two ast nodes modulo a consistent renaming of names; string constants are wildcards"""
    if type(a) is not type(b):
        return False
    if isinstance(a, ast.Name):
        if a.id in mapping:
            return mapping[a.id] == b.id
        if b.id in rev:
            return False
        mapping[a.id] = b.id
        rev[b.id] = a.id
        return True
    if isinstance(a, ast.Constant):
        if isinstance(a.value, str) and isinstance(b.value, str):
            return True
        return a.value == b.value and type(a.value) is type(b.value)
    for fld in a._fields:
        x, y = getattr(a, fld, None), getattr(b, fld, None)
        if isinstance(x, list):
            if not isinstance(y, list) or len(x) != len(y):
                return False
            for p, q in zip(x, y):
                if isinstance(p, ast.AST):
                    if not unify(p, q, mapping, rev):
                        return False
                elif p != q:
                    return False
        elif isinstance(x, ast.AST):
            if not isinstance(y, ast.AST) or not unify(x, y, mapping, rev):
                return False
        elif fld in ('lineno', 'col_offset', 'end_lineno', 'end_col_offset', 'ctx', 'kind', 'type_comment'):
            continue
        elif x != y:
            return False
    return True


def body_diff(fp, fg):
    """(list of differing statement pairs, renaming) or None when the bodies do not line up statement by statement"""
    bp = [s for s in fp.node.body if not (isinstance(s, ast.Expr) and isinstance(s.value, ast.Constant))]
    bg = [s for s in fg.node.body if not (isinstance(s, ast.Expr) and isinstance(s.value, ast.Constant))]
    if len(bp) != len(bg):
        return None
    mapping, rev = {}, {}
    diffs = []
    for sp, sg in zip(bp, bg):
        m2, r2 = dict(mapping), dict(rev)
        if unify(sp, sg, m2, r2):
            mapping, rev = m2, r2
            continue
        # differing statements must be plain assignments to one name each; the targets are paired
        if not (isinstance(sp, ast.Assign) and isinstance(sg, ast.Assign) and len(sp.targets) == 1 and len(sg.targets) == 1
                and isinstance(sp.targets[0], ast.Name) and isinstance(sg.targets[0], ast.Name)):
            return None
        tp, tg = sp.targets[0].id, sg.targets[0].id
        if mapping.get(tp, tg) != tg or rev.get(tg, tp) != tp:
            return None
        mapping[tp] = tg
        rev[tg] = tp
        diffs.append((sp, sg))
    return diffs, mapping


def dispersion_rule(repo, rep):
    fp = repo.func('geodepy.survey', 'phase_refractivity')
    fg = repo.func('geodepy.survey', 'group_refractivity')
    rep.analysed(fp)
    rep.analysed(fg)
    w = where(fg, fg.node)
    key = 'R-SIBLING::geodepy/survey.py::group_refractivity::dispersion'
    sy = lambda n: Rat.sym(n)
    args = [sy('lam'), sy('tc'), sy('p'), sy('pv'), sy('xc')]
    evp = Evaluator(repo)
    np_ = evp.call_function(fp, dict(zip([p.name for p in fp.params], args)))
    envp = evp.last_env or {}
    evg = Evaluator(repo)
    ng_ = evg.call_function(fg, dict(zip([p.name for p in fg.params], args)))
    envg = evg.last_env or {}
    lam = alg.TABLE.sym('lam')
    bd = body_diff(fp, fg)
    if bd is not None:
        diffs, mapping = bd
        # 1. everything but the dispersive equations is identical after renaming
        ret_ok = True
        if not diffs:
            rep.violated('R-SIBLING', key + '::body', w, 'group_refractivity is statement-for-statement identical to phase_refractivity: no dispersion term at all')
            return
        rep.holds('R-SIBLING', key + '::body', w, 'the two routines agree statement by statement after renaming %d intermediates; %d equations differ (checked next)' % (
            sum(1 for a, b in mapping.items() if a != b), len(diffs)))
        allok = True
        for sp, sg in diffs:
            tp, tg = sp.targets[0].id, sg.targets[0].id
            vp, vg = envp.get(tp), envg.get(tg)
            k = key + '::%s' % tg
            if not (isinstance(vp, Rat) and isinstance(vg, Rat)):
                rep.undecided('R-SIBLING', k, where(fg, sg), 'values of %s / %s not numeric' % (tp, tg))
                allok = False
                continue
            vpu = alg.unfold_dependent(vp, lam.id)
            vgu = alg.unfold_dependent(vg, lam.id)
            want = vpu - Rat.atom(lam) * alg.diff(vpu, lam.id) if vpu is not None else None
            r = alg.decide_equal(vgu, want, budget=6000) if (want is not None and vgu is not None) else 'unknown'
            if r == 'equal':
                rep.holds('R-SIBLING', k, where(fg, sg), '%s = %s + sigma d(%s)/d sigma identically (sigma = 1/wavelength; exact differentiation)' % (tg, tp, tp))
            elif r == 'different':
                allok = False
                rep.violated('R-SIBLING', k, where(fg, sg), '%s is not %s plus its dispersion term sigma d/d sigma' % (tg, tp),
                             expected=show(want, 2, 300), actual=show(vgu, 2, 300))
            else:
                allok = False
                rep.undecided('R-SIBLING', k, where(fg, sg), 'dispersion term of %s not decided' % tg)
        # 2. the dispersive quantities enter the result linearly with wavelength-independent factors
        return
    # bodies do not line up: global identity (bounded)
    if not (isinstance(np_, Rat) and isinstance(ng_, Rat)):
        rep.undecided('R-SIBLING', key, w, 'refractivities do not evaluate to numbers')
        return
    want = np_ - Rat.atom(lam) * alg.diff(np_, lam.id)
    a = alg.unfold_dependent(ng_, lam.id)
    b = alg.unfold_dependent(want, lam.id)
    r = alg.decide_equal(a, b, budget=6000) if (a is not None and b is not None) else 'unknown'
    if r == 'equal':
        rep.holds('R-SIBLING', key, w, 'N_g = N_p + sigma dN_p/dsigma identically (exact differentiation of phase_refractivity)')
    elif r == 'different':
        rep.violated('R-SIBLING', key, w, 'group_refractivity is not phase_refractivity plus its dispersion term sigma dN/dsigma',
                     expected=show(want, 2, 300), actual=show(ng_, 2, 300))
    else:
        # too large for the exact decision: evaluate both forms at points of the property's atmosphere box
        rng = {'lam': (0.4, 1.6), 'tc': (-20.0, 45.0), 'p': (650.0, 1100.0), 'pv': (0.5, 40.0), 'xc': (300.0, 600.0)}
        wit = None
        try:
            wit = alg.numeric_witness(ng_, want, rng, trials=8, rel=1e-7)
            agree = wit is None and alg.numeric_agree(ng_, want, rng, trials=8, rel=1e-9)
        except RecursionError:
            agree = False
        if wit is not None:
            pt, va, vb = wit
            rep.violated('R-SIBLING', key, w, 'group_refractivity is not phase_refractivity plus its dispersion term sigma dN/dsigma: at %s it gives %.9g where N_p + sigma dN_p/dsigma is %.9g '
                         '(the two routines no longer treat their arguments alike, statement by statement they do not line up)' % (
                             ', '.join('%s=%.4g' % kv for kv in sorted(pt.items())), va.real, vb.real), expected='N_p + sigma dN_p/dsigma', actual='%.9g vs %.9g' % (va.real, vb.real))
        else:
            rep.undecided('R-SIBLING', key, w, 'dispersion identity not decided exactly (bodies differ structurally and the global forms are too large)%s' % (
                '; the two forms agree to 1e-9 at eight points of the atmosphere box' if agree else ''))


def params_rules(repo, rep):
    """first_vel_params: C = (n_REF - 1) 1e6 with the manufacturer's reference index when one is handed in - for EVERY combination of the other
    optional arguments (a full data sheet carries nominal unit length and frequency as well) - and n_REF = c / (2 U f) only when none is;
    D = 273.15/1013.25 (287.6155 + 4.8866/lambda^2 + 0.068/lambda^4)"""
    f = repo.func('geodepy.survey', 'first_vel_params')
    rep.analysed(f)
    w = where(f, f.node)
    sy = lambda n: Rat.sym(n)
    ps = [p.name for p in f.params]
    base = 'R-FORMULA::geodepy/survey.py::first_vel_params::'
    if len(ps) < 4:
        rep.undecided('R-FORMULA', base + 'signature', w, 'first_vel_params does not take (wavelength, frequency, n_REF, unit_length)')
        return
    d_ref = C(F(27315, 100)) / C(F(101325, 100)) * (C(F(2876155, 10000)) + C(F(48866, 10000)) / (sy('wl') * sy('wl')) + C(F(68, 1000)) / (sy('wl') * sy('wl') * sy('wl') * sy('wl')))
    c_given = (sy('n') - C(1)) * C(10 ** 6)
    c_derived = (C(299792458) / (C(2) * sy('u') * sy('fr')) - C(1)) * C(10 ** 6)
    nt = alg.opaque('truthy', (sy('n'),))
    cases = (('n_REF given, unit length and frequency given too', {ps[1]: sy('fr'), ps[2]: sy('n'), ps[3]: sy('u')}, c_given),
             ('n_REF given, frequency only', {ps[1]: sy('fr'), ps[2]: sy('n'), ps[3]: NONE}, c_given),
             ('n_REF given alone', {ps[1]: NONE, ps[2]: sy('n'), ps[3]: NONE}, c_given),
             ('n_REF absent: derived from unit length and frequency', {ps[1]: sy('fr'), ps[2]: NONE, ps[3]: sy('u')}, c_derived))
    for k, (txt, args, want_c) in enumerate(cases):
        ev = Evaluator(repo)
        a = {ps[0]: sy('wl')}
        a.update(args)
        try:
            got = ev.call_function(f, a)
        except AnalysisError as e:
            rep.undecided('R-FORMULA', base + 'C[%d]' % k, w, '%s: not evaluated (%s)' % (txt, e))
            continue
        if not (isinstance(got, Tup) and len(got.items) == 2 and all(isinstance(x, Rat) for x in got.items)):
            rep.undecided('R-FORMULA', base + 'C[%d]' % k, w, '%s: the result is not a pair of numbers' % txt)
            continue
        c_got = got.items[0]
        # a supplied reference index and the nominal data next to it are non-zero numbers: their truth tests are true
        for nm in ('n', 'u', 'fr'):
            tr = alg.opaque('truthy', (sy(nm),))
            c_got = alg.assume(c_got, alg.opaque('not', (tr,)), False)
            c_got = alg.assume(c_got, tr, True)
        check_equal(rep, 'R-FORMULA', base + 'C[%d]' % k, w, c_got, want_c, 'C = (n_REF - 1) 1e6 - %s' % txt)
        if k == 0:
            check_equal(rep, 'R-FORMULA', base + 'D', w, got.items[1], d_ref, 'D = 273.15/1013.25 (287.6155 + 4.8866/lambda^2 + 0.068/lambda^4)')
    # the two refractivity routines are one interface: same parameters, same defaults (a caller who omits the CO2 content must get the same
    # air from both, otherwise N_g - N_p is not the dispersion term)
    fp = repo.func('geodepy.survey', 'phase_refractivity')
    fg = repo.func('geodepy.survey', 'group_refractivity')
    key = 'R-SIBLING::geodepy/survey.py::group_refractivity::defaults'
    pp = [(p.name, stmt_text(p.default) if p.default is not None else None) for p in fp.params]
    pg = [(p.name, stmt_text(p.default) if p.default is not None else None) for p in fg.params]
    if len(pp) != len(pg):
        rep.violated('R-SIBLING', key, where(fg, fg.node), 'phase_refractivity takes %d parameters, group_refractivity %d' % (len(pp), len(pg)), expected=str(pp), actual=str(pg))
    else:
        diff_ = [(a, b) for a, b in zip(pp, pg) if a[1] != b[1] and not (a[1] is not None and b[1] is not None and _same_number(a[1], b[1]))]
        if diff_:
            a, b = diff_[0]
            rep.violated('R-SIBLING', key, where(fp, fp.node), 'phase_refractivity defaults %s to %s, group_refractivity defaults %s to %s: with the argument omitted the two refractivities '
                         'are computed for different air, and N_g differs from N_p + sigma dN_p/dsigma by the CO2 term' % (a[0], a[1], b[0], b[1]),
                         expected='%s=%s in both' % (b[0], b[1]), actual='%s=%s / %s=%s' % (a[0], a[1], b[0], b[1]))
        else:
            rep.holds('R-SIBLING', key, where(fg, fg.node), 'the two refractivity routines take the same %d parameters with the same defaults (%s)' % (
                len(pp), ', '.join('%s=%s' % x for x in pp if x[1] is not None) or 'none'))


def _same_number(a, b):
    try:
        return F(a) == F(b)
    except (ValueError, ZeroDivisionError):
        return False


def vapour_rules(repo, rep, orc):
    """partial water-vapour pressure (Rueger eq. 5.27 - 5.29) on BOTH of its paths: from the relative humidity, e = E_w(dry) H / 100, and from
    a wet-bulb temperature, e = E_w(wet) - 0.000662 p (dry - wet) with E_w(t) = (1.0007 + 3.46e-6 p) 6.1121 exp(17.502 t / (240.94 + t)).
    And its domain: every logarithm met on the way has an argument that stays positive over 0..100 % humidity (dry air is in the range)."""
    from ..symval import MATH_CALLS
    from ..symcheck import _affine_single_symbol
    f = repo.func('geodepy.survey', 'part_h2o_vap_press')
    rep.analysed(f)
    w = where(f, f.node)
    ps = [p.name for p in f.params]
    dry, p, rh, wet = Rat.sym('dry'), Rat.sym('p'), Rat.sym('rh'), Rat.sym('wet')
    base = 'R-FORMULA::geodepy/survey.py::part_h2o_vap_press::'
    dom = {'dry': (F(-40), F(60)), 'wet': (F(-40), F(60)), 'p': (F(500), F(1100)), 'rh': (F(0), F(100))}
    for tag, args, ref, txt in (('humidity', {ps[0]: dry, ps[1]: p, ps[2]: rh, ps[3]: NONE}, orc.call('vapour_rh', dry=dry, p=p, rh=rh), 'e = E_w(dry) * H / 100 (eq. 5.27, 5.29)'),
                                ('wet-bulb', {ps[0]: dry, ps[1]: p, ps[2]: NONE, ps[3]: wet}, orc.call('vapour_wet', dry=dry, p=p, wet=wet), 'e = E_w(wet) - 0.000662 p (dry - wet) (eq. 5.27, 5.28)')):
        del MATH_CALLS[:]
        ev = Evaluator(repo)
        ev.never_none = {'dry', 'p', 'rh', 'wet'}
        got = ev.call_function(f, args)
        check_equal(rep, 'R-FORMULA', base + tag, w, got, ref, txt)
        key = 'R-DOMAIN::geodepy/survey.py::part_h2o_vap_press::logarithm[%s]' % tag
        bad = None
        for fn_, short, node, arg, res in MATH_CALLS:
            if not short.startswith('log') or not isinstance(arg, Rat):
                continue
            aff = _affine_single_symbol(arg)
            if aff is not None and aff[0] in dom:
                lo, hi = dom[aff[0]]
                mn = min(aff[1] + aff[2] * lo, aff[1] + aff[2] * hi)
                if mn <= 0:
                    bad = bad or (fn_, node, aff[0], lo if aff[1] + aff[2] * lo <= 0 else hi)
        if bad:
            fn_, node, sym, at = bad
            rep.violated('R-DOMAIN', key, where(fn_, node) if fn_ is not None else w, '`%s` takes the logarithm of a quantity that is zero at %s = %s, a value of the range (dry air: 0 %% humidity): '
                         'math.log raises ValueError where the correction is defined' % (stmt_text(node)[:60], {'rh': 'relative humidity'}.get(sym, sym), at),
                         expected='no logarithm of the humidity (e = E_w H / 100 is 0 for dry air)', actual=stmt_text(node)[:80])
        else:
            rep.holds('R-DOMAIN', key, w, 'no logarithm of a quantity that reaches zero inside the ranges', work=False)


def humidity_rules(repo, rep):
    """the vapour pressure is linear in the relative humidity over the whole range 0..100 %: PV = H/100 * saturation pressure(T).  A helper that
    re-reads part of the range in another unit (a fraction below 1) is not: decided as d^2 PV / dH^2 = 0 and no branch on H"""
    f = repo.func('geodepy.survey', 'humidity2part_water_vapour_press')
    rep.analysed(f)
    w = where(f, f.node)
    key = 'R-FORMULA::geodepy/survey.py::humidity2part_water_vapour_press::linear-in-humidity'
    ev = Evaluator(repo)
    ps = [p.name for p in f.params]
    got = ev.call_function(f, {ps[0]: Rat.sym('rh'), ps[1]: Rat.sym('tc')})
    if not isinstance(got, Rat):
        rep.undecided('R-FORMULA', key, w, 'the vapour pressure does not evaluate to a number')
        return
    h = alg.TABLE.sym('rh')
    branches = [a for a in got.atoms(deep=True) if alg.TABLE.atoms[a].kind == 'fn' and alg.TABLE.atoms[a].name == 'ite'
                and isinstance(alg.TABLE.atoms[a].args[0], Rat) and h.id in alg.TABLE.atoms[a].args[0].atoms(deep=True)]
    if branches:
        c0 = alg.TABLE.atoms[branches[0]].args[0]
        rep.violated('R-FORMULA', key, w, 'the vapour pressure depends on a case distinction on the humidity itself (%s): part of the range 0..100 %% is read in another unit, so '
                     'the pressure is not H/100 times the saturation pressure there (a reading of 1 %% gives the vapour pressure of saturated air)' % show(c0, 2, 80),
                     expected='PV = H/100 * e_s(T) for every H in [0, 100]', actual=show(got, 2, 160))
        return
    try:
        d2 = alg.diff(alg.diff(got, h.id), h.id)
        at0 = alg.subst(got, {h.id: C(0)})
    except Exception as e:
        rep.undecided('R-FORMULA', key, w, 'not differentiable in the humidity: %s' % e)
        return
    if alg.decide_equal(d2, C(0)) == 'equal' and alg.decide_equal(at0, C(0)) == 'equal':
        rep.holds('R-FORMULA', key, w, 'PV is proportional to the relative humidity (second derivative zero, PV(0) = 0): one unit over the whole range 0..100 %')
    else:
        rep.violated('R-FORMULA', key, w, 'the vapour pressure is not proportional to the relative humidity', expected='PV = H/100 * e_s(T)', actual=show(got, 2, 160))


def run(repo, rep):
    alg.reset()
    common.typecheck_rules(repo, rep)
    rep.trust('sv/alg.py exact normal forms and exact differentiation; decimal literals are read as exact rationals')
    rep.trust('reference: Rueger (2012) eq. 6.11, 6.12; Ciddor (1996) eq. 9 as the sigma-derivative of eq. 1')
    orc = Oracle(ORACLE)
    optnum(repo, rep)
    plane_rules(repo, rep, orc)
    fvc_rules(repo, rep, orc)
    params_rules(repo, rep)
    humidity_rules(repo, rep)
    vapour_rules(repo, rep, orc)
    dispersion_rule(repo, rep)
    # every local is assigned on all paths to its uses: a branch chain without its closing case (wet_temp > 0 / wet_temp < 0 and nothing for
    # exactly 0 - a temperature the property names) leaves the variable unbound
    from ..rules import defassign_rule
    for q in ('first_vel_params', 'part_h2o_vap_press', 'first_vel_corrn', 'mets_partial_differentials', 'va_conv', 'joins', 'radiations',
              'phase_refractivity', 'group_refractivity', 'humidity2part_water_vapour_press'):
        g_ = repo.module('geodepy.survey').functions.get(q)
        if g_ is not None:
            defassign_rule(rep, g_)
    # the raising tests of every routine as predicates over the property's input box: none may fire inside it
    box = 'the quantifier of the property (coordinates to 1e7 m, the full circle of bearings plus a rotation, zenith angles 0..360, slope distances to 50 km)'
    common.domain_guards(repo, rep, 'geodepy.convert', 'polar2rect', ['r', 'theta'], {'r': (0, 10000000), 'theta': (-360, 720)}, box)
    common.domain_guards(repo, rep, 'geodepy.convert', 'rect2polar', ['x', 'y'], {'x': (-10000000, 10000000), 'y': (-10000000, 10000000)}, box)
    common.domain_guards(repo, rep, 'geodepy.survey', 'joins', ['e1', 'n1', 'e2', 'n2'],
                         {'e1': (-10000000, 10000000), 'n1': (-10000000, 10000000), 'e2': (-10000000, 10000000), 'n2': (-10000000, 10000000)}, box)
    common.domain_guards(repo, rep, 'geodepy.survey', 'radiations', ['e1', 'n1', 'brg', 'dist', 'rotation', 'psf'],
                         {'e1': (-10000000, 10000000), 'n1': (-10000000, 10000000), 'brg': (0, 360), 'dist': (0, 50000), 'rotation': (-360, 360), 'psf': (F(9, 10), F(11, 10))}, box)
    for lo_, hi_, sfx in ((F(1, 100), F(17999, 100), '[face left]'), (F(18001, 100), F(35999, 100), '[face right]')):
        common.domain_guards(repo, rep, 'geodepy.survey', 'va_conv', ['zenith', 'slope', 'hi', 'ht'],
                             {'zenith': (lo_, hi_), 'slope': (F(1, 10), 50000), 'hi': (-5, 5), 'ht': (-5, 5)}, box, suffix=sfx)
    rep.floor('R-FORMULA', 9, 'plane, zenith and velocity-correction formulas')


def controls(repo):
    out = []
    out.append(('group-coefficient', text_variant(repo, 'geodepy/survey.py', '5.0 * W2 * TEMP2', '4.0 * W2 * TEMP2'), 'dispersion'))
    src = repo.sources['geodepy/survey.py']

    def swap(fn):
        def pred(n):
            return isinstance(n, ast.Call) and getattr(n.func, 'id', '') == 'rect2polar'

        def make(n):
            n.args = [n.args[1], n.args[0]]
            return n
        substitute(fn, pred, make, limit=1, expect=1)
    out.append(('joins-axes-swapped', repo.variant({'geodepy/survey.py': replace_in_function(src, 'joins', swap)}), 'joins'))
    out.append(('phase-default-co2', text_variant(repo, 'geodepy/survey.py', 'def phase_refractivity(LAMDA, TC, P, PV, XC=420):', 'def phase_refractivity(LAMDA, TC, P, PV, XC=450):'), 'defaults'))
    out.append(('wet-bulb-brackets', text_variant(repo, 'geodepy/survey.py', 'e = E_w - 0.000662 * pressure * (dry_temp - wet_temp)', 'e = E_w - 0.000662 * pressure * dry_temp - wet_temp'), 'part_h2o_vap_press::wet-bulb'))
    src_ = repo.sources['geodepy/survey.py']
    a_, b_ = 'from math import sqrt, sin, cos, atan, radians, degrees, exp\n', '        e = (E_w*rel_humidity)/100\n'
    if src_.count(a_) != 1 or src_.count(b_) != 1:
        raise AnalysisError('control: anchors of the logarithm control not found in geodepy/survey.py')
    out.append(('humidity-through-a-logarithm', repo.variant({'geodepy/survey.py': src_.replace(a_, a_[:-1] + ', log\n').replace(b_, '        e = E_w * exp(log(rel_humidity / 100))\n')}), 'logarithm[humidity]'))
    return out
