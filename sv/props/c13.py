"""C13 - MGA94 <-> MGA2020 (transform.transform_mga94_to_mga2020 / transform_mga2020_to_mga94): pipeline wiring."""
import ast
from .. import alg
from ..alg import Rat, C
from ..model import AnalysisError
from ..symval import Evaluator, Tup, Obj, NoneV, NONE, CallV, Bool, Mat
from ..symcheck import Oracle, check_equal, compare_values, show
from ..rules import where
from . import common
from ..mutate import replace_in_function, substitute

META = {
    'level': 'other',
    'rule_text': 'rule instances: each of the five returned values of both functions, in three covariance configurations (absent, 3x3, 3x1 variance '
                 'column), against the reference composition grid2geo -> llh2xyz -> conform7 -> xyz2llh -> geo2grid (automatic zone) written once in '
                 'the checker, with every callee kept as an opaque call atom carrying all its formal parameters (defaults explicit); the height rule; '
                 'the covariance path (local->Cartesian at the input position, Cartesian->local at the output position); direction constants; rounding; '
                 'array-shape soundness of both covariance shapes through the inlined callees; every element of the returned covariance against '
                 'R2^T J diag(R1 V R1^T, sd^2) J^T R2 end to end (callees inlined, published GDA94->GDA2020 figures) and stage by stage',
    'explanation': 'Static: both pipeline functions are abstractly evaluated with their seven callees opaque, so the value of every returned slot '
                   'is a nest of call atoms that shows exactly which stage fed which argument; it is compared with the reference nest. '
                   'Decides that each direction IS the stepwise composition the property names (no stage skipped, none fed from an earlier '
                   'stage\'s variable, default GRS80/UTM everywhere, forward set / its negation), the height and covariance rules. A second '
                   'evaluation inlines the covariance callees over symbolic 3x3 / 3x1 arrays: the result is compared, as an exact normal form, with '
                   'the congruence R2^T J Q J^T R2 whose Jacobian is confirmed by exact differentiation inside the checker (hence symmetric PSD '
                   'for PSD input); shape errors (an index outside a 3x1 array) are reported as violations. The numerical round-trip figures '
                   '(0.3 mm / 0.2 mm) follow from C02, C03, C06 in floating point and are not decided here.',
}

OPAQUE = {'grid2geo', 'llh2xyz', 'conform7', 'xyz2llh', 'geo2grid', 'vcv_local2cart', 'vcv_cart2local', 'Transformation.__neg__'}

ORACLE = '''
from geodepy.convert import grid2geo, llh2xyz, xyz2llh, geo2grid
from geodepy.transform import conform7
from geodepy.statistics import vcv_local2cart, vcv_cart2local
from geodepy.constants import gda94_to_gda2020

def pipeline(zone, east, north, ell_ht, vcv, forward):
    g = grid2geo(zone, east, north)
    lat = g[0]
    lon = g[1]
    if ell_ht is False:
        h = 0
    else:
        h = ell_ht
    if vcv is not None:
        vcv = vcv_local2cart(vcv, lat, lon)
    c = llh2xyz(lat, lon, h)
    if forward:
        t = conform7(c[0], c[1], c[2], gda94_to_gda2020, vcv)
    else:
        t = conform7(c[0], c[1], c[2], -gda94_to_gda2020, vcv)
    q = xyz2llh(t[0], t[1], t[2])
    v = t[3]
    if v is not None:
        v = vcv_cart2local(v, q[0], q[1])
    hout = q[2]
    if ell_ht is False:
        hout = 0
    p = geo2grid(q[0], q[1])
    return p[1], p[2], p[3], hout, v
'''


def _run(repo, rep):
    alg.reset()
    from .. import symcheck as _sc
    _sc.set_ranges({'x': (1.0e6, 7.0e6), 'y': (1.0e6, 7.0e6), 'z': (1.0e6, 7.0e6)})
    common.state_rule(repo, rep, [('geodepy.transform', 'transform_mga94_to_mga2020'), ('geodepy.transform', 'transform_mga2020_to_mga94')])
    published_rules(repo, rep)
    wire_rules(repo, rep)
    shape_rules(repo, rep)
    covariance_rules(repo, rep)
    stage_rules(repo, rep)
    rep.floor('R-FORMULA', 54, 'nine covariance elements: end to end (two directions, three input shapes) and per stage (two rotations, two directions of the similarity)')


GDA2020_PUBLISHED = {'tx': '0.06155', 'ty': '-0.01087', 'tz': '-0.04019', 'sc': '-0.009994', 'rx': '-0.0394924', 'ry': '-0.0327221', 'rz': '-0.0328979'}
GDA2020_PUBLISHED_SD = {'sd_tx': '0.0007', 'sd_ty': '0.0006', 'sd_tz': '0.0007', 'sd_sc': '0.00010', 'sd_rx': '0.000011', 'sd_ry': '0.000010', 'sd_rz': '0.000011'}


def published_rules(repo, rep):
    """the GDA94 -> GDA2020 set and its uncertainties as published (GDA2020 Technical Manual v1.2, section 3.1: conformal 7-parameter transformation)"""
    from fractions import Fraction as F
    ev = Evaluator(repo)
    m = repo.module('geodepy.constants')
    t = ev.global_value(m, 'gda94_to_gda2020')
    wm = 'geodepy/constants.py:1'
    if not isinstance(t, Obj):
        raise AnalysisError('anchor vanished: constants.gda94_to_gda2020')
    for k, v in sorted(GDA2020_PUBLISHED.items()):
        g = t.fields.get(k)
        gf = g.as_fraction() if isinstance(g, Rat) else None
        key = 'R-TABLE::geodepy/constants.py::gda94_to_gda2020::%s' % k
        if gf == F(v):
            rep.holds('R-TABLE', key, wm, '%s = %s as published' % (k, v))
        else:
            rep.violated('R-TABLE', key, wm, 'gda94_to_gda2020.%s is %s; the published value is %s' % (k, float(gf) if gf is not None else g, v), expected=v, actual=str(gf))
    sd = t.fields.get('tf_sd')
    if not isinstance(sd, Obj):
        rep.violated('R-TABLE', 'R-TABLE::geodepy/constants.py::gda94_to_gda2020::tf_sd', wm, 'the GDA94 -> GDA2020 set carries no parameter uncertainties')
        return
    for k, v in sorted(GDA2020_PUBLISHED_SD.items()):
        g = sd.fields.get(k)
        gf = g.as_fraction() if isinstance(g, Rat) else None
        key = 'R-TABLE::geodepy/constants.py::gda94_to_gda2020_sd::%s' % k
        if gf == F(v):
            rep.holds('R-TABLE', key, wm, '%s = %s as published' % (k, v))
        else:
            rep.violated('R-TABLE', key, wm, 'the uncertainty %s of the GDA94 -> GDA2020 set is %s; the published value is %s: the returned covariance carries a wrong parameter contribution' % (
                k, float(gf) if gf is not None else g, v), expected=v, actual=str(gf))


def wire_rules(repo, rep):
    rep.trust('opaque call atoms carry every formal parameter of the callee with defaults made explicit (sv/symval.py invoke)')
    rep.trust('the five callees themselves are the subject of C01, C02, C03, C06, C16')
    names = ['zone', 'easting', 'northing', 'ellipsoidal height', 'covariance']
    for fname, fwd in (('transform_mga94_to_mga2020', True), ('transform_mga2020_to_mga94', False)):
        f = repo.func('geodepy.transform', fname)
        rep.analysed(f)
        w = where(f, f.node)
        ps = [p.name for p in f.params]
        base = 'R-WIRE::geodepy/transform.py::%s::' % fname
        # three covariance configurations of the quantifier: absent, 3x3, 3x1 column of variances (= its diagonal matrix)
        full = Mat([[Rat.sym('v%d%d' % (min(i, j), max(i, j))) for j in range(3)] for i in range(3)], (3, 3))
        col = Mat([[Rat.sym('v%d%d' % (i, i))] for i in range(3)], (3, 1))
        diag = Mat([[Rat.sym('v%d%d' % (i, i)) if i == j else C(0) for j in range(3)] for i in range(3)], (3, 3))
        for cfg, vin, vref in (('', NONE, NONE), ('[3x3]', full, full), ('[3x1]', col, diag)):
            ev = Evaluator(repo, opaque=OPAQUE)
            args = {ps[0]: Rat.sym('zone'), ps[1]: Rat.sym('east'), ps[2]: Rat.sym('north'), ps[3]: Rat.sym('ell_ht'), ps[4]: vin}
            val = ev.call_function(f, args)
            orc = Oracle(ORACLE, base=repo, opaque=OPAQUE)
            ref = orc.call('pipeline', zone=Rat.sym('zone'), east=Rat.sym('east'), north=Rat.sym('north'), ell_ht=Rat.sym('ell_ht'),
                           vcv=vref, forward=Bool(fwd))
            if not isinstance(val, Tup) or len(val.items) != 5:
                rep.undecided('R-WIRE', base + 'shape' + cfg, w, '%s does not evaluate to a 5-tuple' % fname)
                continue
            for i in range(5):
                check_equal(rep, 'R-WIRE', base + names[i].replace(' ', '-') + cfg, w, val.items[i], ref.items[i],
                            '%s of %s = the stepwise composition grid2geo -> llh2xyz -> conform7(%s) -> xyz2llh -> geo2grid%s' % (
                                names[i], fname, 'gda94_to_gda2020' if fwd else '-gda94_to_gda2020',
                                {'': ' (no covariance)', '[3x3]': ' (3x3 covariance)', '[3x1]': ' (3x1 variance column = its diagonal matrix)'}[cfg]))
        # default arguments: no call hands a non-default hemisphere / ellipsoid / projection
        for caller, callee, bound, node in ev.calls:
            if caller != fname:
                continue
            g = None
            for cand in ('grid2geo', 'llh2xyz', 'xyz2llh', 'geo2grid'):
                if callee == cand:
                    g = repo.func('geodepy.convert', cand)
            if g is None:
                continue
            for p in g.params:
                if p.name in ('ellipsoid', 'prj', 'hemisphere', 'zone') and p.default is not None:
                    if p.name == 'zone' and callee != 'geo2grid':
                        continue
                    got = bound.get(p.name)
                    want = ev.eval_in_module(g.module, p.default)
                    key = base + '%s(%s)' % (callee, p.name)
                    if compare_values(got, want) == 'equal':
                        rep.holds('R-WIRE', key, where(f, node), '%s is called with the default %s (GDA94 and GDA2020 are both GRS80/UTM; automatic zone)' % (callee, p.name))
                    else:
                        rep.violated('R-WIRE', key, where(f, node), '%s is called with %s=%s instead of the default' % (callee, p.name, show(got, 2, 120)),
                                     expected=show(want, 2, 120), actual=show(got, 2, 120))
        # rounding of the height
        hit = False
        for fn, digits, value, line in ev.roundings:
            if fn == fname:
                hit = True
                key = 'R-ROUND::geodepy/transform.py::%s::height' % fname
                if digits is None or digits < 4:
                    rep.violated('R-ROUND', key, '%s:%d' % (f.module.relpath, line), 'height rounded to %s decimals: coarser than 0.05 mm' % digits,
                                 expected='>= 4', actual=str(digits))
                else:
                    rep.holds('R-ROUND', key, '%s:%d' % (f.module.relpath, line), 'height rounded to %d decimals' % digits)
    rep.floor('R-WIRE', 30, 'five results of two functions in three covariance configurations')


COV_ORACLE = '''
from math import radians, sin, cos
import numpy as np
from geodepy.convert import grid2geo, llh2xyz, xyz2llh
from geodepy.constants import gda94_to_gda2020

def rot(lat, lon):
    p = radians(lat)
    l = radians(lon)
    # columns: unit east, north, up vectors in the Cartesian frame
    return np.array([[-sin(l), -sin(p) * cos(l), cos(p) * cos(l)],
                     [cos(l), -sin(p) * sin(l), cos(p) * sin(l)],
                     [0.0, cos(p), sin(p)]])

def jac(x, y, z, s, rx, ry, rz):
    # d(t + s R x)/d(x, y, z, s, rx, ry, rz, tx, ty, tz),  R = [[1, rz, -ry], [-rz, 1, rx], [ry, -rx, 1]]
    return np.array([[s, s * rz, -s * ry, x + rz * y - ry * z, 0.0, -s * z, s * y, 1.0, 0.0, 0.0],
                     [-s * rz, s, s * rx, -rz * x + y + rx * z, s * z, 0.0, -s * x, 0.0, 1.0, 0.0],
                     [s * ry, -s * rx, s, ry * x - rx * y + z, -s * y, s * x, 0.0, 0.0, 0.0, 1.0]])

def cov(zone, east, north, ell_ht, V, forward):
    g = grid2geo(zone, east, north)
    if ell_ht is False:
        h = 0
    else:
        h = ell_ht
    c = llh2xyz(g[0], g[1], h)
    if forward:
        t = gda94_to_gda2020
    else:
        t = -gda94_to_gda2020
    s = 1 + t.sc / 1000000
    rx = radians(t.rx / 3600)
    ry = radians(t.ry / 3600)
    rz = radians(t.rz / 3600)
    X = t.tx + s * (c[0] + rz * c[1] - ry * c[2])
    Y = t.ty + s * (-rz * c[0] + c[1] + rx * c[2])
    Z = t.tz + s * (ry * c[0] - rx * c[1] + c[2])
    q = xyz2llh(X, Y, Z)
    R1 = rot(g[0], g[1])
    Vc = R1 @ V @ R1.transpose()
    Q = np.zeros((10, 10))
    for i in range(3):
        for j in range(3):
            Q[i, j] = Vc[i, j]
    sd = t.tf_sd
    Q[3, 3] = (sd.sd_sc / 1000000) ** 2
    Q[4, 4] = radians(sd.sd_rx / 3600) ** 2
    Q[5, 5] = radians(sd.sd_ry / 3600) ** 2
    Q[6, 6] = radians(sd.sd_rz / 3600) ** 2
    Q[7, 7] = sd.sd_tx ** 2
    Q[8, 8] = sd.sd_ty ** 2
    Q[9, 9] = sd.sd_tz ** 2
    J = jac(c[0], c[1], c[2], s, rx, ry, rz)
    W = J @ Q @ J.transpose()
    R2 = rot(q[0], q[1])
    return R2.transpose() @ W @ R2
'''

COV_OPAQUE = {'grid2geo', 'llh2xyz', 'xyz2llh', 'geo2grid'}


def covariance_rules(repo, rep):
    """end to end: returned local covariance = R2^T J diag(R1 V R1^T, sd^2) J^T R2 with the published GDA94->GDA2020 figures"""
    # the Jacobian written in the oracle is itself confirmed by exact differentiation of the similarity formula
    orc = Oracle(COV_ORACLE, base=repo, opaque=COV_OPAQUE)
    names = ['x', 'y', 'z', 's', 'rx', 'ry', 'rz']
    P = dict((n, Rat.sym('p' + n)) for n in names + ['tx', 'ty', 'tz'])
    Fs = [P['tx'] + P['s'] * (P['x'] + P['rz'] * P['y'] - P['ry'] * P['z']),
          P['ty'] + P['s'] * (-P['rz'] * P['x'] + P['y'] + P['rx'] * P['z']),
          P['tz'] + P['s'] * (P['ry'] * P['x'] - P['rx'] * P['y'] + P['z'])]
    J = orc.call('jac', **dict((n, P[n]) for n in names))
    order = names + ['tx', 'ty', 'tz']
    for i in range(3):
        for k, n in enumerate(order):
            if alg.decide_equal(J.data[i][k], alg.diff(Fs[i], alg.TABLE.sym('p' + n).id)) != 'equal':
                raise AnalysisError('checker oracle: Jacobian entry (%d,%s) is not the derivative of the similarity formula' % (i, n))
    for fname, fwd in (('transform_mga94_to_mga2020', True), ('transform_mga2020_to_mga94', False)):
        f = repo.func('geodepy.transform', fname)
        w = where(f, f.node)
        ps = [p.name for p in f.params]
        for cfg in ('3x3', '3x1', 'zero'):
            if cfg == '3x3':
                vin = Mat([[Rat.sym('v%d%d' % (min(i, j), max(i, j))) for j in range(3)] for i in range(3)], (3, 3))
                vref = vin
            elif cfg == 'zero':
                # the zero matrix is a symmetric PSD covariance (a point held fixed): the parameter contribution must still come back
                vin = Mat([[C(0) for j in range(3)] for i in range(3)], (3, 3))
                vref = Mat([[C(0) for j in range(3)] for i in range(3)], (3, 3))
            else:
                vin = Mat([[Rat.sym('v%d%d' % (i, i))] for i in range(3)], (3, 1))
                vref = Mat([[Rat.sym('v%d%d' % (i, i)) if i == j else C(0) for j in range(3)] for i in range(3)], (3, 3))
            ev = Evaluator(repo, opaque=COV_OPAQUE)
            val = ev.call_function(f, {ps[0]: Rat.sym('zone'), ps[1]: Rat.sym('east'), ps[2]: Rat.sym('north'), ps[3]: Rat.sym('ell_ht'), ps[4]: vin})
            o = Oracle(COV_ORACLE, base=repo, opaque=COV_OPAQUE)
            ref = o.call('cov', zone=Rat.sym('zone'), east=Rat.sym('east'), north=Rat.sym('north'), ell_ht=Rat.sym('ell_ht'), V=vref, forward=Bool(fwd))
            got = val.items[4] if isinstance(val, Tup) and len(val.items) == 5 else None
            base = 'R-FORMULA::geodepy/transform.py::%s::covariance%s' % (fname, cfg)
            if isinstance(got, NoneV):
                rep.violated('R-BRANCH', base.replace('R-FORMULA', 'R-BRANCH'), w, 'a supplied %s covariance is answered with None: the parameter-uncertainty contribution is lost' % cfg,
                             expected='a 3x3 covariance', actual='None')
                continue
            if not isinstance(got, Mat) or got.shape != (3, 3) or not isinstance(ref, Mat):
                rep.undecided('R-FORMULA', base, w, 'returned covariance for a %s input is not a 3x3 array: %s' % (cfg, show(got, 2, 120)))
                continue
            for i in range(3):
                for j in range(3):
                    check_equal(rep, 'R-FORMULA', base + '[%d,%d]' % (i, j), w, got.data[i][j], ref.data[i][j],
                                'local covariance (%d,%d) of %s = (R2^T J diag(R1 V R1^T, sd^2) J^T R2)[%d,%d]: input rotated to Cartesian at the input '
                                'position, propagated through the similarity Jacobian with the published uncertainties, rotated back at the output position '
                                '(a congruence of a PSD matrix: symmetric PSD)' % (i, j, fname, i, j))


STAGE_ORACLE = COV_ORACLE + '''

def local2cart(V, lat, lon):
    R = rot(lat, lon)
    return R @ V @ R.transpose()

def cart2local(V, lat, lon):
    R = rot(lat, lon)
    return R.transpose() @ V @ R

def helmert_cov(x, y, z, Vc, forward):
    if forward:
        t = gda94_to_gda2020
    else:
        t = -gda94_to_gda2020
    s = 1 + t.sc / 1000000
    rx = radians(t.rx / 3600)
    ry = radians(t.ry / 3600)
    rz = radians(t.rz / 3600)
    Q = np.zeros((10, 10))
    for i in range(3):
        for j in range(3):
            Q[i, j] = Vc[i, j]
    sd = t.tf_sd
    Q[3, 3] = (sd.sd_sc / 1000000) ** 2
    Q[4, 4] = radians(sd.sd_rx / 3600) ** 2
    Q[5, 5] = radians(sd.sd_ry / 3600) ** 2
    Q[6, 6] = radians(sd.sd_rz / 3600) ** 2
    Q[7, 7] = sd.sd_tx ** 2
    Q[8, 8] = sd.sd_ty ** 2
    Q[9, 9] = sd.sd_tz ** 2
    J = jac(x, y, z, s, rx, ry, rz)
    return J @ Q @ J.transpose()
'''


def stage_rules(repo, rep):
    """the three covariance stages one at a time, each over its own symbolic inputs (decidable where the end-to-end comparison is too deep):
    local->Cartesian rotation, propagation through the similarity with the published set, Cartesian->local rotation"""
    V = Mat([[Rat.sym('v%d%d' % (min(i, j), max(i, j))) for j in range(3)] for i in range(3)], (3, 3))
    for fname, oname, txt in (('vcv_local2cart', 'local2cart', 'R V R^T'), ('vcv_cart2local', 'cart2local', 'R^T V R')):
        f = repo.func('geodepy.statistics', fname)
        rep.analysed(f)
        w = where(f, f.node)
        ps = [p.name for p in f.params]
        got = Evaluator(repo).call_function(f, {ps[0]: V, ps[1]: Rat.sym('lat'), ps[2]: Rat.sym('lon')})
        ref = Oracle(STAGE_ORACLE, base=repo, opaque=COV_OPAQUE).call(oname, V=V, lat=Rat.sym('lat'), lon=Rat.sym('lon'))
        base = 'R-FORMULA::geodepy/statistics.py::%s::' % fname
        if not isinstance(got, Mat) or got.shape != (3, 3):
            rep.undecided('R-FORMULA', base + 'shape', w, '%s of a 3x3 matrix is not a 3x3 array' % fname)
            continue
        for i in range(3):
            for j in range(3):
                check_equal(rep, 'R-FORMULA', base + '[%d,%d]' % (i, j), w, got.data[i][j], ref.data[i][j],
                            '%s = %s with R the east/north/up column matrix, element (%d,%d)' % (fname, txt, i, j))
    f = repo.func('geodepy.transform', 'conform7')
    rep.analysed(f)
    w = where(f, f.node)
    ps = [p.name for p in f.params]
    for fwd, label in ((True, 'gda94_to_gda2020'), (False, '-gda94_to_gda2020')):
        ev = Evaluator(repo)
        m = repo.module('geodepy.constants')
        t = ev.global_value(m, 'gda94_to_gda2020')
        if not fwd:
            neg = repo.cls('geodepy.constants', 'Transformation').methods['__neg__']
            t = ev.call_function(neg, {neg.params[0].name: t})
        got = ev.call_function(f, {ps[0]: Rat.sym('x'), ps[1]: Rat.sym('y'), ps[2]: Rat.sym('z'), ps[3]: t, ps[4]: V})
        ref = Oracle(STAGE_ORACLE, base=repo, opaque=COV_OPAQUE).call('helmert_cov', x=Rat.sym('x'), y=Rat.sym('y'), z=Rat.sym('z'), Vc=V, forward=Bool(fwd))
        base = 'R-FORMULA::geodepy/transform.py::conform7(%s)::covariance' % label
        g = got.items[3] if isinstance(got, Tup) and len(got.items) == 4 else None
        if not isinstance(g, Mat) or g.shape != (3, 3):
            rep.undecided('R-FORMULA', base, w, 'conform7 with the published set and a 3x3 covariance does not return a 3x3 array: %s' % show(g, 2, 120))
            continue
        for i in range(3):
            for j in range(3):
                check_equal(rep, 'R-FORMULA', base + '[%d,%d]' % (i, j), w, g.data[i][j], ref.data[i][j],
                            'Cartesian covariance (%d,%d) through conform7 with %s = (J diag(V, sd^2) J^T)[%d,%d]' % (i, j, label, i, j))


def shape_rules(repo, rep):
    """both covariance shapes of the quantifier (3x3 and a 3x1 variance column) must reach a 3x3 result without an indexing error"""
    from ..symval import Mat
    for fname in ('transform_mga94_to_mga2020', 'transform_mga2020_to_mga94'):
        f = repo.func('geodepy.transform', fname)
        ps = [p.name for p in f.params]
        for shp in ((3, 3), (3, 1)):
            ev = Evaluator(repo, opaque={'grid2geo', 'llh2xyz', 'xyz2llh', 'geo2grid'})
            V = Mat([[Rat.sym('v%d%d' % ((min(i, j), max(i, j)) if shp[0] == shp[1] else (i, j))) for j in range(shp[1])] for i in range(shp[0])], shp)
            val = ev.call_function(f, {ps[0]: Rat.sym('zone'), ps[1]: Rat.sym('east'), ps[2]: Rat.sym('north'), ps[3]: Rat.sym('ell_ht'), ps[4]: V})
            key = 'R-SHAPE::geodepy/transform.py::%s::vcv%dx%d' % (fname, shp[0], shp[1])
            probs = [(k, wh, msg) for k, wh, msg in ev.diagnostics if k in ('shape', 'shape-store')]
            out = val.items[4] if isinstance(val, Tup) and len(val.items) == 5 else None
            if probs:
                k, wh, msg = probs[0]
                rep.violated('R-SHAPE', key, wh or where(f, f.node), 'a %dx%d covariance does not get through the pipeline: %s (IndexError / shape error at run time)' % (shp[0], shp[1], msg),
                             expected='a 3x3 covariance reaches conform7', actual=msg)
            elif isinstance(out, Mat) and out.shape == (3, 3):
                rep.holds('R-SHAPE', key, where(f, f.node), 'a %dx%d input covariance yields a 3x3 local covariance' % shp)
            else:
                rep.undecided('R-SHAPE', key, where(f, f.node), 'result covariance for a %dx%d input: %s' % (shp[0], shp[1], show(out, 2, 80)))


def wire_only(repo, rep):
    alg.reset()
    wire_rules(repo, rep)


def stage_only(repo, rep):
    alg.reset()
    stage_rules(repo, rep)


def run(repo, rep):
    from ..symval import INPLACE_EVENTS
    del INPLACE_EVENTS[:]
    _run(repo, rep)
    # the result is expressed in the natural zone of the transformed position: the automatic zone of geo2grid on the lattice
    common.zone_table_rule(repo, rep)
    common.numeric_type_rule(repo, rep, [('geodepy.transform', 'transform_mga94_to_mga2020'), ('geodepy.transform', 'transform_mga2020_to_mga94'), ('geodepy.transform', 'conform7')])
    common.partial_call_rule(repo, rep, [('geodepy.transform', 'conform7'), ('geodepy.statistics', 'vcv_local2cart'), ('geodepy.statistics', 'vcv_cart2local'), ('geodepy.transform', 'transform_mga94_to_mga2020'), ('geodepy.transform', 'transform_mga2020_to_mga94')], 'the covariance matrices')
    # in-place array updates met while evaluating the functions above (element type follows the caller's numbers)
    # the propagated covariance is conform7's: its point formula, Jacobian (every column against the exact derivative) and branches are part
    # of what the MGA functions return - and so are the rotations of geodepy.statistics (zero variances included: a singular covariance is valid)
    from . import c06, c16
    c06._run(repo, rep)
    c16.exact_symmetry_guard_rule(repo, rep)
    c16.variance_guard_rule(repo, rep)
    common.dtype_rule(repo, rep, [('geodepy.transform', 'conform7'), ('geodepy.transform', 'transform_mga94_to_mga2020'), ('geodepy.transform', 'transform_mga2020_to_mga94'), ('geodepy.statistics', 'vcv_local2cart'), ('geodepy.statistics', 'vcv_cart2local'), ('geodepy.statistics', 'rotation_matrix')])


def controls(repo):
    out = []
    src = repo.sources['geodepy/transform.py']

    def stale_lat(fn):
        # vcv_cart2local rotated at the input position: rename the second 'lat, lon, ell_ht_out = xyz2llh' targets
        def pred(n):
            return isinstance(n, ast.Assign) and isinstance(n.value, ast.Call) and getattr(n.value.func, 'id', '') == 'xyz2llh'

        def make(n):
            n.targets[0].elts[0].id = 'lat_new'
            n.targets[0].elts[1].id = 'lon_new'
            return n
        substitute(fn, pred, make, limit=1, expect=1)

        def pred2(n):
            return isinstance(n, ast.Call) and getattr(n.func, 'id', '') == 'geo2grid'

        def make2(n):
            n.args = [ast.Name(id='lat_new', ctx=ast.Load()), ast.Name(id='lon_new', ctx=ast.Load())]
            return n
        substitute(fn, pred2, make2, limit=1, expect=1)
    out.append(('covariance-rotated-at-input-position', repo.variant({'geodepy/transform.py': replace_in_function(src, 'transform_mga94_to_mga2020', stale_lat)}), 'covariance', wire_only))

    def height_in(fn):
        def pred(n):
            return isinstance(n, ast.Call) and getattr(n.func, 'id', '') == 'llh2xyz'

        def make(n):
            # the given height is ignored: the point is always taken on the ellipsoid
            # (handing `ell_ht` itself on would NOT be a defect: False is 0 in arithmetic - an earlier version of this control did that and
            #  fired only through an unsound verdict of the engine, see DESIGN 11.11)
            n.args[2] = ast.Constant(value=0)
            return n
        substitute(fn, pred, make, limit=1, expect=1)
    out.append(('height-ignored', repo.variant({'geodepy/transform.py': replace_in_function(src, 'transform_mga2020_to_mga94', height_in)}), 'transform_mga2020_to_mga94', wire_only))
    src3 = repo.sources['geodepy/statistics.py']

    def untransposed(fn):
        # vcv_cart2local computes R V R^T (the other direction's congruence)
        def pred(n):
            return isinstance(n, ast.Assign) and isinstance(n.targets[0], ast.Name) and n.targets[0].id == 'vcv_local' and isinstance(n.value, ast.BinOp)

        def make(n):
            n.value = ast.parse('rot_matrix @ vcv_cart @ rot_matrix.transpose()').body[0].value
            return n
        substitute(fn, pred, make, limit=1, expect=1)
    out.append(('covariance-rotated-the-wrong-way', repo.variant({'geodepy/statistics.py': replace_in_function(src3, 'vcv_cart2local', untransposed)}), 'vcv_cart2local', stage_only))
    return out
