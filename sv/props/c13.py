"""C13 - MGA94 <-> MGA2020 (transform.transform_mga94_to_mga2020 / transform_mga2020_to_mga94): pipeline wiring."""
import ast
from .. import alg
from ..alg import Rat, C
from ..model import AnalysisError
from ..symval import Evaluator, Tup, Obj, NoneV, NONE, CallV, Bool, Mat
from ..symcheck import Oracle, check_equal, compare_values, show
from ..rules import where
from ..mutate import replace_in_function, substitute

META = {
    'level': 'other',
    'rule_text': 'rule instances: each of the five returned values of both functions against the reference composition '
                 'grid2geo -> llh2xyz -> conform7 -> xyz2llh -> geo2grid (automatic zone) written once in the checker, with every '
                 'callee kept as an opaque call atom carrying all its formal parameters (defaults explicit); the height rule; the '
                 'covariance path (local->Cartesian at the input position, Cartesian->local at the output position); direction constants; rounding',
    'explanation': 'Static: both pipeline functions are abstractly evaluated with their seven callees opaque, so the value of every returned slot '
                   'is a nest of call atoms that shows exactly which stage fed which argument; it is compared with the reference nest. '
                   'Decides that each direction IS the stepwise composition the property names (no stage skipped, none fed from an earlier '
                   'stage\'s variable, default GRS80/UTM everywhere, forward set / its negation), the height and covariance rules. The '
                   'numerical round-trip figures follow from C02, C03, C06 and are not decided here.',
}

OPAQUE = {'grid2geo', 'llh2xyz', 'conform7', 'xyz2llh', 'geo2grid', 'vcv_local2cart', 'vcv_cart2local', 'Transformation.__neg__'}

ORACLE = '''
from geodepy.convert import grid2geo, llh2xyz, xyz2llh, geo2grid
from geodepy.transform import conform7
from geodepy.statistics import vcv_local2cart, vcv_cart2local
from geodepy.constants import gda94_to_gda2020

def pipeline(zone, east, north, ell_ht, vcv, forward):
    g = grid2geo(zone, east, north)
    lat = g[0]
    lon = g[1]
    if ell_ht is False:
        h = 0
    else:
        h = ell_ht
    if vcv is not None:
        vcv = vcv_local2cart(vcv, lat, lon)
    c = llh2xyz(lat, lon, h)
    if forward:
        t = conform7(c[0], c[1], c[2], gda94_to_gda2020, vcv)
    else:
        t = conform7(c[0], c[1], c[2], -gda94_to_gda2020, vcv)
    q = xyz2llh(t[0], t[1], t[2])
    v = t[3]
    if v is not None:
        v = vcv_cart2local(v, q[0], q[1])
    hout = q[2]
    if ell_ht is False:
        hout = 0
    p = geo2grid(q[0], q[1])
    return p[1], p[2], p[3], hout, v
'''


def run(repo, rep):
    alg.reset()
    rep.trust('opaque call atoms carry every formal parameter of the callee with defaults made explicit (sv/symval.py invoke)')
    rep.trust('the five callees themselves are the subject of C01, C02, C03, C06, C16')
    names = ['zone', 'easting', 'northing', 'ellipsoidal height', 'covariance']
    for fname, fwd in (('transform_mga94_to_mga2020', True), ('transform_mga2020_to_mga94', False)):
        f = repo.func('geodepy.transform', fname)
        rep.analysed(f)
        w = where(f, f.node)
        ps = [p.name for p in f.params]
        base = 'R-WIRE::geodepy/transform.py::%s::' % fname
        # three covariance configurations of the quantifier: absent, 3x3, 3x1 column of variances (= its diagonal matrix)
        full = Mat([[Rat.sym('v%d%d' % (i, j)) for j in range(3)] for i in range(3)], (3, 3))
        col = Mat([[Rat.sym('v%d%d' % (i, i))] for i in range(3)], (3, 1))
        diag = Mat([[Rat.sym('v%d%d' % (i, i)) if i == j else C(0) for j in range(3)] for i in range(3)], (3, 3))
        for cfg, vin, vref in (('', NONE, NONE), ('[3x3]', full, full), ('[3x1]', col, diag)):
            ev = Evaluator(repo, opaque=OPAQUE)
            args = {ps[0]: Rat.sym('zone'), ps[1]: Rat.sym('east'), ps[2]: Rat.sym('north'), ps[3]: Rat.sym('ell_ht'), ps[4]: vin}
            val = ev.call_function(f, args)
            orc = Oracle(ORACLE, base=repo, opaque=OPAQUE)
            ref = orc.call('pipeline', zone=Rat.sym('zone'), east=Rat.sym('east'), north=Rat.sym('north'), ell_ht=Rat.sym('ell_ht'),
                           vcv=vref, forward=Bool(fwd))
            if not isinstance(val, Tup) or len(val.items) != 5:
                rep.undecided('R-WIRE', base + 'shape' + cfg, w, '%s does not evaluate to a 5-tuple' % fname)
                continue
            for i in range(5):
                check_equal(rep, 'R-WIRE', base + names[i].replace(' ', '-') + cfg, w, val.items[i], ref.items[i],
                            '%s of %s = the stepwise composition grid2geo -> llh2xyz -> conform7(%s) -> xyz2llh -> geo2grid%s' % (
                                names[i], fname, 'gda94_to_gda2020' if fwd else '-gda94_to_gda2020',
                                {'': ' (no covariance)', '[3x3]': ' (3x3 covariance)', '[3x1]': ' (3x1 variance column = its diagonal matrix)'}[cfg]))
        # default arguments: no call hands a non-default hemisphere / ellipsoid / projection
        for caller, callee, bound, node in ev.calls:
            if caller != fname:
                continue
            g = None
            for cand in ('grid2geo', 'llh2xyz', 'xyz2llh', 'geo2grid'):
                if callee == cand:
                    g = repo.func('geodepy.convert', cand)
            if g is None:
                continue
            for p in g.params:
                if p.name in ('ellipsoid', 'prj', 'hemisphere', 'zone') and p.default is not None:
                    if p.name == 'zone' and callee != 'geo2grid':
                        continue
                    got = bound.get(p.name)
                    want = ev.eval_in_module(g.module, p.default)
                    key = base + '%s(%s)' % (callee, p.name)
                    if compare_values(got, want) == 'equal':
                        rep.holds('R-WIRE', key, where(f, node), '%s is called with the default %s (GDA94 and GDA2020 are both GRS80/UTM; automatic zone)' % (callee, p.name))
                    else:
                        rep.violated('R-WIRE', key, where(f, node), '%s is called with %s=%s instead of the default' % (callee, p.name, show(got, 2, 120)),
                                     expected=show(want, 2, 120), actual=show(got, 2, 120))
        # rounding of the height
        hit = False
        for fn, digits, value, line in ev.roundings:
            if fn == fname:
                hit = True
                key = 'R-ROUND::geodepy/transform.py::%s::height' % fname
                if digits is None or digits < 4:
                    rep.violated('R-ROUND', key, '%s:%d' % (f.module.relpath, line), 'height rounded to %s decimals: coarser than 0.05 mm' % digits,
                                 expected='>= 4', actual=str(digits))
                else:
                    rep.holds('R-ROUND', key, '%s:%d' % (f.module.relpath, line), 'height rounded to %d decimals' % digits)
    rep.floor('R-WIRE', 30, 'five results of two functions in three covariance configurations')
    shape_rules(repo, rep)


def shape_rules(repo, rep):
    """both covariance shapes of the quantifier (3x3 and a 3x1 variance column) must reach a 3x3 result without an indexing error"""
    from ..symval import Mat
    for fname in ('transform_mga94_to_mga2020', 'transform_mga2020_to_mga94'):
        f = repo.func('geodepy.transform', fname)
        ps = [p.name for p in f.params]
        for shp in ((3, 3), (3, 1)):
            ev = Evaluator(repo, opaque={'grid2geo', 'llh2xyz', 'xyz2llh', 'geo2grid'})
            V = Mat([[Rat.sym('v%d%d' % (i, j)) for j in range(shp[1])] for i in range(shp[0])], shp)
            val = ev.call_function(f, {ps[0]: Rat.sym('zone'), ps[1]: Rat.sym('east'), ps[2]: Rat.sym('north'), ps[3]: Rat.sym('ell_ht'), ps[4]: V})
            key = 'R-SHAPE::geodepy/transform.py::%s::vcv%dx%d' % (fname, shp[0], shp[1])
            probs = [(k, wh, msg) for k, wh, msg in ev.diagnostics if k in ('shape', 'shape-store')]
            out = val.items[4] if isinstance(val, Tup) and len(val.items) == 5 else None
            if probs:
                k, wh, msg = probs[0]
                rep.violated('R-SHAPE', key, wh or where(f, f.node), 'a %dx%d covariance does not get through the pipeline: %s (IndexError / shape error at run time)' % (shp[0], shp[1], msg),
                             expected='a 3x3 covariance reaches conform7', actual=msg)
            elif isinstance(out, Mat) and out.shape == (3, 3):
                rep.holds('R-SHAPE', key, where(f, f.node), 'a %dx%d input covariance yields a 3x3 local covariance' % shp)
            else:
                rep.undecided('R-SHAPE', key, where(f, f.node), 'result covariance for a %dx%d input: %s' % (shp[0], shp[1], show(out, 2, 80)))


def controls(repo):
    out = []
    src = repo.sources['geodepy/transform.py']

    def stale_lat(fn):
        # vcv_cart2local rotated at the input position: rename the second 'lat, lon, ell_ht_out = xyz2llh' targets
        def pred(n):
            return isinstance(n, ast.Assign) and isinstance(n.value, ast.Call) and getattr(n.value.func, 'id', '') == 'xyz2llh'

        def make(n):
            n.targets[0].elts[0].id = 'lat_new'
            n.targets[0].elts[1].id = 'lon_new'
            return n
        substitute(fn, pred, make, limit=1, expect=1)

        def pred2(n):
            return isinstance(n, ast.Call) and getattr(n.func, 'id', '') == 'geo2grid'

        def make2(n):
            n.args = [ast.Name(id='lat_new', ctx=ast.Load()), ast.Name(id='lon_new', ctx=ast.Load())]
            return n
        substitute(fn, pred2, make2, limit=1, expect=1)
    out.append(('covariance-rotated-at-input-position', repo.variant({'geodepy/transform.py': replace_in_function(src, 'transform_mga94_to_mga2020', stale_lat)}), 'covariance'))

    def height_in(fn):
        def pred(n):
            return isinstance(n, ast.Call) and getattr(n.func, 'id', '') == 'llh2xyz'

        def make(n):
            n.args[2] = ast.Name(id='ell_ht', ctx=ast.Load())
            return n
        substitute(fn, pred, make, limit=1, expect=1)
    out.append(('height-false-as-number', repo.variant({'geodepy/transform.py': replace_in_function(src, 'transform_mga2020_to_mga94', height_in)}), 'transform_mga2020_to_mga94'))
    return out
