"""C05 - Vincenty inverse (geodesy.vincinv): named necessary conditions only."""
import ast
from fractions import Fraction as F
from .. import alg
from ..alg import Rat, C
from ..model import AnalysisError
from ..symval import Evaluator, Tup, _single_atom, Bool
from ..symcheck import Oracle, sym_ellipsoid, check_equal, leaves, show, compare_values
from ..rules import ThreadRule, where
from ..mutate import replace_in_function, substitute
from . import common, vincenty as V

META = {
    'level': 'other',
    'rule_text': 'rule instances: A, B tables; the lambda iteration map and the quantities it produces (sigma, alpha, cos 2 sigma_m); '
                 'distance and both azimuth formulas incl. the [0, 360) wrap; coincidence shortcut; exact invariance of every result and of '
                 'the iteration under a common longitude offset; provenance; iteration cap/threshold; rounding; angle arguments; angular_typecheck dispatch per angle class; conditioning of the angular distance (atan2 form, R-COND); special-input branches decided by case split with numeric witnesses; statelessness with memo-key analysis',
    'explanation': 'Static: vincinv is abstractly evaluated (loop summarised into its transfer function) and compared with the GDA2020 '
                   'technical manual equations; longitude-shift invariance is decided by substituting lon_i -> lon_i + c in every normal '
                   'form and observing that c cancels identically. Decides the named necessary conditions only; accuracy against the exact '
                   'geodesic, convergence near antipodal points and the 1 mm swap symmetry are numerical and are not decided.',
}


def strip_shortcut(v, cond):
    if isinstance(v, Rat) and cond is not None:
        return alg.assume(v, cond, False)
    return v


def find_shortcut(val):
    """condition of the coincidence shortcut: top-level ite in slot 0 whose true branch is 0"""
    v = val.items[0]
    a = _single_atom(v) if isinstance(v, Rat) else None
    if a is not None and a.kind == 'fn' and a.name == 'ite':
        if isinstance(a.args[1], Rat) and a.args[1].is_zero():
            return a.args[0]
    return None


def run(repo, rep):
    from ..symval import DIV_EVENTS
    del DIV_EVENTS[:]
    _run(repo, rep)
    common.cancellation_rule(repo, rep, [('geodepy.geodesy', 'vincinv')])


def _run(repo, rep):
    alg.reset()
    common.state_rule(repo, rep, [('geodepy.geodesy', 'vincinv')])
    # 'any ellipsoid': the class keeps the defining constants it is given and derives the rest from them
    common.ellipsoid_rules(repo, rep, projections=False)
    common.typecheck_rules(repo, rep)
    common.domain_guards(repo, rep, 'geodepy.geodesy', 'vincinv', ['lat1', 'lon1', 'lat2', 'lon2'],
                         {'lat1': (-90, 90), 'lat2': (-90, 90), 'lon1': (-180, 180), 'lon2': (-180, 180)}, 'latitudes -90..90 (poles included) and longitudes -180..180')
    rep.trust('sv/alg.py exact normal forms; generator independence modulo the rewrite rules applied')
    rep.trust('reference equations: GDA2020 technical manual v1.x eq. 71-85 (Vincenty 1975)')
    f = repo.func('geodepy.geodesy', 'vincinv')
    rep.analysed(f)
    w = where(f, f.node)
    # first of all (independent of whether the formulas below can be formed): the four angle arguments go through angular_typecheck
    for p in f.params[:4]:
        common.angle_param_rule(rep, f, p.name)
    rep.floor('R-UNITS', 4, 'four angle arguments')
    tr = ThreadRule(repo, rep)
    tr.check_const(f)
    tr.check_function(f)       # helpers that take an ellipsoid must receive the caller's
    Ac, Bc = V.series_tables(repo, rep, f, '')
    ev = Evaluator(repo)
    E = sym_ellipsoid(ev, repo, 'ellipsoid')
    ps = [p.name for p in f.params]
    syms = ['lat1', 'lon1', 'lat2', 'lon2']
    args = dict((ps[i], Rat.sym(syms[i])) for i in range(4))
    args[ps[4]] = E
    val = ev.call_function(f, args)
    base = 'R-FORMULA::geodepy/geodesy.py::vincinv::'
    loops = ev.loops.get(f.key, [])
    if not isinstance(val, Tup) or len(val.items) != 3 or len(loops) != 1:
        rep.undecided('R-FORMULA', base + 'shape', w, 'vincinv is not a triple-returning routine with one iteration loop')
        return
    L = loops[0]
    wl = where(f, L.node)
    orc = Oracle(V.ORACLE)
    a, b, fl = E.fields['semimaj'], E.fields['semimin'], E.fields['f']
    u1, u2, omega = orc.call('inverse_setup', lat1=Rat.sym('lat1'), lon1=Rat.sym('lon1'), lat2=Rat.sym('lat2'), lon2=Rat.sym('lon2'), f=fl).items
    # coincidence shortcut
    cond = find_shortcut(val)
    key = 'R-GUARD::geodepy/geodesy.py::vincinv::coincidence'
    if cond is None:
        rep.violated('R-GUARD', key, w, 'coincident points do not short-cut to (0, 0, 0): the general formulas divide by sin(sigma) = 0',
                     expected='if |lat1-lat2| < tol and |lon1-lon2| < tol: return 0, 0, 0', actual=show(val.items[0], 2, 200))
    else:
        ok = True
        ca = _single_atom(cond)
        txt = alg.fmt(cond, 4)
        zero = all(isinstance(x, Rat) and (_single_atom(x) is not None) and isinstance(_single_atom(x).args[1], Rat) and _single_atom(x).args[1].is_zero()
                   for x in val.items)
        uses_lat = 'lat1' in txt and 'lat2' in txt
        uses_lon = 'lon1' in txt and 'lon2' in txt
        if ca is not None and ca.name == 'and' and zero and uses_lat and uses_lon:
            rep.holds('R-GUARD', key, w, 'coincidence test on both coordinates returns (0, 0, 0): %s' % txt[:160])
        else:
            rep.violated('R-GUARD', key, w, 'the coincidence shortcut does not test both coordinates / does not return zeros: %s' % txt[:200],
                         expected='and(|lat1-lat2| < tol, |lon1-lon2| < tol) -> (0, 0, 0)', actual=txt[:300])
    # identify the iterated longitude difference and the quantities the loop produces
    Lam = None
    found = {}
    for v in L.carried:
        if v not in L.post or v not in L.entry:
            continue
        if compare_values(L.entry[v], omega) != 'equal':
            continue
        sig_r, alp_r, c2_r, new_r = orc.call('inverse_step', lam=L.pre[v], omega=omega, u1=u1, u2=u2, f=fl).items
        if compare_values(L.post[v], new_r) == 'equal':
            Lam = v
            for nm, refv in (('sigma', sig_r), ('alpha', alp_r), ('c2sm', c2_r)):
                for m in L.carried:
                    if m in L.post and m != v and compare_values(L.post[m], refv) == 'equal':
                        found[nm] = m
            break
    # conditioning of the angular distance: eq. 16 takes sigma = atan2(sin sigma, cos sigma); an inverse cosine / sine of a quantity that
    # reaches 1 inside the domain (short lines) loses half of the significant digits
    cands0 = [v for v in L.carried if v in L.entry and v in L.post and compare_values(L.entry[v], omega) == 'equal']
    if cands0:
        from ..symcheck import _DefaultRanges
        sig_ref = orc.call('inverse_step', lam=L.pre[cands0[0]], omega=omega, u1=u1, u2=u2, f=fl).items[0]
        for m_ in L.carried:
            pv = L.post.get(m_)
            if not isinstance(pv, Rat) or m_ == cands0[0]:
                continue
            top = _single_atom(pv)
            hops = 0
            while top is not None and top.kind == 'fn' and top.name == 'def' and hops < 20:
                top = _single_atom(top.args[0])
                hops += 1
            if top is not None and top.kind == 'fn' and top.name in ('acos', 'asin') and compare_values(pv, sig_ref) != 'equal' \
                    and alg.numeric_agree(pv, sig_ref, _DefaultRanges()):
                rep.violated('R-COND', 'R-COND::geodepy/geodesy.py::vincinv::sigma', wl, 'the angular distance is taken as %s(...) of a quantity that tends to 1 for short lines: for a '
                             'separation of a few metres it keeps 3 to 4 digits only (a 0.22 m line comes back as 0.232 m, against the 2 mm of the property); '
                             'Vincenty eq. 16 is sigma = atan2(sin sigma, cos sigma)' % top.name, expected='atan2(sin_sigma, cos_sigma)', actual=show(pv, 2, 160))
    if Lam is None:
        cands = [v for v in L.carried if v in L.entry and v in L.post and compare_values(L.entry[v], omega) == 'equal']
        if cands:
            v = cands[0]
            sig_r, alp_r, c2_r, new_r = orc.call('inverse_step', lam=L.pre[v], omega=omega, u1=u1, u2=u2, f=fl).items
            check_equal(rep, 'R-FORMULA', base + 'iteration', wl, L.post[v], new_r,
                        'lambda <- omega + (1-C) f sin alpha (sigma + C sin sigma (cos 2sm + C cos sigma (-1 + 2 cos^2 2sm)))')
        else:
            vs = [v for v in L.carried if v in L.entry and isinstance(L.entry[v], Rat) and not L.entry[v].is_const()]
            if vs:
                check_equal(rep, 'R-FORMULA', base + 'lambda0', wl, L.entry[vs[0]], omega, 'initial lambda = radians(lon2 - lon1)')
            else:
                rep.undecided('R-FORMULA', base + 'iteration', wl, 'no loop-carried variable starts at radians(lon2 - lon1)')
        return
    rep.holds('R-FORMULA', base + 'iteration', wl, '%s <- omega + (1-C) f sin alpha (sigma + C sin sigma (...)) with sigma, alpha, cos 2sm of eq. 74-78' % Lam)
    rep.holds('R-FORMULA', base + 'lambda0', wl, 'initial lambda = radians(lon2 - lon1)')
    if len(found) != 3:
        rep.undecided('R-FORMULA', base + 'loop-quantities', wl, 'sigma / alpha / cos 2 sigma_m produced by the loop not all identified: %s' % sorted(found))
        return
    rep.holds('R-FORMULA', base + 'loop-quantities', wl, 'loop produces sigma (%s), alpha (%s), cos 2 sigma_m (%s) by eq. 74-78' % (found['sigma'], found['alpha'], found['c2sm']))
    rep.holds('R-COND', 'R-COND::geodepy/geodesy.py::vincinv::sigma', wl, 'sigma = atan2(sin sigma, cos sigma) (well conditioned for short lines)')
    sym = lambda v: Rat.sym('%s@L%d' % (v, L.index))
    fin = orc.call('inverse_finish', lam=sym(Lam), sigma=sym(found['sigma']), alpha=sym(found['alpha']), c2sm=sym(found['c2sm']),
                   u1=u1, u2=u2, a=a, b=b, Ac=Ac, Bc=Bc)
    names = ['ell_dist', 'azimuth1to2', 'azimuth2to1']
    texts = ['ell_dist = b A (sigma - delta_sigma)', 'azimuth1to2 = degrees(atan2(cos u2 sin l, cos u1 sin u2 - sin u1 cos u2 cos l)), +360 when negative',
             'azimuth2to1 = degrees(atan2(cos u1 sin l, -sin u1 cos u2 + cos u1 sin u2 cos l)) + 180']
    results = [strip_shortcut(x, cond) for x in val.items]
    for i in range(3):
        check_equal(rep, 'R-FORMULA', base + names[i], w, results[i], fin.items[i], texts[i])
    rep.floor('R-FORMULA', 6, 'iteration, lambda0, loop quantities, three results')
    # ---- longitude-shift invariance: lon1 -> lon1 + c, lon2 -> lon2 + c leaves every form unchanged
    c = Rat.sym('c__')
    l1, l2 = alg.TABLE.sym('lon1'), alg.TABLE.sym('lon2')
    m = {l1.id: Rat.atom(l1) + c, l2.id: Rat.atom(l2) + c}
    todo = [('result %s' % names[i], val.items[i]) for i in range(3)]
    todo += [('loop entry %s' % v, x) for v, x in sorted(L.entry.items())]
    todo += [('loop update %s' % v, x) for v, x in sorted(L.post.items())]
    bad = []
    unk = []
    for nm, v in todo:
        if not isinstance(v, Rat):
            continue
        if l1.id not in v.atoms(deep=True) and l2.id not in v.atoms(deep=True):
            continue
        r = alg.decide_equal(alg.subst(v, m), v)
        if r == 'different':
            bad.append(nm)
        elif r == 'unknown':
            unk.append(nm)
    key = 'R-LEAVES::geodepy/geodesy.py::vincinv::longitude-shift'
    if bad:
        rep.violated('R-LEAVES', key, w, 'a common longitude offset does not cancel in: %s (the longitudes must enter only through lon2 - lon1)' % ', '.join(bad),
                     expected='dependence on lon1, lon2 only through their difference', actual=', '.join(bad))
    elif unk:
        rep.undecided('R-LEAVES', key, w, 'shift invariance not decided for: %s' % ', '.join(unk))
    else:
        rep.holds('R-LEAVES', key, w, 'lon1 and lon2 enter every result, the loop entry values and the loop updates only through lon2 - lon1 (a common offset cancels identically)')
    # is the difference only used under sin/cos (360-degree periodicity)?  follows from the reference forms matched above.
    # ---- provenance
    badl = []
    vals = list(val.items) + list(L.post.values()) + list(L.entry.values())
    for v in vals:
        for leaf in sorted(leaves(v)):
            if leaf.startswith('arg:'):
                if 'const:' in leaf:
                    badl.append(leaf)
            elif '@L' in leaf:
                continue
            elif not leaf.startswith(('lat1', 'lon1', 'lat2', 'lon2', 'pi', 'ellipsoid.')):
                badl.append(leaf)
    key = 'R-LEAVES::geodepy/geodesy.py::vincinv::results'
    if badl:
        rep.violated('R-LEAVES', key, w, 'vincinv uses values that do not come from its arguments or its own ellipsoid: %s' % sorted(set(badl))[:6])
    else:
        rep.holds('R-LEAVES', key, w, 'f, a, b in every formula and in the iteration come from the ellipsoid parameter')
    key = 'R-BOUND::geodepy/geodesy.py::vincinv::iteration'
    V.module_consts(f.module)
    cap = V.loop_cap(L.node)
    thr = V.loop_break_threshold(L.node)
    if cap is None:
        rep.violated('R-BOUND', key, wl, 'the lambda iteration has no syntactic cap', expected='for i in range(N)', actual='unbounded loop')
    elif thr is None or thr > 1e-11:
        rep.violated('R-BOUND', key, wl, 'the lambda iteration stops at |d lambda| < %s: looser than 0.1 mm on the ellipsoid' % thr,
                     expected='threshold <= 1e-11', actual=str(thr))
    elif cap < 100:
        # the lambda iteration converges linearly with a ratio that tends to 1 towards the antipode: pairs 178 degrees apart (inside the
        # property's quantifier) need several tens of passes - with a cap of 10 the loop ends unconverged and the distance is metres off
        rep.violated('R-BOUND', key, wl, 'the lambda iteration is capped at %s passes: point pairs up to 178 degrees apart need several tens of passes to reach %s rad; the loop '
                     'then ends unconverged' % (cap, thr), expected='a cap of 100 or more (the routine documents 1000)', actual=str(cap))
    else:
        rep.holds('R-BOUND', key, wl, 'iteration cap %s, threshold %s rad' % (cap, thr))
    need = {0: 3, 1: 9, 2: 9}
    for fn, digits, value, line in ev.roundings:
        if fn != 'vincinv':
            continue
        for i in range(3):
            r = results[i]
            if isinstance(value, Rat) and isinstance(r, Rat) and value.num == r.num and value.den == r.den:
                key = 'R-ROUND::geodepy/geodesy.py::vincinv::%s' % names[i]
                if digits is None or digits < need[i]:
                    rep.violated('R-ROUND', key, '%s:%d' % (f.module.relpath, line), '%s rounded to %s decimals (needs >= %d)' % (names[i], digits, need[i]),
                                 expected='d >= %d' % need[i], actual='d = %s' % digits)
                else:
                    rep.holds('R-ROUND', key, '%s:%d' % (f.module.relpath, line), '%s rounded to %d decimals' % (names[i], digits))


def controls(repo):
    out = []
    src = repo.sources['geodepy/geodesy.py']

    def abs_lon(fn):
        # initial approximation uses lon2 alone
        def pred(n):
            return isinstance(n, ast.Assign) and isinstance(n.targets[0], ast.Name) and n.targets[0].id == 'lon' \
                and isinstance(n.value, ast.Call) and getattr(n.value.func, 'id', '') == 'radians'

        def make(n):
            n.value.args = [ast.Name(id='lon2', ctx=ast.Load())]
            return n
        substitute(fn, pred, make, limit=1, expect=1)
    out.append(('absolute-longitude', repo.variant({'geodepy/geodesy.py': replace_in_function(src, 'vincinv', abs_lon)}), 'vincinv'))

    def swap_az(fn):
        # azimuth2to1 numerator uses cos(u2)
        def pred(n):
            return isinstance(n, ast.Assign) and isinstance(n.targets[0], ast.Name) and n.targets[0].id == 'azimuth2to1'

        def make(n):
            for c in ast.walk(n.value):
                if isinstance(c, ast.Name) and c.id == 'u1':
                    c.id = 'u2'
                    break
            return n
        substitute(fn, pred, make, limit=1, expect=1)
    out.append(('reverse-azimuth', repo.variant({'geodepy/geodesy.py': replace_in_function(src, 'vincinv', swap_az)}), 'vincinv::azimuth2to1'))
    return out
