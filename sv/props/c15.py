"""C15 - coordinate objects (coord.py)."""
import ast
from .. import alg
from ..alg import Rat, C
from ..model import AnalysisError, Ext, stmt_text
from ..symval import Evaluator, Tup, Obj, NoneV, NONE, CallV, Bool, Ref, IteV, Str, _single_atom
from ..symcheck import Oracle, sym_ellipsoid, sym_projection, check_equal, compare_values, show
from . import common
from ..rules import ThreadRule, where, optnum_rule, defassign, defassign_rule
from ..mutate import replace_in_function, substitute

META = {
    'level': 'other',
    'rule_text': 'rule instances: ellipsoid / projection threading at every conversion call of the six methods; each conversion method '
                 'against a reference written from the property (same functional conversion, own attributes in the right slots, heights '
                 'carried, N = ellipsoidal - orthometric); the 6 x 6 notation dispatch (type produced, method existence, definite assignment, '
                 'heights untouched); presence tests of heights and N value (is None, not truthiness); typed notation dispatch of CoordGeo.notation (a float holds decimal degrees; each branch converts, not relabels)',
    'explanation': 'Static: call-site binding (R-THREAD), abstract evaluation of every conversion method with the functional conversions kept '
                   'as opaque call atoms, compared with a reference composition; enumeration of the finite 6 x 6 notation dispatch; '
                   'definite-assignment and None-vs-falsy analyses. Decides that the objects delegate to the functional API with their own '
                   'ellipsoid, projection and attributes, carry heights unchanged (zero included) and that every notation change is defined. '
                   'The 0.3 mm closure of conversion chains is numerical (C02, C03) and is not decided.',
}

ANGLE_CLASSES = ['DECAngle', 'HPAngle', 'GONAngle', 'DMSAngle', 'DDMAngle']
CONV = {'xyz2llh', 'llh2xyz', 'grid2geo', 'geo2grid'}

ORACLE = '''
from geodepy.constants import grs80, utm
from geodepy.angles import DECAngle, HPAngle, GONAngle, DMSAngle, DDMAngle
from geodepy.convert import xyz2llh, llh2xyz, grid2geo, geo2grid
from geodepy.coord import CoordCart, CoordGeo, CoordTM

def conv(value, notation):
    if notation is DECAngle:
        return DECAngle(value)
    elif notation is HPAngle:
        return DECAngle(value).hpa()
    elif notation is GONAngle:
        return DECAngle(value).gona()
    elif notation is DMSAngle:
        return DECAngle(value).dms()
    elif notation is DDMAngle:
        return DECAngle(value).ddm()
    return value

def cart_geo(x, y, z, nval, ellipsoid, notation):
    r = xyz2llh(x, y, z, ellipsoid)
    if nval is None:
        return CoordGeo(conv(r[0], notation), conv(r[1], notation), r[2])
    return CoordGeo(conv(r[0], notation), conv(r[1], notation), r[2], r[2] - nval)

def geo_cart(lat, lon, ell_ht, orth_ht, ellipsoid):
    if ell_ht is not None:
        c = llh2xyz(lat, lon, ell_ht, ellipsoid)
        if orth_ht is not None:
            return CoordCart(c[0], c[1], c[2], ell_ht - orth_ht)
        else:
            return CoordCart(c[0], c[1], c[2])
    else:
        c = llh2xyz(lat, lon, 0, ellipsoid)
        return CoordCart(c[0], c[1], c[2])

def geo_tm(lat, lon, ell_ht, orth_ht, ellipsoid, projection):
    g = geo2grid(lat, lon, 0, ellipsoid, projection)
    if g[0] == 'North':
        north = True
    else:
        north = False
    return CoordTM(g[1], g[2], g[3], ell_ht, orth_ht, north, projection)

def rnd(v, n):
    if v is None:
        return None
    return round(v, n)

def round_cart(x, y, z, nval, n):
    if nval is None:
        return CoordCart(round(x, n), round(y, n), round(z, n))
    return CoordCart(round(x, n), round(y, n), round(z, n), round(nval, n))

def round_geo(lat, lon, ell_ht, orth_ht, n):
    return CoordGeo(round(lat, n), round(lon, n), rnd(ell_ht, n), rnd(orth_ht, n))

def round_tm(zone, east, north, ell_ht, orth_ht, hemi_north, projection, n):
    return CoordTM(zone, round(east, n), round(north, n), rnd(ell_ht, n), rnd(orth_ht, n), hemi_north, projection)

def tm_geo(zone, east, north, ell_ht, orth_ht, hemi_north, projection, ellipsoid, notation):
    if hemi_north:
        h = 'north'
    else:
        h = 'south'
    r = grid2geo(zone, east, north, h, ellipsoid, projection)
    return CoordGeo(conv(r[0], notation), conv(r[1], notation), ell_ht, orth_ht)
'''


def angle_opaque(repo):
    """keep every function and method of the angles module opaque except the constructors"""
    m = repo.module('geodepy.angles')
    out = set(m.functions)
    for c in m.classes.values():
        for name, f in c.methods.items():
            if name != '__init__':
                out.add(f.qualname)
    return out


def mk_eval(repo, extra=()):
    ev = Evaluator(repo, opaque=set(CONV) | angle_opaque(repo) | set(extra))
    ev.rat_type_is_float = True
    return ev


def notations(repo):
    m = repo.module('geodepy.angles')
    out = [('float', Ref(Ext('builtins.float')))]
    for n in ANGLE_CLASSES:
        out.append((n, Ref(repo.cls('geodepy.angles', n))))
    return out


def string_field_verdict(repo, got, want):
    """fields of two objects that are truth values testing the hemisphere label geo2grid returns: decided for each label it can return"""
    from ..symcheck import string_results, decide_conditions_by_strings
    if not (isinstance(got, Obj) and isinstance(want, Obj) and got.cls.key == want.cls.key):
        return 'unknown', ''
    dom = None
    for k in sorted(set(got.fields) | set(want.fields)):
        a, b = got.fields.get(k), want.fields.get(k)
        if a is None or b is None:
            return 'unknown', ''
        if compare_values(a, b) == 'equal':
            continue
        rats = []

        def walk(v):
            if isinstance(v, IteV):
                walk(v.cond); walk(v.a); walk(v.b)
            elif isinstance(v, Rat):
                rats.append(v)
        walk(a); walk(b)
        gens = {}
        for r_ in rats:
            for i in r_.atoms(deep=True):
                at = alg.TABLE.atoms[i]
                if at.kind == 'fn' and at.name == 'item' and len(at.args) == 2 and isinstance(at.args[0], Rat) and isinstance(at.args[1], Rat) and at.args[1].is_zero():
                    ca = _single_atom(at.args[0])
                    if ca is not None and ca.kind == 'fn' and ca.name == 'call:geo2grid':
                        gens[i] = Rat.atom(at)
        if len(gens) != 1:
            return 'unknown', ''
        if dom is None:
            dom = string_results(repo, 'geodepy.convert', 'geo2grid', 0, opaque={'psfandgridconv', 'alpha_coeff', 'rect_radius'})
        if not dom:
            return 'unknown', ''
        v, sval = decide_conditions_by_strings(a, b, list(gens.values())[0], dom)
        if v == 'different':
            return 'different', '%s: geo2grid returns the hemisphere label %r (it returns one of %s); for that label the code gives %s where the reference gives the opposite' % (
                k, sval, dom, show(a, 2, 80))
        if v != 'equal':
            return 'unknown', ''
    return 'equal', 'fields that test the hemisphere label agree for each label geo2grid can return (%s)' % (dom,)


def type_field_verdict(got, want):
    """a field that is a newly built angle OBJECT where the reference holds a number (or the reverse): the requested notation is not delivered"""
    if not (isinstance(got, Obj) and isinstance(want, Obj) and got.cls is not None and want.cls is not None and got.cls.key == want.cls.key):
        return None
    for k in sorted(set(got.fields) & set(want.fields)):
        a, b = got.fields[k], want.fields[k]
        a_ = a.rat if isinstance(a, CallV) else a
        b_ = b.rat if isinstance(b, CallV) else b
        for x, y, side in ((a_, b_, 'code'), (b_, a_, 'reference')):
            if isinstance(x, Obj) and x.cls is not None and not x.origin and isinstance(y, Rat):
                return '%s: the %s holds a %s object, the %s a plain number (%s)' % (k, side, x.cls.name, 'reference' if side == 'code' else 'code', show(y, 1, 60))
    return None


def hemisphere_numeric_verdict(repo, got, want):
    """hemi_north derived from the latitude on one side and from geo2grid's label on the other: geo2grid's own rule for the label is read off
    its code (label as a conditional string in the latitude) and both sides are evaluated at latitudes -1, -0.0/0, +1 degrees"""
    from ..symcheck import truth_under
    from .. import guards
    from fractions import Fraction as F
    if not (isinstance(got, Obj) and isinstance(want, Obj)) or 'hemi_north' not in got.fields or 'hemi_north' not in want.fields:
        return None
    a, b = got.fields['hemi_north'], want.fields['hemi_north']
    if compare_values(a, b) == 'equal':
        return None
    # the label generator of the reference side
    gen = None
    rats = []

    def walk(v):
        if isinstance(v, IteV):
            walk(v.cond); walk(v.a); walk(v.b)
        elif isinstance(v, Rat):
            rats.append(v)
    walk(a); walk(b)
    for r_ in rats:
        for i in r_.atoms(deep=True):
            at = alg.TABLE.atoms[i]
            if at.kind == 'fn' and at.name == 'item' and len(at.args) == 2 and isinstance(at.args[0], Rat) and isinstance(at.args[1], Rat) and at.args[1].is_zero():
                ca = _single_atom(at.args[0])
                if ca is not None and ca.kind == 'fn' and ca.name == 'call:geo2grid' and isinstance(ca.args[0], Rat):
                    gen = (Rat.atom(at), ca.args[0])
    if gen is None:
        return None
    g2g = repo.func('geodepy.convert', 'geo2grid')
    ev = Evaluator(repo, opaque={'psfandgridconv', 'alpha_coeff', 'rect_radius'})
    try:
        val = ev.call_function(g2g, {g2g.params[0].name: Rat.sym('hv.lat'), g2g.params[1].name: Rat.sym('hv.lon'), g2g.params[2].name: C(0)})
    except Exception:
        return None
    lab = val.items[0] if isinstance(val, Tup) and val.items else None
    lat_arg = gen[1]
    la = _single_atom(lat_arg)
    if lab is None or la is None or la.kind != 'sym':
        return None
    hv = alg.TABLE.sym('hv.lat').id

    def label_at(v):
        x = lab
        for _ in range(8):
            if isinstance(x, Str):
                return x.s
            if not isinstance(x, IteV) or not isinstance(x.cond, Rat):
                return None
            t = guards.numeval(x.cond, {hv: F(v)})
            if t is None:
                # the label follows the sign of the computed northing: evaluate the form in floating point (rectifying radius: any positive number)
                env = {hv: float(v)}
                for k_ in x.cond.atoms(deep=True):
                    at_ = alg.TABLE.atoms[k_]
                    if at_.kind == 'fn' and at_.name.startswith('call:'):
                        env[k_] = 6367449.0
                    elif at_.kind == 'fn' and at_.name == 'item':
                        env[k_] = 1.0e-4          # a series coefficient: small against the leading term, the sign of the northing is the latitude's
                    elif at_.kind == 'sym' and at_.name not in ('pi', 'hv.lat'):
                        env[k_] = 147.0 if 'lon' in at_.name else 0.5
                try:
                    t = 1 if abs(alg.evalf(x.cond, env)) != 0 else 0
                except Exception:
                    return None
            x = x.a if t != 0 else x.b
        return None

    def truth(v_, latv, label):
        if isinstance(v_, Bool):
            return v_.b
        t = truth_under(v_, [(gen[0], label)])
        if t is not None:
            return t
        if isinstance(v_, Rat):
            n = guards.numeval(v_, {la.id: F(latv)})
            return None if n is None else (n != 0)
        return None
    for latv in (-1, 0, 1):
        label = label_at(latv)
        if label is None:
            return None
        ta, tb = truth(a, latv, label), truth(b, latv, label)
        if ta is None or tb is None:
            return None
        if ta != tb:
            return 'hemi_north: at latitude %s geo2grid labels the point %r (northing measured from the equator without false northing), the reference sets hemi_north=%s, the code sets %s - a point exactly on the equator gets a southern false origin with a northern northing' % (
                latv, label, tb, ta)
    return ''


def _none_test(cond):
    """(symbol name, True if the condition holds when the symbol IS None) for eq/ne(sym, None) conditions, else None"""
    a = _single_atom(cond) if isinstance(cond, Rat) else None
    if a is None or a.kind != 'fn' or a.name not in ('eq', 'ne') or len(a.args) != 2 or 'None' not in a.args:
        return None
    other = [x for x in a.args if x != 'None']
    sa = _single_atom(other[0]) if other and isinstance(other[0], Rat) else None
    if sa is None or sa.kind != 'sym':
        return None
    return sa.name, a.name == 'eq'


def cond_under(cond, is_none):
    """truth of a condition built from None-tests of the symbols in is_none (and / or / not of them); None when something else is tested"""
    if isinstance(cond, Bool):
        return cond.b
    nt = _none_test(cond)
    if nt is not None:
        return (is_none[nt[0]] == nt[1]) if nt[0] in is_none else None
    a = _single_atom(cond) if isinstance(cond, Rat) else None
    if a is None or a.kind != 'fn':
        return None
    if a.name == 'not' and isinstance(a.args[0], Rat):
        t = cond_under(a.args[0], is_none)
        return None if t is None else not t
    if a.name in ('and', 'or') and all(isinstance(x, Rat) for x in a.args):
        ts = [cond_under(x, is_none) for x in a.args]
        if a.name == 'and':
            return False if any(t is False for t in ts) else (None if any(t is None for t in ts) else True)
        return True if any(t is True for t in ts) else (None if any(t is None for t in ts) else False)
    return None


def resolve_none(v, is_none):
    """v under the assumption {symbol name: True when it is None}: None-tests of those symbols are decided, a symbol that is None becomes None"""
    if isinstance(v, IteV):
        t = cond_under(v.cond, is_none)
        if t is not None:
            return resolve_none(v.a if t else v.b, is_none)
        return IteV(v.cond, resolve_none(v.a, is_none), resolve_none(v.b, is_none))
    if isinstance(v, Obj) and not v.origin:
        return Obj(v.cls, dict((k, resolve_none(x, is_none)) for k, x in v.fields.items()), origin=None)
    if isinstance(v, CallV):
        return CallV(resolve_none(v.rat, is_none), v.name)
    if isinstance(v, Rat):
        sa = _single_atom(v)
        if sa is not None and sa.kind == 'sym' and is_none.get(sa.name):
            return NONE
        r = v
        for _ in range(6):
            hit = None
            for k in r.atoms(deep=True):
                at = alg.TABLE.atoms[k]
                if at.kind == 'fn' and at.name == 'ite' and isinstance(at.args[0], Rat):
                    t = cond_under(at.args[0], is_none)
                    if t is not None:
                        hit = (at, t)
                        break
            if hit is None:
                break
            at, t = hit
            r = alg.subst(r, {at.id: at.args[1] if t else at.args[2]})
        return r
    return v


def none_case_verdict(got, want, names):
    """compare two results for every combination of the optional inputs being present / absent"""
    import itertools
    worst = 'equal'
    for combo in itertools.product((False, True), repeat=len(names)):
        asm = dict(zip(names, combo))
        g, w_ = resolve_none(got, asm), resolve_none(want, asm)
        r = compare_values(g, w_)
        if r == 'different':
            return 'different', '%s: %s' % (', '.join('%s %s' % (n_, 'absent' if v_ else 'given') for n_, v_ in asm.items()), field_diff(g, w_) or ('%s vs %s' % (show(g, 1, 80), show(w_, 1, 80))))
        if r != 'equal':
            worst = 'unknown'
    return worst, ''


def angle_decimal_verdict(repo, got, decimals):
    """got: a CoordGeo (or a conditional of them) whose latitude / longitude are angle objects BUILT by a constructor call; decimals: the
    decimal degrees they must denote.  The constructors read their numeric argument in the class's own notation (whole degrees + minutes +
    seconds, HP digits, gradians): handing them decimal degrees is a unit error.  The decimal value of the built object is compared
    with the reference decimal."""
    leaves_ = []

    def walk(v):
        if isinstance(v, IteV):
            walk(v.a)
            walk(v.b)
        elif isinstance(v, Obj):
            leaves_.append(v)
    walk(got)
    for o in leaves_:
        for fld, ref in zip(('lat', 'lon'), decimals):
            a = o.fields.get(fld)
            if not (isinstance(a, Obj) and 'dec' in a.cls.methods and isinstance(ref, Rat)) or (a.origin or '').startswith('param'):
                continue
            ev = Evaluator(repo)        # the class's own dec(), evaluated (not the opaque summary the wiring rules use)
            ev.rat_type_is_float = True
            try:
                d = ev.invoke(a.cls.methods['dec'], [a], {}, None)
            except (AnalysisError, RecursionError):
                continue
            d = d.rat if isinstance(d, CallV) else d
            if isinstance(d, Rat) and alg.decide_equal(d, ref) == 'different':
                return '%s: the %s object that is built denotes %s degrees, not the %s it was built from (%s): the constructor reads its argument in the notation of the class - whole ' \
                       'degrees, minutes and seconds as separate fields - and decimal degrees handed to it lose their fraction' % (fld, a.cls.name, show(d, 2, 90), fld, show(ref, 1, 60))
    return ''


def compare_objs(rep, rule, key, w, got, want, what, repo=None, decimals=None):
    r = compare_values(got, want)
    if r == 'unknown' and decimals is not None and repo is not None:
        av = angle_decimal_verdict(repo, got, decimals)
        if av:
            rep.violated(rule, key, w, what + ': differs from the reference in ' + av, expected=show(want, 2, 300), actual=show(got, 2, 300))
            return 'different'
    if r == 'unknown':
        r3, note3 = none_case_verdict(got, want, ['ell_ht', 'orth_ht', 'nval'])
        if r3 == 'different':
            rep.violated(rule, key, w, what + ': differs from the reference when ' + note3, expected=show(want, 2, 300), actual=show(got, 2, 300))
            return 'different'
        if r3 == 'equal':
            rep.holds(rule, key, w, what + ': equals the reference in every combination of the optional heights being given or absent')
            return 'equal'
    if r == 'unknown' and repo is not None:
        hv_ = hemisphere_numeric_verdict(repo, got, want)
        if hv_:
            rep.violated(rule, key, w, what + ': differs from the reference in ' + hv_, expected=show(want, 2, 300), actual=show(got, 2, 300))
            return 'different'
    if r == 'unknown':
        tv = type_field_verdict(got, want)
        if tv:
            rep.violated(rule, key, w, what + ': differs from the reference in ' + tv + ' - comparisons and arithmetic written for the requested notation fail on it',
                         expected=show(want, 2, 300), actual=show(got, 2, 300))
            return 'different'
    if r == 'unknown' and repo is not None:
        r2, note = string_field_verdict(repo, got, want)
        if r2 == 'equal':
            rep.holds(rule, key, w, what + ': ' + note)
            return 'equal'
        if r2 == 'different':
            rep.violated(rule, key, w, what + ': differs from the reference in ' + note, expected=show(want, 2, 300), actual=show(got, 2, 300))
            return 'different'
    if r == 'equal':
        rep.holds(rule, key, w, what + ': equals the reference')
    elif r == 'different':
        detail = field_diff(got, want)
        rep.violated(rule, key, w, what + ': differs from the reference' + (' in ' + detail if detail else ''), expected=show(want, 2, 300), actual=show(got, 2, 300))
    else:
        rep.undecided(rule, key, w, what + ': forms differ but not definitely' + (' (%s)' % field_diff(got, want) if field_diff(got, want) else ''))
    return r


def field_diff(a, b):
    if isinstance(a, IteV) and isinstance(b, IteV):
        return field_diff(a.a, b.a) or field_diff(a.b, b.b) or ('branch condition: %s vs %s' % (show(a.cond, 2, 80), show(b.cond, 2, 80)) if compare_values(a.cond, b.cond) != 'equal' else '')
    if isinstance(a, Obj) and isinstance(b, Obj):
        if a.cls.key != b.cls.key:
            return 'class %s vs %s' % (a.cls.name, b.cls.name)
        out = []
        for k in sorted(set(a.fields) | set(b.fields)):
            if k not in a.fields or k not in b.fields or compare_values(a.fields[k], b.fields[k]) != 'equal':
                out.append('%s: %s vs %s' % (k, show(a.fields.get(k), 2, 100), show(b.fields.get(k), 2, 100)))
        return '; '.join(out[:3])
    if type(a) is not type(b):
        return '%s vs %s' % (type(a).__name__, type(b).__name__)
    return ''


def sym_self(ev, repo, clsname, **fields):
    cls = repo.cls('geodepy.coord', clsname)
    return Obj(cls, dict(fields), origin=None)


def delegation_rules(repo, rep, only=None):
    """only: restrict to the named methods (used by C01, C02, C03, whose observe_at lists name these wrappers)"""
    want_ = (lambda q: only is None or q in only)
    orc_opq = set(CONV) | angle_opaque(repo)
    base = 'R-WIRE::geodepy/coord.py::'
    x, y, z, nv = Rat.sym('x'), Rat.sym('y'), Rat.sym('z'), Rat.sym('nval')
    lat, lon, eh, oh = Rat.sym('lat'), Rat.sym('lon'), Rat.sym('ell_ht'), Rat.sym('orth_ht')
    zone, east, north, hn = Rat.sym('zone'), Rat.sym('east'), Rat.sym('north'), Rat.sym('hemi_north')
    nots = notations(repo)
    # ---- CoordCart.geo
    f = repo.func('geodepy.coord', 'CoordCart.geo')
    rep.analysed(f)
    for nname, nref in (nots if want_('CoordCart.geo') else []):
        ev = mk_eval(repo)
        E = sym_ellipsoid(ev, repo, 'ellipsoid')
        me = sym_self(ev, repo, 'CoordCart', xaxis=x, yaxis=y, zaxis=z, nval=nv)
        got = ev.call_function(f, {'self': me, f.params[1].name: E, f.params[2].name: nref})
        orc = Oracle(ORACLE, base=repo, opaque=orc_opq)
        orc.ev.rat_type_is_float = True
        Eo = sym_ellipsoid(orc.ev, orc.repo, 'ellipsoid')
        no = Ref(orc.repo.cls('geodepy.angles', nname)) if nname != 'float' else nref
        want = orc.call('cart_geo', x=x, y=y, z=z, nval=nv, ellipsoid=Eo, notation=no)
        dec_ = None
        if nname != 'float':
            wf_ = orc.call('cart_geo', x=x, y=y, z=z, nval=NONE, ellipsoid=Eo, notation=[r_ for n_, r_ in nots if n_ == 'float'][0])
            if isinstance(wf_, Obj) and isinstance(wf_.fields.get('lat'), (Rat, CallV)):
                dec_ = tuple((v_.rat if isinstance(v_, CallV) else v_) for v_ in (wf_.fields.get('lat'), wf_.fields.get('lon')))
        compare_objs(rep, 'R-WIRE', base + 'CoordCart.geo::%s' % nname, where(f, f.node), got, want,
                     'CoordCart.geo(notation=%s) = CoordGeo(xyz2llh(own x, y, z, ellipsoid) in that notation, ell_ht, ell_ht - N when N is present)' % nname, repo=repo, decimals=dec_)
    # ---- CoordGeo.cart
    f = repo.func('geodepy.coord', 'CoordGeo.cart')
    rep.analysed(f)
    if want_('CoordGeo.cart'):
        ev = mk_eval(repo)
        E = sym_ellipsoid(ev, repo, 'ellipsoid')
        me = sym_self(ev, repo, 'CoordGeo', lat=lat, lon=lon, ell_ht=eh, orth_ht=oh)
        got = ev.call_function(f, {'self': me, f.params[1].name: E})
        orc = Oracle(ORACLE, base=repo, opaque=orc_opq)
        Eo = sym_ellipsoid(orc.ev, orc.repo, 'ellipsoid')
        want = orc.call('geo_cart', lat=lat, lon=lon, ell_ht=eh, orth_ht=oh, ellipsoid=Eo)
        compare_objs(rep, 'R-WIRE', base + 'CoordGeo.cart', where(f, f.node), got, want,
                     'CoordGeo.cart = CoordCart(llh2xyz(own lat, lon, ell_ht or 0, ellipsoid), N = ell_ht - orth_ht when both heights are present - zero is a height)')
        # the same with latitude / longitude held as angle OBJECTS: they are handed on as they are (the conversion functions accept every
        # angle class; float(obj) would be the object's own notation - HP digits, gradians - not decimal degrees)
        angm = repo.module('geodepy.angles')
        for cn in ('HPAngle', 'DMSAngle'):
            ev = mk_eval(repo)
            E = sym_ellipsoid(ev, repo, 'ellipsoid')
            olat = ev.symbolic_object(angm.classes[cn], 'lat', origin='param:lat')
            olon = ev.symbolic_object(angm.classes[cn], 'lon', origin='param:lon')
            me = sym_self(ev, repo, 'CoordGeo', lat=olat, lon=olon, ell_ht=eh, orth_ht=oh)
            got = ev.call_function(f, {'self': me, f.params[1].name: E})
            orc = Oracle(ORACLE, base=repo, opaque=orc_opq)
            Eo = sym_ellipsoid(orc.ev, orc.repo, 'ellipsoid')
            wlat = orc.ev.symbolic_object(orc.repo.module('geodepy.angles').classes[cn], 'lat', origin='param:lat')
            wlon = orc.ev.symbolic_object(orc.repo.module('geodepy.angles').classes[cn], 'lon', origin='param:lon')
            want = orc.call('geo_cart', lat=wlat, lon=wlon, ell_ht=eh, orth_ht=oh, ellipsoid=Eo)
            compare_objs(rep, 'R-WIRE', base + 'CoordGeo.cart[%s]' % cn, where(f, f.node), got, want,
                         'CoordGeo.cart with %s latitude / longitude = CoordCart(llh2xyz(the objects themselves, ...))' % cn)
    # ---- CoordGeo.tm
    f = repo.func('geodepy.coord', 'CoordGeo.tm')
    rep.analysed(f)
    if want_('CoordGeo.tm'):
        ev = mk_eval(repo)
        E = sym_ellipsoid(ev, repo, 'ellipsoid')
        P = sym_projection(ev, repo, 'projection')
        me = sym_self(ev, repo, 'CoordGeo', lat=lat, lon=lon, ell_ht=eh, orth_ht=oh)
        got = ev.call_function(f, {'self': me, f.params[1].name: E, f.params[2].name: P})
        orc = Oracle(ORACLE, base=repo, opaque=orc_opq)
        Eo = sym_ellipsoid(orc.ev, orc.repo, 'ellipsoid')
        Po = sym_projection(orc.ev, orc.repo, 'projection')
        want = orc.call('geo_tm', lat=lat, lon=lon, ell_ht=eh, orth_ht=oh, ellipsoid=Eo, projection=Po)
        compare_objs(rep, 'R-WIRE', base + 'CoordGeo.tm', where(f, f.node), got, want,
                     'CoordGeo.tm = CoordTM(geo2grid(own lat, lon, automatic zone, ellipsoid, projection), heights unchanged, same projection)', repo=repo)
    # ---- CoordTM.geo
    f = repo.func('geodepy.coord', 'CoordTM.geo')
    rep.analysed(f)
    for nname, nref in (nots if want_('CoordTM.geo') else []):
        ev = mk_eval(repo)
        E = sym_ellipsoid(ev, repo, 'ellipsoid')
        P = sym_projection(ev, repo, 'self.projection')
        me = sym_self(ev, repo, 'CoordTM', zone=zone, east=east, north=north, ell_ht=eh, orth_ht=oh, hemi_north=hn, projection=P)
        got = ev.call_function(f, {'self': me, f.params[1].name: E, f.params[2].name: nref})
        orc = Oracle(ORACLE, base=repo, opaque=orc_opq)
        orc.ev.rat_type_is_float = True
        Eo = sym_ellipsoid(orc.ev, orc.repo, 'ellipsoid')
        Po = sym_projection(orc.ev, orc.repo, 'self.projection')
        no = Ref(orc.repo.cls('geodepy.angles', nname)) if nname != 'float' else nref
        want = orc.call('tm_geo', zone=zone, east=east, north=north, ell_ht=eh, orth_ht=oh, hemi_north=hn, projection=Po, ellipsoid=Eo, notation=no)
        dec_ = None
        if nname != 'float':
            wf_ = orc.call('tm_geo', zone=zone, east=east, north=north, ell_ht=eh, orth_ht=oh, hemi_north=hn, projection=Po, ellipsoid=Eo, notation=[r_ for n_, r_ in nots if n_ == 'float'][0])
            leaf_ = wf_.a if isinstance(wf_, IteV) else wf_
            if isinstance(leaf_, Obj) and isinstance(leaf_.fields.get('lat'), (Rat, CallV)) and not isinstance(wf_, IteV):
                dec_ = tuple((v_.rat if isinstance(v_, CallV) else v_) for v_ in (leaf_.fields.get('lat'), leaf_.fields.get('lon')))
        compare_objs(rep, 'R-WIRE', base + 'CoordTM.geo::%s' % nname, where(f, f.node), got, want,
                     'CoordTM.geo(notation=%s) = CoordGeo(grid2geo(own zone, east, north, own hemisphere, ellipsoid, own projection) in that notation, heights unchanged)' % nname, repo=repo, decimals=dec_)
    # ---- the two composite methods
    for q, parts in ((('CoordCart.tm', ('geo', 'tm')), ('CoordTM.cart', ('geo', 'cart'))) if only is None else ()):
        f = repo.func('geodepy.coord', q)
        rep.analysed(f)
        calls = [stmt_text(c.func) for c in ast.walk(f.node) if isinstance(c, ast.Call)]
        key = base + q
        rets = [n for n in ast.walk(f.node) if isinstance(n, ast.Return)]
        ok = len(rets) == 1 and isinstance(rets[0].value, ast.Call) and isinstance(rets[0].value.func, ast.Attribute) \
            and rets[0].value.func.attr == parts[1] and isinstance(rets[0].value.func.value, ast.Call) \
            and isinstance(rets[0].value.func.value.func, ast.Attribute) and rets[0].value.func.value.func.attr == parts[0] \
            and isinstance(rets[0].value.func.value.func.value, ast.Name) and rets[0].value.func.value.func.value.id == 'self'
        if ok:
            rep.holds('R-WIRE', key, where(f, f.node), '%s = self.%s(...).%s(...) (threading checked by R-THREAD)' % (q, parts[0], parts[1]))
        else:
            # written out instead of composed: evaluate it and compare with the composition of the class's own two methods
            cname_, mname_ = q.split('.')
            cls_ = repo.cls('geodepy.coord', cname_)
            ev = mk_eval(repo)
            E = sym_ellipsoid(ev, repo, 'ellipsoid')
            if cname_ == 'CoordTM':
                Pp = sym_projection(ev, repo, 'self.projection')
                me = sym_self(ev, repo, 'CoordTM', zone=zone, east=east, north=north, ell_ht=eh, orth_ht=oh, hemi_north=hn, projection=Pp)
                args = {'self': me, f.params[1].name: E}
            else:
                Pp = sym_projection(ev, repo, 'projection')
                me = sym_self(ev, repo, 'CoordCart', xaxis=x, yaxis=y, zaxis=z, nval=nv)
                args = {'self': me, f.params[1].name: E, f.params[2].name: Pp}
            try:
                got = ev.call_function(f, args)
                ev2 = mk_eval(repo)
                E2 = sym_ellipsoid(ev2, repo, 'ellipsoid')
                if cname_ == 'CoordTM':
                    P2 = sym_projection(ev2, repo, 'self.projection')
                    me2 = sym_self(ev2, repo, 'CoordTM', zone=zone, east=east, north=north, ell_ht=eh, orth_ht=oh, hemi_north=hn, projection=P2)
                    mid = ev2.invoke(cls_.methods[parts[0]], [me2, E2], {}, None)
                    want = ev2.apply(ev2.getattr(mid, parts[1], None), [E2], {}, None)
                else:
                    P2 = sym_projection(ev2, repo, 'projection')
                    me2 = sym_self(ev2, repo, 'CoordCart', xaxis=x, yaxis=y, zaxis=z, nval=nv)
                    mid = ev2.invoke(cls_.methods[parts[0]], [me2, E2], {}, None)
                    want = ev2.apply(ev2.getattr(mid, parts[1], None), [E2, P2], {}, None)
                compare_objs(rep, 'R-WIRE', key, where(f, f.node), got, want, '%s = self.%s(...).%s(...) of the class\'s own methods' % (q, parts[0], parts[1]), repo=repo)
            except Exception as e_:
                rep.undecided('R-WIRE', key, where(f, f.node), '%s is not the composition self.%s().%s() and could not be evaluated: %s' % (q, parts[0], parts[1], e_))
    if only is None:
        rep.floor('R-WIRE', 16, 'conversion methods x notations')


def round_rules(repo, rep):
    """round(coordinate, n) is the same coordinate with its numbers rounded: every other attribute (zone, hemisphere, projection) travels with
    it, for each combination of present / absent heights - a rounded northern or ISG coordinate is still northern / ISG"""
    base = 'R-WIRE::geodepy/coord.py::'
    x, y, z, nv = Rat.sym('x'), Rat.sym('y'), Rat.sym('z'), Rat.sym('nval')
    lat, lon, eh, oh = Rat.sym('lat'), Rat.sym('lon'), Rat.sym('ell_ht'), Rat.sym('orth_ht')
    zone, east, north, hn = Rat.sym('zone'), Rat.sym('east'), Rat.sym('north'), Rat.sym('hemi_north')
    n = Rat.sym('n')
    for cname, fields, oname, oargs in (('CoordCart', dict(xaxis=x, yaxis=y, zaxis=z, nval=nv), 'round_cart', dict(x=x, y=y, z=z, nval=nv)),
                                        ('CoordGeo', dict(lat=lat, lon=lon, ell_ht=eh, orth_ht=oh), 'round_geo', dict(lat=lat, lon=lon, ell_ht=eh, orth_ht=oh)),
                                        ('CoordTM', dict(zone=zone, east=east, north=north, ell_ht=eh, orth_ht=oh, hemi_north=hn), 'round_tm',
                                         dict(zone=zone, east=east, north=north, ell_ht=eh, orth_ht=oh, hemi_north=hn))):
        cls = repo.cls('geodepy.coord', cname)
        f = cls.methods.get('__round__')
        if f is None:
            continue
        rep.analysed(f)
        ev = mk_eval(repo)
        kw = dict(fields)
        okw = dict(oargs)
        if cname == 'CoordTM':
            kw['projection'] = sym_projection(ev, repo, 'projection')
        me = sym_self(ev, repo, cname, **kw)
        got = ev.call_function(f, {'self': me, f.params[1].name: n})
        orc = Oracle(ORACLE, base=repo, opaque=set(CONV) | angle_opaque(repo))
        if cname == 'CoordTM':
            okw['projection'] = sym_projection(orc.ev, orc.repo, 'projection')
        want = orc.call(oname, n=n, **okw)
        compare_objs(rep, 'R-WIRE', base + cname + '.__round__', where(f, f.node), got, want,
                     'round(%s, n) = the same coordinate with its numbers rounded to n places; zone, hemisphere and projection unchanged' % cname)


def dispatch_rules(repo, rep):
    """6 source types x 6 target notations of CoordGeo.notation"""
    f = repo.func('geodepy.coord', 'CoordGeo.notation')
    rep.analysed(f)
    w = where(f, f.node)
    nots = notations(repo)
    n = 0
    for sname, sref in nots:
        for tname, tref in nots:
            n += 1
            ev = mk_eval(repo)
            if sname == 'float':
                lat, lon = Rat.sym('lat'), Rat.sym('lon')
            else:
                cls = sref.target
                lat = Obj(cls, {'_v': Rat.sym('lat')}, origin='param:lat')
                lon = Obj(cls, {'_v': Rat.sym('lon')}, origin='param:lon')
            me = sym_self(ev, repo, 'CoordGeo', lat=lat, lon=lon, ell_ht=Rat.sym('ell_ht'), orth_ht=Rat.sym('orth_ht'))
            got = ev.call_function(f, {'self': me, f.params[1].name: tref})
            key = 'R-DISPATCH::geodepy/coord.py::CoordGeo.notation::%s->%s' % (sname, tname)
            probs = [(k, wh, msg) for k, wh, msg in ev.diagnostics if k in ('attr', 'unbound')]
            if probs:
                k, wh, msg = probs[0]
                rep.violated('R-DISPATCH', key, wh or w, 'changing the notation of a %s coordinate to %s fails: %s' % (sname, tname, msg) +
                             (' (UnboundLocalError)' if k == 'unbound' else ' (AttributeError)'),
                             expected='a CoordGeo holding %s latitude/longitude' % tname, actual=msg)
                continue
            if got is None or isinstance(got, NoneV):
                # no value comes back: every path of this (source, target) pair ends in a raise (or falls off the end)
                own = [(q_, c_, nd_) for q_, c_, nd_ in ev.raise_conds if q_ == f.qualname]
                if own:
                    nd_ = own[-1][2]
                    msg_ = ''
                    for r_ in ast.walk(nd_):
                        if isinstance(r_, ast.Raise) and r_.exc is not None:
                            msg_ = stmt_text(r_.exc)[:80]
                    rep.violated('R-DISPATCH', key, where(f, nd_), 'changing the notation of a %s coordinate to %s raises (%s): every pair of the six supported types is a valid request - also a '
                                 'notation the coordinate already has' % (sname, tname, msg_ or 'raise'), expected='a CoordGeo holding %s latitude/longitude' % tname, actual='raise ' + msg_)
                else:
                    rep.violated('R-DISPATCH', key, w, 'changing the notation of a %s coordinate to %s returns nothing' % (sname, tname), expected='a CoordGeo', actual='None')
                continue
            if not isinstance(got, Obj) or got.cls.name != 'CoordGeo':
                rep.undecided('R-DISPATCH', key, w, 'result is not a CoordGeo: %s' % show(got, 2, 100))
                continue
            ok = True
            why = ''
            for fld in ('lat', 'lon'):
                v = got.fields.get(fld)
                if tname == 'float':
                    good = isinstance(v, (Rat, CallV))
                else:
                    good = (isinstance(v, Obj) and v.cls is tref.target) or (isinstance(v, CallV) and returns_class(repo, v, tref.target))
                if not good:
                    ok = False
                    why = '%s is %s' % (fld, describe_type(v))
            for fld, s in (('ell_ht', 'ell_ht'), ('orth_ht', 'orth_ht')):
                if compare_values(got.fields.get(fld), Rat.sym(s)) != 'equal':
                    ok = False
                    why = '%s is changed' % fld
            if ok:
                rep.holds('R-DISPATCH', key, w, '%s -> %s yields %s latitude/longitude, heights untouched' % (sname, tname, tname))
            else:
                rep.violated('R-DISPATCH', key, w, '%s -> %s: %s' % (sname, tname, why), expected='%s objects, same heights' % tname, actual=why)
    rep.floor('R-DISPATCH', 36, '6 x 6 notation pairs')
    typed_dispatch_rules(repo, rep, f)


def typed_dispatch_rules(repo, rep, f):
    """each branch of the dispatcher produces the requested notation *from the notation it holds*: a float holds decimal degrees, so
    the GONAngle branch has to convert (dec -> gon), not relabel; an angle object is converted by the method named after the target"""
    import copy
    from .c08 import Typer, CLASS_NOTATION
    ty = Typer(repo)

    class Sub(ast.NodeTransformer):
        def visit_Attribute(self, n):
            if isinstance(n.value, ast.Name) and n.value.id == 'self' and n.attr in ('lat', 'lon'):
                return ast.copy_location(ast.Name(id=n.attr, ctx=ast.Load()), n)
            return self.generic_visit(n)
    n_inst = 0
    for top in ast.walk(f.node):
        if not isinstance(top, ast.If):
            continue
        t = top.test
        is_float_src = isinstance(t, ast.Compare) and isinstance(t.ops[0], ast.Eq) and isinstance(t.comparators[0], ast.Name) and t.comparators[0].id == 'float' \
            and 'type(self.lat)' in stmt_text(t.left)
        is_obj_src = isinstance(t, ast.Compare) and isinstance(t.ops[0], ast.In) and 'type(self.lat)' in stmt_text(t.left)
        if not (is_float_src or is_obj_src):
            continue
        cur = top.body[0] if top.body and isinstance(top.body[0], ast.If) else None
        while isinstance(cur, ast.If):
            ct = cur.test
            if isinstance(ct, ast.Compare) and isinstance(ct.ops[0], ast.Eq) and isinstance(ct.left, ast.Name) and ct.left.id == f.params[1].name \
                    and isinstance(ct.comparators[0], ast.Name):
                target = ct.comparators[0].id
                want = 'dec' if target == 'float' else CLASS_NOTATION.get(target)
                for st in cur.body:
                    if isinstance(st, ast.Assign) and isinstance(st.targets[0], ast.Name) and st.targets[0].id in ('new_lat', 'new_lon'):
                        n_inst += 1
                        key = 'R-UNITS::geodepy/coord.py::CoordGeo.notation::%s->%s::%s' % ('float' if is_float_src else 'object', target, st.targets[0].id)
                        if is_float_src:
                            e = Sub().visit(copy.deepcopy(st.value))
                            got = ty.type_of(e, {'lat': 'dec', 'lon': 'dec'})
                            if got == want:
                                rep.holds('R-UNITS', key, where(f, st), 'decimal degrees -> %s through %s' % (want, stmt_text(st.value)[:50]))
                            elif isinstance(got, tuple) and got[0] == '!':
                                rep.violated('R-UNITS', key, where(f, st), 'a float coordinate holds decimal degrees, but %s: the angle is relabelled, not converted' % got[1],
                                             expected='dec -> %s' % want, actual=stmt_text(st.value)[:100])
                            elif isinstance(got, str):
                                rep.violated('R-UNITS', key, where(f, st), 'the %s branch yields %s notation' % (target, got), expected=str(want), actual=got)
                            else:
                                rep.undecided('R-UNITS', key, where(f, st), 'conversion not typed: %s' % (got,))
                        else:
                            v = st.value
                            ok = isinstance(v, ast.Call) and isinstance(v.func, ast.Attribute) and not v.args and stmt_text(v.func.value) == 'self.%s' % st.targets[0].id[4:]
                            if ok and v.func.attr == want:
                                rep.holds('R-UNITS', key, where(f, st), 'angle object -> %s by its .%s()' % (target, want))
                            elif ok:
                                rep.violated('R-UNITS', key, where(f, st), 'the %s branch converts with .%s(); the method producing %s is .%s()' % (target, v.func.attr, target, want),
                                             expected='.%s()' % want, actual='.%s()' % v.func.attr)
                            elif isinstance(v, ast.Call) and isinstance(v.func, ast.Name) and v.func.id in ('float', 'int') and len(v.args) == 1 \
                                    and stmt_text(v.args[0]) == 'self.%s' % st.targets[0].id[4:]:
                                # float(<angle object>) is the object's __float__: its OWN notation as a number (HP digits, gradians), and the
                                # classes without __float__ raise TypeError - decimal degrees only where __float__ returns what dec() returns
                                angm = repo.module('geodepy.angles')
                                badc = []
                                for cn in common.ANGLE_CLASSES:
                                    c_ = angm.classes.get(cn)
                                    fl_, de_ = (c_.methods.get('__float__'), c_.methods.get('dec')) if c_ is not None else (None, None)
                                    rf = [stmt_text(x.value) for x in ast.walk(fl_.node) if isinstance(x, ast.Return) and x.value is not None] if fl_ is not None else None
                                    rd = [stmt_text(x.value) for x in ast.walk(de_.node) if isinstance(x, ast.Return) and x.value is not None] if de_ is not None else None
                                    if rf is None:
                                        badc.append('%s has no __float__ (TypeError)' % cn)
                                    elif rf != rd and not (len(rf) == 1 and rf[0] in ('self.dec()',)):
                                        badc.append('%s.__float__ returns %s, not its decimal degrees' % (cn, rf[0] if rf else '?'))
                                if target == 'float' and not badc:
                                    rep.holds('R-UNITS', key, where(f, st), 'float(angle object) is decimal degrees for every angle class')
                                else:
                                    rep.violated('R-UNITS', key, where(f, st), 'the %s branch converts with %s: %s' % (target, stmt_text(v)[:30], '; '.join(badc[:4]) or 'float() is not the %s notation' % target),
                                                 expected='.%s()' % want, actual=stmt_text(v)[:40])
                            else:
                                rep.undecided('R-UNITS', key, where(f, st), 'conversion not of the form self.lat.<method>(): %s' % stmt_text(v)[:60])
            cur = cur.orelse[0] if len(cur.orelse) == 1 and isinstance(cur.orelse[0], ast.If) else None
    if n_inst < 20:
        rep.undecided('R-UNITS', 'R-UNITS::geodepy/coord.py::CoordGeo.notation::branches', where(f, f.node), 'only %d typed branch assignments recognised (22 expected)' % n_inst)


def describe_type(v):
    if isinstance(v, Obj):
        return 'a %s' % v.cls.name
    if isinstance(v, CallV):
        return 'the result of %s' % v.name
    return type(v).__name__


def returns_class(repo, callv, cls):
    """does the opaque callee (function or method of the angles module) return an instance of cls?"""
    from ..resolve import Resolver
    rs = Resolver(repo)
    m = repo.module('geodepy.angles')
    name = callv.name
    f = m.func(name)
    if f is None:
        return False
    rc = rs.return_class(f)
    return rc is cls


def exhaustive_type_chain(repo):
    """an if/elif chain on type(self.lat) without else is exhaustive when CoordGeo.__init__ rejects every other type"""
    init = repo.func('geodepy.coord', 'CoordGeo.__init__')
    allowed = set()
    raises = False
    for n in ast.walk(init.node):
        if isinstance(n, ast.Assign) and isinstance(n.value, ast.List) and all(isinstance(e, ast.Name) for e in n.value.elts) and len(n.value.elts) >= 3:
            allowed = set(e.id for e in n.value.elts)
        if isinstance(n, ast.If) and any(isinstance(b, ast.Raise) for b in n.body) and 'type' in stmt_text(n.test) and 'all' in stmt_text(n.test):
            raises = True
    return allowed if raises else set()


def run(repo, rep):
    alg.reset()
    # the closed chains of C15 rest on the two geodetic/Cartesian conversions: their formula rules are part of this check
    from . import c03
    c03.forward_rules(repo, rep)
    c03.inverse_rules(repo, rep)
    # ... and a change of notation goes through the converters of geodepy.angles: the carry and digit rules of the sexagesimal producers
    # (notation(HPAngle) of an angle one ulp below a whole degree is dec2hp of it) are part of this check too
    from . import c08
    c08.carry_rule(repo, rep)
    c08.digit_rules(repo, rep)
    # dispatch tables of closures / lazily evaluated conversions in the coordinate classes
    from . import common as _cm
    _cm.late_binding_rule(repo, rep, ['geodepy.coord'])
    stored_as_given_rule(repo, rep)
    alg.reset()
    rep.trust('opaque call atoms carry every formal parameter of the callee (defaults explicit); constructors of the coordinate classes are evaluated')
    rep.assume('latitude/longitude held as plain numbers are floats (type(x) == float folds to true for symbolic numbers in this module)')
    common.receiver_rule(repo, rep, 'geodepy.coord', ('geo', 'tm', 'cart', 'notation', '__round__', '__repr__', '__eq__'),
                         'conversions between the coordinate classes are functions of the object, not commands on it')
    # threading
    tr = ThreadRule(repo, rep)
    m = repo.module('geodepy.coord')
    for c in m.classes.values():
        for name in ('geo', 'tm', 'cart'):
            if name in c.methods:
                tr.check_function(c.methods[name])
                tr.check_const(c.methods[name])
    rep.floor('R-THREAD', 10, 'role-parameter call sites of the six conversion methods')
    delegation_rules(repo, rep)
    round_rules(repo, rep)
    dispatch_rules(repo, rep)
    # the chain tm -> geo -> tm: the longitude CoordTM.geo() holds must be one CoordGeo.tm() (geo2grid) accepts
    common.longitude_range_rule(repo, rep)
    # CoordGeo.tm() / CoordCart.tm() call geo2grid with the automatic zone for every position of the band, UTM and ISG: its input guards and
    # the zone / central-meridian lattice are part of the chains
    from . import c01 as _c01
    _c01.guard_rules(repo, rep)
    # ... and of the type the coordinate classes accept
    common.float_result_rule(repo, rep, 'geodepy.convert', 'xyz2llh', (0, 1))
    common.float_result_rule(repo, rep, 'geodepy.convert', 'grid2geo', (0, 1))
    # definite assignment in the dispatcher (the outer type chain is exhaustive by the constructor's type check)
    f = repo.func('geodepy.coord', 'CoordGeo.notation')
    allowed = exhaustive_type_chain(repo)
    bad = defassign(f)
    names = sorted(set(n.id for n in bad))
    # paths that skip every branch of the outer chain are excluded when the chain covers the constructor's type list
    covered = set()
    for n in ast.walk(f.node):
        if isinstance(n, ast.If):
            t = stmt_text(n.test)
            if 'type(self.lat)' in t:
                for x in ast.walk(n.test):
                    if isinstance(x, ast.Name) and x.id in allowed:
                        covered.add(x.id)
    chain_exhaustive = bool(allowed) and allowed <= covered
    key = 'R-DEFASSIGN::geodepy/coord.py::CoordGeo.notation'
    w = where(f, f.node)
    if not names:
        rep.holds('R-DEFASSIGN', key, w, 'new latitude/longitude are assigned on every path')
    else:
        # decide whether the unassigned path is inside a branch (real) or only the fall-through of the exhaustive chain
        inner = inner_unassigned(f, names)
        if inner:
            rep.violated('R-DEFASSIGN', key + '::' + names[0], where(f, inner), 'a branch of the notation dispatcher (%s) assigns neither %s: the return raises UnboundLocalError' % (
                stmt_text(inner.test)[:60], ' nor '.join(names)), expected='every branch assigns %s' % ', '.join(names), actual='branch body: %s' % stmt_text(inner.body[0])[:60])
        elif chain_exhaustive:
            rep.holds('R-DEFASSIGN', key, w, 'only the fall-through of the type chain leaves %s unassigned; the constructor admits exactly the types the chain covers (%s)' % (', '.join(names), ', '.join(sorted(allowed))))
        else:
            rep.undecided('R-DEFASSIGN', key, w, '%s may be unassigned when no branch of the type chain applies' % ', '.join(names))
    # None-vs-falsy
    zero_valid = {'nval': 'a geoid separation of 0.0 m is a value', 'ell_ht': '0.0 m is a height', 'orth_ht': '0.0 m is a height',
                  'self.nval': 'a geoid separation of 0.0 m is a value', 'self.ell_ht': '0.0 m is a height', 'self.orth_ht': '0.0 m is a height'}
    zero_invalid = {'self.hemi_north': 'a bool', 'hemi_north': 'a bool'}
    n = 0
    for c in m.classes.values():
        for meth in c.methods.values():
            n += optnum_rule(rep, meth, zero_valid, zero_invalid)
    rep.floor('R-OPTNUM', 15, 'methods of the three coordinate classes scanned')


def inner_unassigned(f, names):
    """an if/elif branch (with a test on the target notation) whose body assigns none of the names"""
    for n in ast.walk(f.node):
        if isinstance(n, ast.If) and 'notation' in stmt_text(n.test) and 'type(' not in stmt_text(n.test):
            assigned = set(x.id for s in n.body for x in ast.walk(s) if isinstance(x, ast.Name) and isinstance(x.ctx, ast.Store))
            if not (set(names) & assigned) and not any(isinstance(s, ast.Raise) for s in n.body):
                return n
    return None


def controls(repo):
    out = []
    src = repo.sources['geodepy/coord.py']

    def swap_heights(fn):
        # CoordTM.geo hands the heights over in the wrong order
        rets = [n for n in ast.walk(fn) if isinstance(n, ast.Return)]
        r = rets[-1]
        r.value.args[2], r.value.args[3] = r.value.args[3], r.value.args[2]
    out.append(('heights-swapped', repo.variant({'geodepy/coord.py': replace_in_function(src, 'CoordTM.geo', swap_heights)}), 'CoordTM.geo'))

    def drop_ell(fn):
        calls = [n for n in ast.walk(fn) if isinstance(n, ast.Call) and getattr(n.func, 'id', '') == 'xyz2llh']
        calls[0].args = calls[0].args[:3]
    out.append(('default-ellipsoid', repo.variant({'geodepy/coord.py': replace_in_function(src, 'CoordCart.geo', drop_ell)}), 'CoordCart.geo'))
    src_ = repo.sources['geodepy/coord.py']
    a_, b_ = 'from geodepy.constants import Projection, utm, grs80\n', '            self.projection = projection\n'
    if src_.count(a_) != 1 or src_.count(b_) != 1:
        raise AnalysisError('control: anchors of the projection-copied control not found in geodepy/coord.py')
    out.append(('projection-copied', repo.variant({'geodepy/coord.py': src_.replace(a_, 'from copy import copy\n' + a_).replace(b_, '            self.projection = copy(projection)\n')}), 'CoordTM.__init__::projection-stored-as-given'))
    return out


def stored_as_given_rule(repo, rep):
    """the coordinate classes keep what they are given: a constructor argument that is an OBJECT of the library (the projection of a CoordTM)
    is stored itself, not a copy of it.  The conversions recognise the ISG by `prj == isg`, and Projection defines no __eq__: equality is
    identity, a value-equal copy is "some other projection" and an ISG zone number is then refused as a UTM zone."""
    mc = repo.module('geodepy.constants')
    for cname in ('CoordCart', 'CoordGeo', 'CoordTM'):
        cls = repo.cls('geodepy.coord', cname)
        init = cls.init()
        if init is None:
            continue
        for p in init.params[1:]:
            if p.name not in ('projection', 'ellipsoid'):
                continue
            key = 'R-WIRE::geodepy/coord.py::%s.__init__::%s-stored-as-given' % (cname, p.name)
            kcls = mc.classes.get('Projection' if p.name == 'projection' else 'Ellipsoid')
            has_eq = kcls is not None and kcls.find('__eq__') is not None
            ev = mk_eval(repo)
            arg = Obj(kcls, {}, origin='param:%s' % p.name)
            args = dict((q.name, Rat.sym('a_' + q.name)) for q in init.params[1:] if q.name != p.name)
            try:
                o = ev.construct(cls, [], dict(args, **{p.name: arg}), None)
            except Exception:
                o = None
            got = o.fields.get(p.name) if isinstance(o, Obj) else None
            w = where(init, init.node)
            if got is arg:
                rep.holds('R-WIRE', key, w, '%s stores the %s object it is given' % (cname, p.name))
            elif isinstance(got, IteV) and (got.a is arg or got.b is arg) and not has_eq:
                other = got.b if got.a is arg else got.a
                rep.violated('R-WIRE', key, w, '%s keeps the %s it is given only under a condition and otherwise another object (%s): %s defines no __eq__, the conversions compare '
                             'projections by identity (`prj == isg`) - a copy of the ISG is not the ISG, CoordTM(561, E, N, projection=isg).geo(ans) raises "Invalid Zone"'
                             % (cname, p.name, describe_type(other), kcls.name), expected='self.%s = %s' % (p.name, p.name), actual='a copy under a condition')
            elif isinstance(got, Obj) and not has_eq:
                rep.violated('R-WIRE', key, w, '%s stores another object than the %s it is given (a copy): %s defines no __eq__, the conversions compare projections by identity '
                             '(`prj == isg`) - a copy of the ISG is not the ISG' % (cname, p.name, kcls.name), expected='self.%s = %s' % (p.name, p.name), actual='a copy')
            else:
                rep.undecided('R-WIRE', key, w, 'what %s stores as %s was not resolved' % (cname, p.name))
