"""C01 - forward grid conversion (convert.geo2grid, rect_radius, alpha_coeff)."""
import ast
from fractions import Fraction as F
import math
from .. import alg, tables
from ..alg import Rat, C
from ..model import AnalysisError, stmt_text
from ..symval import Evaluator, Tup, Str, IteV, CallV, Obj
from ..symcheck import (Oracle, n_ellipsoid, sym_ellipsoid, sym_projection, check_equal, leaves, poly_in,
                        compare_values, show)
from ..rules import ThreadRule, where
from ..mutate import replace_in_function, substitute, text_variant
from . import common

META = {
    'level': 'other',
    'rule_text': 'rule instances: one per Krueger coefficient row (8 alpha + rectifying radius), one per result slot of '
                 'geo2grid compared with the Karney-Krueger reference formulas, provenance of every leaf, zone/central-meridian '
                 'midpoint identity (UTM and ISG), rounding granularity, angle-argument conversion; non-trivial = two normal '
                 'forms were built and compared or a table row was bounded; input-domain guards decided as predicates over the input box (no raising test fires inside lat -80..84, lon -180..180, zones 0..60; some test fires just outside); defining constants of the four shipped ellipsoids and two projections and the class-derived quantities; object-wrapper threading (CoordGeo.tm, CoordCart.tm); statelessness (a module-level write is accepted only as a memo keyed by every input of the stored value); angular_typecheck dispatch per angle class',
    'explanation': 'Static: the source of geo2grid/alpha_coeff/rect_radius is abstractly evaluated (never run) into exact normal forms '
                   '(exponential polynomials over interned atoms). Decides the named necessary conditions of C01 for every '
                   'ellipsoid/projection/position at once: coefficient tables equal the Krueger series within a bounded effect, '
                   'the series is summed with the right harmonics and pairing, conformal latitude / Gauss-Schreiber ratios / false '
                   'origin / hemisphere rule equal the reference equations, every leaf belongs to the call\'s own ellipsoid and '
                   'projection, the central meridian is the midpoint of its zone. It does not decide floating-point rounding or the '
                   'truncation error of the n^8 series.',
}

ORACLE = '''
from math import sin, cos, tan, atan, sinh, cosh, sqrt, atanh, asinh, radians

def tm_forward(lat, lon, cm, ecc1, A, alpha, k0, FE, FN):
    phi = radians(lat)
    t = tan(phi)
    sigma = sinh(ecc1 * atanh(ecc1 * t / sqrt(1 + t * t)))
    t1 = t * sqrt(1 + sigma * sigma) - sigma * sqrt(1 + t * t)
    omega = radians(lon - cm)
    xi1 = atan(t1 / cos(omega))
    eta1 = asinh(sin(omega) / sqrt(t1 * t1 + cos(omega) * cos(omega)))
    xi = xi1
    eta = eta1
    for r in range(1, 9):
        xi = xi + alpha[r - 1] * sin(2 * r * xi1) * cosh(2 * r * eta1)
        eta = eta + alpha[r - 1] * cos(2 * r * xi1) * sinh(2 * r * eta1)
    X = A * eta
    Y = A * xi
    east = k0 * X + FE
    if Y < 0:
        hemisphere = 'South'
        north = k0 * Y + FN
    else:
        hemisphere = 'North'
        north = k0 * Y
    return hemisphere, east, north, xi1, eta1, atan(t1)
'''

N_MIN = F(1, 2 * 400 - 1)      # 1/f = 400  -> n = f/(2-f) = 1/(2/f - 1)
N_MAX = F(1, 2 * 150 - 1)      # 1/f = 150
A_MIN = F(6300000)
A_MAX = F(6400000)
ETA_MAX = 0.5493061443340549   # atanh(sin 30 deg)
TOL = F(2, 10000)              # 0.2 mm


def table_rules(repo, rep):
    """C01.1: alpha rows and rectifying radius as polynomials in n"""
    ev = Evaluator(repo)
    E = n_ellipsoid(ev, repo)
    fa = repo.func('geodepy.convert', 'alpha_coeff')
    fr = repo.func('geodepy.convert', 'rect_radius')
    rep.analysed(fa)
    rep.analysed(fr)
    val = ev.call_function(fa, {fa.params[0].name: E})
    if not isinstance(val, Tup) or len(val.items) != 8:
        rep.undecided('R-TABLE', 'R-TABLE::geodepy/convert.py::alpha_coeff::shape', where(fa, fa.node),
                      'alpha_coeff does not evaluate to an 8-tuple')
    else:
        for r, item in enumerate(val.items, 1):
            code = poly_in(item, 'n') if isinstance(item, Rat) else None
            amp_hi = A_MAX * tables.frac_up(math.cosh(2 * r * ETA_MAX))
            tables.table_rule(rep, 'R-TABLE', 'R-TABLE::geodepy/convert.py::alpha_coeff::a%d' % (2 * r), where(fa, fa.node),
                              code, tables.ALPHA[r], N_MIN, N_MAX, A_MIN, amp_hi, TOL, 'alpha_%d(n)' % (2 * r))
    val = ev.call_function(fr, {fr.params[0].name: E})
    code = None
    if isinstance(val, Rat):
        # A*(1+n)/a must be the polynomial
        q = alg.unfold_all(val)
        if q is not None:
            q = q * (C(1) + Rat.sym('n')) / Rat.sym('a')
            code = poly_in(q, 'n')
    tables.table_rule(rep, 'R-TABLE', 'R-TABLE::geodepy/convert.py::rect_radius::A', where(fr, fr.node), code, tables.RECT,
                      N_MIN, N_MAX, A_MIN * F(1, 2), A_MAX * F(355, 226), TOL, 'rectifying radius A(1+n)/a')
    rep.floor('R-TABLE', 9, 'eight alpha rows and the rectifying radius')


def alpha_items(E_key):
    """the 8 opaque atoms item(call:alpha_coeff(E), k)"""
    call = alg.opaque('call:alpha_coeff', (E_key,))
    return Tup([alg.opaque('item', (call, C(k))) for k in range(8)])


def formula_rules(repo, rep):
    """C01.2/3/4/6/7: result slots against the reference equations, provenance, rounding"""
    f = repo.func('geodepy.convert', 'geo2grid')
    rep.analysed(f)
    ev = Evaluator(repo, opaque={'alpha_coeff', 'rect_radius', 'psfandgridconv'})
    E = sym_ellipsoid(ev, repo, 'ellipsoid')
    P = sym_projection(ev, repo, 'prj')
    names = [p.name for p in f.params]
    args = {names[0]: Rat.sym('lat'), names[1]: Rat.sym('lon'), names[2]: Rat.sym('zone'), names[3]: E, names[4]: P}
    val = ev.call_function(f, args)
    w = where(f, f.node)
    if not isinstance(val, Tup) or len(val.items) != 6:
        rep.undecided('R-FORMULA', 'R-FORMULA::geodepy/convert.py::geo2grid::shape', w, 'geo2grid does not evaluate to a 6-tuple')
        return None
    hemi, zone, east, north, psf, gconv = val.items
    # the central meridian the code hands to the point-scale helper (callee parameter named cm)
    cm = None
    xi1_code = eta1_code = conf_code = None
    for caller, callee, bound, node in ev.calls:
        if caller == 'geo2grid' and callee == 'psfandgridconv':
            ps = [p.name for p in repo.func('geodepy.convert', 'psfandgridconv').params]
            cm = bound.get(ps[4])
            xi1_code, eta1_code, conf_code = bound.get(ps[0]), bound.get(ps[1]), bound.get(ps[5])
    if not isinstance(cm, Rat):
        rep.undecided('R-FORMULA', 'R-FORMULA::geodepy/convert.py::geo2grid::cm', w,
                      'cannot identify the central meridian (no call of psfandgridconv with a cm argument)')
        return None
    orc = Oracle(ORACLE)
    Ekey = 'obj<param:ellipsoid>'
    A = alg.opaque('call:rect_radius', (Ekey,))
    ref = orc.call('tm_forward', lat=Rat.sym('lat'), lon=Rat.sym('lon'), cm=cm, ecc1=E.fields['ecc1'], A=A,
                   alpha=alpha_items(Ekey), k0=P.fields['cmscale'], FE=P.fields['falseeast'], FN=P.fields['falsenorth'])
    rh, re_, rn, rxi1, reta1, rconf = ref.items
    base = 'R-FORMULA::geodepy/convert.py::geo2grid::'
    check_equal(rep, 'R-FORMULA', base + 'east', w, east, re_, 'easting = k0*A*eta + FE with eta = eta\' + sum alpha_r cos(2r xi\') sinh(2r eta\')')
    check_equal(rep, 'R-FORMULA', base + 'north', w, north, rn, 'northing = k0*A*xi (+ FN in the south) with xi = xi\' + sum alpha_r sin(2r xi\') cosh(2r eta\')')
    check_equal(rep, 'R-FORMULA', base + 'hemisphere', w, hemi, rh, 'hemisphere label follows the sign of the northing ratio')
    if xi1_code is not None:
        check_equal(rep, 'R-FORMULA', base + 'xi1', w, xi1_code, rxi1, 'Gauss-Schreiber xi\' = atan(tau\'/cos(dl))')
        check_equal(rep, 'R-FORMULA', base + 'eta1', w, eta1_code, reta1, 'Gauss-Schreiber eta\' = asinh(sin(dl)/sqrt(tau\'^2+cos^2 dl))')
        check_equal(rep, 'R-FORMULA', base + 'conf_lat', w, conf_code, rconf, 'conformal latitude atan(tau\')')
    rep.floor('R-FORMULA', 3, 'east, north, hemisphere')
    # provenance
    allowed_prefix = ('lat', 'lon', 'zone', 'pi', 'ellipsoid.', 'prj.')
    bad = []
    for slot, v in (('east', east), ('north', north)):
        for leaf in sorted(leaves(v)):
            if leaf.startswith('arg:'):
                if 'const:' in leaf and 'const:isg' not in leaf and 'const:ans' not in leaf:
                    bad.append((slot, leaf))
                continue
            if not leaf.startswith(allowed_prefix):
                bad.append((slot, leaf))
    key = 'R-LEAVES::geodepy/convert.py::geo2grid::east,north'
    if bad:
        rep.violated('R-LEAVES', key, w, 'easting/northing depend on values that are not the call\'s own ellipsoid/projection: %s' % (
            ', '.join('%s<-%s' % b for b in bad[:6])), expected='leaves: lat, lon, zone, ellipsoid.*, prj.*', actual=str(bad[:6]))
    else:
        rep.holds('R-LEAVES', key, w, 'every leaf of (east, north) is lat, lon, zone or an attribute of the call\'s own ellipsoid / prj')
    # rounding granularity
    n_round = 0
    for fn, digits, value, line in ev.roundings:
        if fn != 'geo2grid':
            continue
        which = None
        if isinstance(value, Rat) and value.num == east.num and value.den == east.den:
            which = 'east'
        elif isinstance(value, Rat) and value.num == north.num and value.den == north.den:
            which = 'north'
        if which is None:
            continue
        n_round += 1
        key = 'R-ROUND::geodepy/convert.py::geo2grid::%s' % which
        if digits is None or digits < 4:
            rep.violated('R-ROUND', key, '%s:%d' % (f.module.relpath, line),
                         '%s is rounded to %s decimals: granularity %s m exceeds 0.05 mm' % (which, digits, '0.5e-%s' % digits),
                         expected='round(%s, d) with d >= 4' % which, actual='d = %s' % digits)
        else:
            rep.holds('R-ROUND', key, '%s:%d' % (f.module.relpath, line), '%s rounded to %d decimals (<= 0.05 mm)' % (which, digits))
    return {'zone': zone, 'cm': cm, 'ev': ev, 'P': P}


def zone_rules(repo, rep, ctx):
    """C01.5: the central meridian of zone z is the midpoint of the longitudes the automatic-zone formula maps to z"""
    f = repo.func('geodepy.convert', 'geo2grid')
    w = where(f, f.node)
    zone, cm, P = ctx['zone'], ctx['cm'], ctx['P']
    key = 'R-AFFINE::geodepy/convert.py::geo2grid::zone-midpoint'
    # split the guarded forms on prj == isg
    res = common.zone_midpoint_check(zone, cm, P)
    for sub, verdict, msg, exp, act in res:
        k = key + '::' + sub
        if verdict == 'holds':
            rep.holds('R-AFFINE', k, w, msg)
        elif verdict == 'violated':
            rep.violated('R-AFFINE', k, w, msg, expected=exp, actual=act)
        else:
            rep.undecided('R-AFFINE', k, w, msg)
    rep.floor('R-AFFINE', 2, 'UTM and ISG zone formulas')


def guard_rules(repo, rep):
    """the accepted band is exactly the one the property quantifies over: -80 <= lat <= 84, -180 <= lon <= 180, zones 0..60;
    decided on the raising tests met during abstract evaluation (piecewise-constant predicates over the input box)"""
    from .. import guards
    f = repo.func('geodepy.convert', 'geo2grid')
    ps = [p.name for p in f.params]
    domain = {'lat': (-80, 84), 'lon': (-180, 180), 'zone': (0, 60)}
    ev = Evaluator(repo, opaque={'psfandgridconv', 'alpha_coeff', 'rect_radius'})
    ev.call_function(f, {ps[0]: Rat.sym('lat'), ps[1]: Rat.sym('lon'), ps[2]: Rat.sym('zone')})
    # the quantifier: automatic zone, or an explicit zone whose central meridian is within 30 degrees of the longitude - measured on the
    # circle (zone 60 for a longitude of -179 is four degrees away)
    def near(pt):
        z = pt.get('zone')
        if z is None or z == 0 or 'lon' not in pt:
            return True
        d = abs(pt['lon'] - (6 * z - 183)) % 360
        return min(d, 360 - d) <= 30
    n = guards.guard_rule(rep, 'R-GUARD', f, ev.raise_conds, domain, 'the band -80..84 / -180..180 / zones 0..60 the projection is specified on (explicit zones within 30 degrees of the longitude)',
                          lambda nd: where(f, nd), integer=('zone',), constraint=near,
                          extra_points={'lon': (-179, -177, -150, -3, 3, 150, 177, 179), 'zone': (1, 2, 5, 30, 31, 56, 59, 60)})
    guards.rejects_outside(rep, 'R-GUARD', f, ev.raise_conds, domain, {'lat': F(1, 10 ** 6), 'lon': F(1, 10 ** 6), 'zone': 1}, lambda nd: where(f, nd),
                           'the band the projection is specified on')
    if n < 3:
        rep.undecided('R-GUARD', 'R-GUARD::geodepy/convert.py::geo2grid::tests', where(f, f.node), 'fewer than three raising input tests were met (%d)' % n)
    common.isg_zone_rule(repo, rep, 'geo2grid', ps[2], True, {ps[0]: Rat.sym('lat'), ps[1]: Rat.sym('lon')})
    # (the double-arithmetic truncation rule is NOT applied to the lattice: on a strip boundary - longitude 142 for ISG - the program puts
    # the point in the western strip where exact arithmetic puts it in the eastern one; both central meridians are within half a strip
    # width, which is all the property asks)
    common.zone_table_rule(repo, rep)
    common.antimeridian_symmetry_rule(repo, rep)
    common.validated_copy_rule(repo, rep, [('geodepy.convert', 'geo2grid')])


def units_rules(repo, rep):
    f = repo.func('geodepy.convert', 'geo2grid')
    for p in f.params[:2]:
        common.angle_param_rule(rep, f, p.name)
    rep.floor('R-UNITS', 2, 'lat and lon of geo2grid')


def run(repo, rep):
    alg.reset()
    common.typecheck_rules(repo, rep)
    common.state_rule(repo, rep, [('geodepy.convert', 'geo2grid')])
    common.ellipsoid_rules(repo, rep, projections=True)
    rep.trust('sv/alg.py exact normal forms; generators (free symbols, sqrt/atan/log/... atoms with different arguments) are algebraically independent modulo the rewrite rules applied')
    rep.trust('reference formulas: Karney (2011) / Deakin "Karney-Krueger equations"; Krueger alpha table to n^8')
    rep.assume('float(x) == x, round(x, d) treated as identity with granularity 10^-d, angular_typecheck(x) == x in degrees')
    table_rules(repo, rep)
    ctx = formula_rules(repo, rep)
    if ctx is not None:
        zone_rules(repo, rep, ctx)
    units_rules(repo, rep)
    guard_rules(repo, rep)
    common.tm_division_rules(repo, rep)
    tr = ThreadRule(repo, rep)
    f = repo.func('geodepy.convert', 'geo2grid')
    tr.check_const(f)
    for q in ('rect_radius', 'alpha_coeff'):
        tr.check_const(repo.func('geodepy.convert', q))
    # calls to the coefficient helpers must receive the own ellipsoid (psfandgridconv is C10's business)
    tr2 = ThreadRule(repo, _Filter(rep, lambda key: 'psfandgridconv' not in key))
    tr2.check_function(f)
    # the object wrappers named in the property's observe_at list hand their ellipsoid and projection on
    for q in ('CoordGeo.tm', 'CoordCart.tm'):
        tr.check_function(repo.func('geodepy.coord', q), roles=('ellipsoid', 'prj'))
    from . import c15
    c15.delegation_rules(repo, rep, only=('CoordGeo.tm',))


class _Filter(object):
    """reporter proxy dropping instances whose key fails the predicate"""

    def __init__(self, rep, pred):
        self._rep = rep
        self._pred = pred

    def __getattr__(self, name):
        return getattr(self._rep, name)

    def __setattr__(self, name, value):
        if name in ('_rep', '_pred'):
            object.__setattr__(self, name, value)
        else:
            setattr(self._rep, name, value)

    def add(self, rule, key, *a, **k):
        if self._pred(key):
            return self._rep.add(rule, key, *a, **k)

    def holds(self, rule, key, *a, **k):
        if self._pred(key):
            return self._rep.holds(rule, key, *a, **k)

    def violated(self, rule, key, *a, **k):
        if self._pred(key):
            return self._rep.violated(rule, key, *a, **k)

    def undecided(self, rule, key, *a, **k):
        if self._pred(key):
            return self._rep.undecided(rule, key, *a, **k)

    def info(self, rule, key, *a, **k):
        if self._pred(key):
            return self._rep.info(rule, key, *a, **k)


def controls(repo):
    out = []
    src = repo.sources['geodepy/convert.py']

    def swap_sin_cos(fn):
        # in the eta accumulation of the forward series replace cos by sin
        def pred(n):
            return isinstance(n, ast.AugAssign) and isinstance(n.target, ast.Name) and n.target.id == 'eta'

        def make(n):
            for c in ast.walk(n.value):
                if isinstance(c, ast.Call) and isinstance(c.func, ast.Name) and c.func.id == 'cos':
                    c.func.id = 'sin'
                    break
            return n
        substitute(fn, pred, make, limit=1, expect=1)
    out.append(('series-sin-for-cos', repo.variant({'geodepy/convert.py': replace_in_function(src, 'geo2grid', swap_sin_cos)}), 'geo2grid::east'))
    out.append(('alpha-sign', text_variant(repo, 'geodepy/convert.py', '             - 104509440)', '             + 104509440)'), 'alpha_coeff::a4'))
    return out
