"""C18, second part: index discipline of the SINEX matrix editors and readers (gnss.py).

The triangular SOLUTION/MATRIX_ESTIMATE block is a sequence of records  `row col v0 [v1 [v2]]`  holding the elements
(row, col), (row, col+1), (row, col+2) with 1-based parameter numbers; a lower-triangular row r holds columns 1..r, an
upper-triangular row r holds columns r..N, consecutively.  So, within the list of values of one row, the value at list
position p is the element of column  first(r) + p  with first(r) = 1 (lower) or r (upper), and the row holds  r  (lower)
or  N - r + 1  (upper) values.  Every rule below compares an affine index expression taken from the syntax tree with the
affine expression this layout demands.  Expressions are compared as exact affine forms over the loop variables; a shape
the extractor does not recognise gives UNDECIDED, never VIOLATED.
"""
import ast
from fractions import Fraction as F
from ..model import AnalysisError, stmt_text
from ..rules import where


# ------------------------------------------------------------------------------------------------ affine forms
def aff(e, env=None):
    """affine form {term: coefficient} of an integer expression; '' is the constant term, other terms are variable names or the
    normalised text of an opaque sub-expression such as len(vcv) or int(col[0]).  env maps names to forms (copy propagation)."""
    env = env or {}
    if isinstance(e, ast.Constant) and isinstance(e.value, (int, float)) and not isinstance(e.value, bool):
        return {'': F(e.value)} if e.value else {}
    if isinstance(e, ast.Name):
        if e.id in env:
            return dict(env[e.id])
        return {e.id: F(1)}
    if isinstance(e, ast.UnaryOp) and isinstance(e.op, ast.USub):
        return scale(aff(e.operand, env), F(-1))
    if isinstance(e, ast.UnaryOp) and isinstance(e.op, ast.UAdd):
        return aff(e.operand, env)
    if isinstance(e, ast.BinOp) and isinstance(e.op, (ast.Add, ast.Sub)):
        a, b = aff(e.left, env), aff(e.right, env)
        return add(a, b if isinstance(e.op, ast.Add) else scale(b, F(-1)))
    if isinstance(e, ast.BinOp) and isinstance(e.op, ast.Mult):
        a, b = aff(e.left, env), aff(e.right, env)
        if set(a) <= {''}:
            return scale(b, a.get('', F(0)))
        if set(b) <= {''}:
            return scale(a, b.get('', F(0)))
    if isinstance(e, ast.BinOp) and isinstance(e.op, (ast.Div, ast.FloorDiv)):
        a, b = aff(e.left, env), aff(e.right, env)
        if set(b) <= {''} and b.get('', F(0)) != 0:
            return scale(a, 1 / b[''])
    if isinstance(e, ast.Call) and isinstance(e.func, ast.Name) and e.func.id == 'int' and len(e.args) == 1:
        inner = aff(e.args[0], env)
        if not isinstance(e.args[0], (ast.Subscript, ast.Call, ast.Attribute)):
            return inner       # int() of an arithmetic expression: the rounding is not modelled, the affine form is kept
        return {'<int(%s)>' % norm_text(e.args[0], env): F(1)}
    return {'<%s>' % norm_text(e, env): F(1)}


def norm_text(e, env):
    return stmt_text(e).replace(' ', '').replace('"', "'")


def add(a, b):
    out = dict(a)
    for k, v in b.items():
        out[k] = out.get(k, F(0)) + v
        if out[k] == 0:
            del out[k]
    return out


def scale(a, c):
    return dict((k, v * c) for k, v in a.items() if v * c != 0)


def sub(a, b):
    return add(a, scale(b, F(-1)))


def const(c):
    return {'': F(c)} if c else {}


def var(n):
    return {n: F(1)}


def show(a):
    if not a:
        return '0'
    parts = []
    for k in sorted(a, key=lambda t: (t == '', t)):
        v = a[k]
        if k == '':
            parts.append(str(v))
        elif v == 1:
            parts.append(k.strip('<>'))
        elif v == -1:
            parts.append('-' + k.strip('<>'))
        else:
            parts.append('%s*%s' % (v, k.strip('<>')))
    return ' + '.join(parts).replace('+ -', '- ')


# ------------------------------------------------------------------------------------------------ syntax helpers
def walk_stmts(stmts):
    """every statement nested in stmts (not descending into nested function definitions)"""
    for st in stmts:
        yield st
        for field in ('body', 'orelse', 'finalbody'):
            sub_ = getattr(st, field, None)
            if isinstance(sub_, list) and not isinstance(st, (ast.FunctionDef, ast.ClassDef)):
                for x in walk_stmts(sub_):
                    yield x
        if isinstance(st, ast.Try):
            for h in st.handlers:
                for x in walk_stmts(h.body):
                    yield x


def range_args(call):
    """(lo, hi) ast nodes of range(hi) / range(lo, hi); None otherwise"""
    if isinstance(call, ast.Call) and isinstance(call.func, ast.Name) and call.func.id == 'range' and not call.keywords:
        if len(call.args) == 1:
            return ast.Constant(value=0), call.args[0]
        if len(call.args) == 2:
            return call.args[0], call.args[1]
    return None


def is_cmp_const(test, name, value):
    """name == 'value'"""
    return isinstance(test, ast.Compare) and len(test.ops) == 1 and isinstance(test.ops[0], ast.Eq) and isinstance(test.left, ast.Name) \
        and test.left.id == name and isinstance(test.comparators[0], ast.Constant) and test.comparators[0].value == value


def branches_on(stmts, name):
    """{constant: body} for `if name == 'constant': ... [elif ...]` statements among the nested statements"""
    out = {}
    for st in walk_stmts(stmts):
        if isinstance(st, ast.If) and isinstance(st.test, ast.Compare) and len(st.test.ops) == 1 and isinstance(st.test.ops[0], ast.Eq) \
                and isinstance(st.test.left, ast.Name) and st.test.left.id == name and isinstance(st.test.comparators[0], ast.Constant):
            out.setdefault(st.test.comparators[0].value, []).append(st)
    return out


def membership(test):
    """(expr, container name, negated) of `expr in name` / `expr not in name`"""
    if isinstance(test, ast.Compare) and len(test.ops) == 1 and isinstance(test.ops[0], (ast.In, ast.NotIn)) and isinstance(test.comparators[0], ast.Name):
        return test.left, test.comparators[0].id, isinstance(test.ops[0], ast.NotIn)
    return None


def append_calls(stmts, target_pred=None):
    """[(target expr, argument expr, call node)] of x.append(arg) statements nested in stmts"""
    out = []
    for st in walk_stmts(stmts):
        if isinstance(st, ast.Expr) and isinstance(st.value, ast.Call) and isinstance(st.value.func, ast.Attribute) and st.value.func.attr == 'append' \
                and len(st.value.args) == 1:
            tgt = st.value.func.value
            if target_pred is None or target_pred(tgt):
                out.append((tgt, st.value.args[0], st.value))
    return out


def subscript_of(e, name):
    """index expr of  name[index]  else None"""
    if isinstance(e, ast.Subscript) and isinstance(e.value, ast.Name) and e.value.id == name:
        return e.slice
    return None


def str_arg(e):
    """x of str(x) else None"""
    if isinstance(e, ast.Call) and isinstance(e.func, ast.Name) and e.func.id == 'str' and len(e.args) == 1:
        return e.args[0]
    return None


def slice_bounds(e):
    if isinstance(e, ast.Subscript) and isinstance(e.slice, ast.Slice):
        lo = e.slice.lower.value if isinstance(e.slice.lower, ast.Constant) else (0 if e.slice.lower is None else '?')
        hi = e.slice.upper.value if isinstance(e.slice.upper, ast.Constant) else (None if e.slice.upper is None else '?')
        return lo, hi
    return None


class Out(object):
    """collects verdicts of one rule family with a common key prefix"""

    def __init__(self, rep, rule, f):
        self.rep, self.rule, self.f = rep, rule, f
        self.base = '%s::geodepy/gnss.py::%s::' % (rule, f.qualname)

    def eq(self, sub_, node, got, want, what, consequence):
        key = self.base + sub_
        w = where(self.f, node)
        if got == want:
            self.rep.holds(self.rule, key, w, '%s: %s' % (what, show(got)))
        else:
            self.rep.violated(self.rule, key, w, '%s is %s, the layout requires %s: %s' % (what, show(got), show(want), consequence),
                              expected=show(want), actual=show(got))

    def ok(self, sub_, node, msg):
        self.rep.holds(self.rule, self.base + sub_, where(self.f, node), msg)

    def bad(self, sub_, node, msg, expected=None, actual=None):
        self.rep.violated(self.rule, self.base + sub_, where(self.f, node), msg, expected=expected, actual=actual)

    def unk(self, sub_, node, msg):
        self.rep.undecided(self.rule, self.base + sub_, where(self.f, node if node is not None else self.f.node), msg)


# ------------------------------------------------------------------------------------------------ remove_stns_sinex
def stns_rules(rep, m):
    f = m.functions.get('remove_stns_sinex')
    if f is None:
        raise AnalysisError('anchor vanished: gnss.remove_stns_sinex')
    o = Out(rep, 'R-INDEX', f)
    body = f.node.body
    fors = [st for st in walk_stmts(body) if isinstance(st, ast.For)]
    # ---- role discovery: the list of removed parameter numbers (receives int(line[a:b]) under `site in sites`)
    skip = None
    skip_node = None
    for st in walk_stmts(body):
        if isinstance(st, ast.If):
            mem = membership(st.test)
            if mem and not mem[2]:
                for tgt, arg, call in append_calls(st.body):
                    if isinstance(tgt, ast.Name) and isinstance(arg, ast.Name):
                        # num = int(line[0:6]); skip.append(num)
                        for s2 in st.body:
                            if isinstance(s2, ast.Assign) and isinstance(s2.targets[0], ast.Name) and s2.targets[0].id == arg.id:
                                skip, skip_node = tgt.id, (st, s2, call)
                    elif isinstance(tgt, ast.Name) and isinstance(arg, ast.Call):
                        skip, skip_node = tgt.id, (st, None, call)
    if skip is None:
        o.unk('skip-list', None, 'the list of removed parameter numbers was not identified')
        return
    # ---- E. estimate filter
    st, asg, call = skip_node
    src = asg.value if asg is not None else call.args[0]
    sb = None
    if isinstance(src, ast.Call) and isinstance(src.func, ast.Name) and src.func.id == 'int' and src.args:
        sb = slice_bounds(src.args[0])
    if sb is None:
        o.unk('skip-number', st, 'removed parameter number is not int(line[a:b])')
    elif sb[0] in (0, 1) and sb[1] == 6:
        o.ok('skip-number', st, 'removed parameter numbers are read from the index field (columns %d-%d) of the estimate record' % (sb[0] + 1, sb[1]))
    else:
        o.bad('skip-number', st, 'removed parameter numbers are read from line[%s:%s]; the SOLUTION/ESTIMATE index field is columns 2-6 (line[1:6]) - '
              'the matrix rows/columns deleted are then not those of the removed stations' % sb, expected='line[0:6] or line[1:6]', actual='line[%s:%s]' % sb)
    # site code slice used for the membership test in the estimate loop
    mem = membership(st.test)
    site_name = mem[0].id if isinstance(mem[0], ast.Name) else None
    site_sl = None
    # nearest preceding assignment of the site name inside the same loop
    for lp in fors:
        if any(s is st for s in walk_stmts(lp.body)):
            for s2 in walk_stmts(lp.body):
                if isinstance(s2, ast.Assign) and isinstance(s2.targets[0], ast.Name) and s2.targets[0].id == site_name and s2.lineno <= st.lineno:
                    site_sl = slice_bounds(s2.value)
    if site_sl is None:
        o.unk('estimate-site', st, 'site code of the estimate record not recognised')
    elif site_sl == (14, 18):
        o.ok('estimate-site', st, 'estimate records are selected by the site code in columns 15-18')
    else:
        o.bad('estimate-site', st, 'estimate records are selected by line[%s:%s]; the site code of a SOLUTION/ESTIMATE record is line[14:18]' % site_sl,
              expected='[14:18]', actual='[%s:%s]' % site_sl)
    # renumbering: counter += 1 precedes its formatting, starts at 0
    renumber_rule(o, f, st.orelse, body)
    # the SITE/ID and SOLUTION/EPOCHS filters: a record is written iff its site (columns 2-5) is not in the removal set
    n_filters = 0
    for lp in fors:
        for s2 in lp.body if isinstance(lp.body, list) else []:
            pass
    for st2 in walk_stmts(body):
        if isinstance(st2, ast.If):
            mem2 = membership(st2.test)
            if mem2 and mem2[2] and isinstance(mem2[0], ast.Name) and mem2[1] == mem[1]:
                # `if site not in sites: out.write(...)`
                n_filters += 1
                sl = None
                for lp in fors:
                    if any(s is st2 for s in walk_stmts(lp.body)):
                        for s3 in walk_stmts(lp.body):
                            if isinstance(s3, ast.Assign) and isinstance(s3.targets[0], ast.Name) and s3.targets[0].id == mem2[0].id and s3.lineno <= st2.lineno:
                                sl = slice_bounds(s3.value)
                sub_ = 'record-filter#%d' % n_filters
                writes = [c for c in ast.walk(ast.Module(body=st2.body, type_ignores=[])) if isinstance(c, ast.Call) and isinstance(c.func, ast.Attribute) and c.func.attr == 'write']
                if sl == (1, 5) and writes and not st2.orelse:
                    o.ok(sub_, st2, 'SITE/ID / SOLUTION/EPOCHS record written iff its site code (columns 2-5) is not in the removal set')
                elif sl is not None and sl != (1, 5):
                    o.bad(sub_, st2, 'records are filtered by line[%s:%s]; the site code of SITE/ID and SOLUTION/EPOCHS records is line[1:5]' % sl,
                          expected='[1:5]', actual='[%s:%s]' % sl)
                elif not writes:
                    o.bad(sub_, st2, 'a record whose site is not removed is not written')
                else:
                    o.unk(sub_, st2, 'filter shape not recognised')
    # every membership test against the removal set uses the site-code columns of the block it iterates
    BLOCK_SITE = {'read_sinex_site_id_block': (1, 5), 'read_sinex_solution_epochs_block': (1, 5), 'read_sinex_solution_estimate_block': (14, 18)}
    k_mem = 0
    for lp in fors:
        if not isinstance(lp.iter, ast.Name):
            continue
        src_fn = None
        for a_ in _assignments(f.node, lp.iter.id, before=lp.lineno):
            if isinstance(a_.value, ast.Call) and getattr(a_.value.func, 'id', '') in BLOCK_SITE:
                src_fn = a_.value.func.id
        if src_fn is None:
            continue
        for st3 in walk_stmts(lp.body):
            if isinstance(st3, ast.If):
                mm = membership(st3.test)
                if mm and mm[1] == mem[1] and isinstance(mm[0], ast.Name):
                    sl3 = None
                    for s4 in walk_stmts(lp.body):
                        if isinstance(s4, ast.Assign) and isinstance(s4.targets[0], ast.Name) and s4.targets[0].id == mm[0].id and s4.lineno <= st3.lineno:
                            sl3 = slice_bounds(s4.value)
                    if sl3 is None:
                        continue
                    k_mem += 1
                    want3 = BLOCK_SITE[src_fn]
                    if sl3 == want3:
                        o.ok('site-columns#%d' % k_mem, st3, 'records of %s are matched by their site code line[%d:%d]' % (src_fn, want3[0], want3[1]))
                    else:
                        o.bad('site-columns#%d' % k_mem, st3, 'records of %s are matched against the removal set by line[%s:%s]; their site code is line[%d:%d]' % (
                            src_fn, sl3[0], sl3[1], want3[0], want3[1]), expected='[%d:%d]' % want3, actual='[%s:%s]' % sl3)
    # ---- D. header parameter count
    header_count_rule(o, f, body, mem[1])
    # ---- A. parse loop: vcv[row] receives cols[2:], in order
    parse = None
    for lp in fors:
        r = range_args(lp.iter)
        if r is None or not isinstance(lp.target, ast.Name):
            continue
        apps = append_calls(lp.body)
        if not apps:
            continue
        args = [a for t, a, c in apps]
        if all(isinstance(a, ast.Subscript) and isinstance(a.value, ast.Name) and isinstance(a.slice, ast.Name) and a.slice.id == lp.target.id for a in args):
            lo, hi = r
            parse = (lp, lo, hi, args, apps)
            break
    vcv = None
    if parse is None:
        o.unk('parse', None, 'the loop that collects the values of one matrix record was not recognised')
    else:
        lp, lo, hi, args, apps = parse
        o.eq('parse::first-value', lp, aff(lo), const(2), 'first field of a matrix record taken as a value',
             'fields 0 and 1 are the row and column numbers, the values start at field 2')
        o.eq('parse::last-value', lp, aff(hi), {'<len(%s)>' % args[0].value.id: F(1)}, 'end (exclusive) of the fields taken as values', 'every value of the record up to its last field')
        tg = apps[0][0]
        if isinstance(tg, ast.Subscript) and isinstance(tg.value, ast.Name):
            vcv = tg.value.id
        colsname = args[0].value.id
        # row key = cols[0]
        rowkey = tg.slice if isinstance(tg, ast.Subscript) else None
        rk = None
        if isinstance(rowkey, ast.Name):
            for s2 in walk_stmts(body):
                if isinstance(s2, ast.Assign) and isinstance(s2.targets[0], ast.Name) and s2.targets[0].id == rowkey.id and s2.lineno < lp.lineno:
                    ix = subscript_of(s2.value, colsname)
                    if ix is not None:
                        rk = aff(ix)
        elif rowkey is not None:
            ix = subscript_of(rowkey, colsname)
            rk = aff(ix) if ix is not None else None
        if rk is None:
            o.unk('parse::row-key', lp, 'row key of the collected values not recognised')
        else:
            o.eq('parse::row-key', lp, rk, const(0), 'field used as the row number', 'field 0 of a matrix record is the row (PARA1), field 1 the first column (PARA2)')
        if len(set(norm_text(a, None) for a in args)) != 1:
            o.bad('parse::same-element', lp, 'the try and except paths append different fields', actual=', '.join(sorted(set(norm_text(a, None) for a in args))))
    if vcv is None:
        return
    # ---- B. extraction
    outer = None
    for lp in fors:
        r = range_args(lp.iter)
        if r is None or not isinstance(lp.target, ast.Name):
            continue
        if any(isinstance(s, ast.If) and membership(s.test) and membership(s.test)[1] == skip for s in lp.body) \
                and any(isinstance(x, ast.Subscript) and isinstance(x.value, ast.Name) and x.value.id == vcv for x in ast.walk(lp)):
            outer = (lp, r)
            break
    if outer is None:
        o.unk('extract', None, 'the row loop of the sub-matrix extraction was not recognised')
        return
    lp, (lo, hi) = outer
    i = lp.target.id
    N = {'<len(%s)>' % vcv: F(1)}
    o.eq('extract::rows-from', lp, aff(lo), const(1), 'first row visited', 'matrix rows are numbered 1..N')
    o.eq('extract::rows-to', lp, aff(hi), add(N, const(1)), 'row range end (exclusive)', 'the last row N would be dropped or a row N+1 looked up')
    keep = [s for s in lp.body if isinstance(s, ast.If) and membership(s.test) and membership(s.test)[1] == skip][0]
    km = membership(keep.test)
    if not km[2] or aff(km[0]) != var(i):
        o.bad('extract::row-test', keep, 'rows are kept under the test `%s`; a row survives iff its number is not a removed parameter number' % stmt_text(keep.test),
              expected='%s not in %s' % (i, skip), actual=stmt_text(keep.test))
    else:
        o.ok('extract::row-test', keep, 'row %s is kept iff %s not in the removed parameter numbers' % (i, i))
    # sub_row counter: += 1 as a direct statement of the kept branch before any append
    counter = None
    for s2 in keep.body:
        if isinstance(s2, ast.AugAssign) and isinstance(s2.op, ast.Add) and isinstance(s2.target, ast.Name):
            counter = (s2.target.id, aff(s2.value), s2)
            break
        if append_calls([s2]):
            break
    if counter is None:
        o.unk('extract::row-counter', keep, 'no `counter += 1` at the head of the kept-row branch')
    else:
        o.eq('extract::row-counter', counter[2], counter[1], const(1), 'increment of the output row number per kept row', 'output rows must be numbered consecutively')
        init = None
        for s2 in walk_stmts(body):
            if isinstance(s2, ast.Assign) and isinstance(s2.targets[0], ast.Name) and s2.targets[0].id == counter[0] and s2.lineno < lp.lineno:
                init = aff(s2.value)
        if init is not None:
            o.eq('extract::row-counter-init', keep, init, const(0), 'initial output row number', 'the first kept row must become row 1')
    br = branches_on(keep.body, None) if False else {}
    mname = None
    for s2 in walk_stmts(keep.body):
        if isinstance(s2, ast.If) and isinstance(s2.test, ast.Compare) and isinstance(s2.test.left, ast.Name) and isinstance(s2.test.comparators[0], ast.Constant) \
                and s2.test.comparators[0].value in ('lower', 'upper'):
            mname = s2.test.left.id
            br.setdefault(s2.test.comparators[0].value, []).append(s2)
    for tri in ('lower', 'upper'):
        if tri not in br:
            o.unk('extract::%s' % tri, keep, 'no branch for the %s-triangular layout' % tri)
            continue
        b = br[tri][0]
        inner = [s for s in b.body if isinstance(s, ast.For) and range_args(s.iter) and isinstance(s.target, ast.Name)]
        if len(inner) != 1:
            o.unk('extract::%s' % tri, b, 'column loop not recognised')
            continue
        cl = inner[0]
        j = cl.target.id
        clo, chi = range_args(cl.iter)
        tests = [s for s in cl.body if isinstance(s, ast.If) and membership(s.test) and membership(s.test)[1] == skip]
        if len(tests) != 1:
            o.unk('extract::%s' % tri, cl, 'column test not recognised')
            continue
        t = tests[0]
        tm = membership(t.test)
        apps = append_calls(t.body)
        idxs = []
        for tg, a, c in apps:
            # vcv[str(i)][IDX]
            if isinstance(a, ast.Subscript) and isinstance(a.value, ast.Subscript) and isinstance(a.value.value, ast.Name) and a.value.value.id == vcv:
                rk = str_arg(a.value.slice)
                idxs.append((aff(rk) if rk is not None else None, aff(a.slice), tg, a))
        if not idxs or any(x[0] is None for x in idxs):
            o.unk('extract::%s' % tri, t, 'appended element is not %s[str(row)][index]' % vcv)
            continue
        if len(set(norm_text(x[3], None) for x in idxs)) != 1:
            o.bad('extract::%s::same-element' % tri, t, 'the try and except paths append different elements',
                  actual=', '.join(sorted(set(norm_text(x[3], None) for x in idxs))))
            continue
        srow, idx, tg, a = idxs[0]
        first = const(1) if tri == 'lower' else var(i)
        count = var(i) if tri == 'lower' else add(sub(N, var(i)), const(1))
        o.eq('extract::%s::source-row' % tri, t, srow, var(i), 'row whose values are copied', 'values of another row would be copied')
        if idx.get(j) != 1:
            o.unk('extract::%s::index' % tri, t, 'list position %s is not %s + offset' % (show(idx), j))
            continue
        if not tm[2]:
            o.bad('extract::%s::column-test' % tri, t, 'an element is copied when its column IS a removed parameter', expected='not in', actual='in')
        o.eq('extract::%s::column-test' % tri, t, aff(tm[0]), add(idx, first),
             'column number tested against the removed parameters for list position %s' % show(idx),
             'position p of %s row r is column %s + p; testing another number deletes the wrong columns of the covariance matrix' % (tri, '1' if tri == 'lower' else 'r'))
        off = sub(idx, var(j))
        o.eq('extract::%s::first-position' % tri, cl, add(aff(clo), off), const(0), 'first list position visited', 'the first stored value of the row is position 0')
        o.eq('extract::%s::last-position' % tri, cl, add(aff(chi), off), count, 'number of list positions visited in row %s' % i,
             'a %s-triangular row r holds %s values' % (tri, 'r' if tri == 'lower' else 'N - r + 1'))
        # destination: sub_vcv[str(counter)]
        if isinstance(tg, ast.Subscript) and counter is not None:
            dk = str_arg(tg.slice)
            if dk is not None:
                o.eq('extract::%s::target-row' % tri, t, aff(dk), var(counter[0]), 'output row receiving the values', 'kept values must go to the current output row')
    # ---- C. re-blocking
    write_rule(o, f, body, fors, mname)


def renumber_rule(o, f, stmts, body):
    """estimate_number += 1 before '{:5d}'.format(estimate_number); line = ' ' + number + line[6:]"""
    aug = None
    fmt = None
    for s in walk_stmts(stmts):
        if isinstance(s, ast.AugAssign) and isinstance(s.op, ast.Add) and isinstance(s.target, ast.Name) and aug is None:
            aug = s
        if isinstance(s, ast.Assign) and isinstance(s.value, ast.Call) and isinstance(s.value.func, ast.Attribute) and s.value.func.attr == 'format' and s.value.args \
                and isinstance(s.value.args[0], ast.Name) and fmt is None:
            fmt = s
    if aug is None or fmt is None or fmt.value.args[0].id != aug.target.id:
        o.unk('renumber', stmts[0] if stmts else None, 'renumbering statements not recognised')
        return
    o.eq('renumber::step', aug, aff(aug.value), const(1), 'increment of the estimate number per kept record', 'kept estimates must be numbered consecutively')
    if aug.lineno < fmt.lineno:
        o.ok('renumber::order', aug, 'the counter is advanced before it is formatted (numbers start at init + 1)')
    else:
        o.bad('renumber::order', aug, 'the counter is formatted before it is advanced: numbering starts one too low')
    init = None
    for s in walk_stmts(body):
        if isinstance(s, ast.Assign) and isinstance(s.targets[0], ast.Name) and s.targets[0].id == aug.target.id and s.lineno < aug.lineno:
            init = s
    if init is not None:
        o.eq('renumber::init', init, aff(init.value), const(0), 'initial estimate number', 'the first kept estimate must become number 1')


def poly(e):
    """{monomial (sorted tuple of names): coefficient} of an expression over names with + - * and int(); None when it is not a polynomial"""
    if isinstance(e, ast.Constant) and isinstance(e.value, (int, float)) and not isinstance(e.value, bool):
        return {(): F(e.value)} if e.value else {}
    if isinstance(e, ast.Name):
        return {(e.id,): F(1)}
    if isinstance(e, ast.Call) and getattr(e.func, 'id', '') == 'int' and len(e.args) == 1:
        return poly(e.args[0])
    if isinstance(e, ast.UnaryOp) and isinstance(e.op, ast.USub):
        p = poly(e.operand)
        return None if p is None else dict((k, -v) for k, v in p.items())
    if isinstance(e, ast.BinOp) and isinstance(e.op, (ast.Add, ast.Sub, ast.Mult)):
        a, b = poly(e.left), poly(e.right)
        if a is None or b is None:
            return None
        out = {}
        if isinstance(e.op, ast.Mult):
            for k1, v1 in a.items():
                for k2, v2 in b.items():
                    k = tuple(sorted(k1 + k2))
                    out[k] = out.get(k, F(0)) + v1 * v2
        else:
            sg = 1 if isinstance(e.op, ast.Add) else -1
            out = dict(a)
            for k, v in b.items():
                out[k] = out.get(k, F(0)) + sg * v
        return dict((k, v) for k, v in out.items() if v != 0)
    return None


def header_count_rule(o, f, body, sites):
    """num_params = int(header[60:65]) - k * removed, k = 6 with velocities else 3; removed counted +1 per EPOCHS record of a removed site"""
    target = None
    for s in walk_stmts(body):
        if isinstance(s, ast.Assign) and isinstance(s.value, ast.BinOp) and any(isinstance(x, ast.Call) and getattr(x.func, 'id', '') == 'int' for x in ast.walk(s.value)) \
                and len(set(x.id for x in ast.walk(s.value) if isinstance(x, ast.Name) and x.id != 'int')) == 3:
            target = s
            break
    if target is None:
        o.unk('header-count', None, 'parameter-count update not of the form int(old) - k * n')
        return
    ints = [x for x in ast.walk(target.value) if isinstance(x, ast.Call) and getattr(x.func, 'id', '') == 'int' and x.args]
    old = ints[0].args[0]
    oldn = old.id if isinstance(old, ast.Name) else None
    names = [x for x in ast.walk(target.value) if isinstance(x, ast.Name) and x.id not in ('int', oldn)]
    seen_n = []
    names = [x for x in names if not (x.id in seen_n or seen_n.append(x.id))]
    if len(names) != 2 or oldn is None:
        o.unk('header-count', target, 'parameter-count update not of the form int(old) - k * n')
        return
    pol = poly(target.value)
    want = {(oldn,): F(1), tuple(sorted([names[0].id, names[1].id])): F(-1)}
    if pol is None:
        o.bad('header-count::formula', target, 'new parameter count `%s` is not old - (parameters per station) * (removed stations)' % stmt_text(target.value)[:90],
              expected='%s - %s * %s' % (oldn, names[0].id, names[1].id), actual=stmt_text(target.value)[:90])
    elif pol == want:
        o.ok('header-count::formula', target, 'new parameter count = old - (parameters per station) * (removed stations)')
    else:
        o.bad('header-count::formula', target, 'new parameter count `%s` is not old - (parameters per station) * (removed stations)' % stmt_text(target.value)[:90],
              expected='%s - %s * %s' % (oldn, names[0].id, names[1].id), actual=stmt_text(target.value)[:90])
    # classify the two names: one assigned constants under a header test, the other counted in a loop
    consts = {}
    counted = {}
    for s in walk_stmts(body):
        if isinstance(s, ast.If) and s.lineno < target.lineno:
            for side, stmts in (('then', s.body), ('else', s.orelse)):
                for s2 in stmts:
                    if isinstance(s2, ast.Assign) and isinstance(s2.targets[0], ast.Name) and isinstance(s2.value, ast.Constant) \
                            and s2.targets[0].id in [n.id for n in names]:
                        consts.setdefault(s2.targets[0].id, {})[side] = (s2.value.value, s)
        if isinstance(s, ast.Assign) and len(s.targets) == 1 and isinstance(s.targets[0], ast.Name) and s.targets[0].id in [n.id for n in names] and s.lineno < target.lineno \
                and isinstance(s.value, ast.IfExp) and isinstance(s.value.body, ast.Constant) and isinstance(s.value.orelse, ast.Constant):
            # k = 6 if <header test> else 3: the two constants of a conditional expression (the node carries the test)
            consts[s.targets[0].id] = {'then': (s.value.body.value, s.value), 'else': (s.value.orelse.value, s.value)}
        if isinstance(s, ast.AugAssign) and isinstance(s.target, ast.Name) and s.target.id in [n.id for n in names] and s.lineno < target.lineno:
            counted[s.target.id] = s
        if isinstance(s, ast.Assign) and len(s.targets) == 1 and isinstance(s.targets[0], ast.Name) and s.targets[0].id in [n.id for n in names] and s.lineno < target.lineno \
                and isinstance(s.value, ast.Call) and getattr(s.value.func, 'id', '') == 'sum' and len(s.value.args) == 1 and isinstance(s.value.args[0], ast.GeneratorExp) \
                and len(s.value.args[0].generators) == 1:
            # n = sum(<step> for record in <block> if <test>): the counting loop written as a generator - one synthetic `n += <step>` per record
            g_ = s.value.args[0]
            c_ = ast.AugAssign(target=ast.Name(id=s.targets[0].id, ctx=ast.Store()), op=ast.Add(), value=g_.elt)
            ast.copy_location(c_, s)

            class _Loop(object):
                pass
            lp_ = _Loop()
            lp_.iter = g_.generators[0].iter
            lp_.lineno = s.lineno
            lp_.col_offset = s.col_offset
            c_._gen_loop = lp_
            counted[s.targets[0].id] = c_
    if len(consts) != 1 or len(counted) != 1:
        o.unk('header-count', target, 'per-station parameter count / removed-station counter not recognised')
        return
    kname = list(consts)[0]
    kv = consts[kname]
    test = kv['then'][1].test
    sb = slice_bounds(test.left) if isinstance(test, ast.Compare) else None
    lit = test.comparators[0].value if isinstance(test, ast.Compare) and isinstance(test.comparators[0], ast.Constant) else None
    if sb is None or lit != 'V' or not isinstance(test.ops[0], ast.Eq):
        o.unk('header-count::per-station', kv['then'][1], 'velocity test on the header not recognised')
    else:
        vals = (kv.get('then', (None,))[0], kv.get('else', (None,))[0])
        if vals == (6, 3):
            o.ok('header-count::per-station', kv['then'][1], 'six parameters per station when the header lists V, three otherwise')
        else:
            o.bad('header-count::per-station', kv['then'][1], 'parameters per removed station: %s with velocities / %s without; a station has 6 (X Y Z VX VY VZ) / 3' % vals,
                  expected='6 / 3', actual='%s / %s' % vals)
    c = counted[list(counted)[0]]
    o.eq('header-count::per-record', c, aff(c.value), const(1), 'removed-station count per matching SOLUTION/EPOCHS record', 'each removed solution takes its parameters once')
    # which block is counted: one record per *solution* (SOLUTION/EPOCHS; SITE/ID lists a station once however many solutions it has)
    loop = getattr(c, '_gen_loop', None)
    for lp in [x for x in walk_stmts(body) if isinstance(x, ast.For)]:
        if any(x is c for x in walk_stmts(lp.body)):
            loop = lp
    src = None
    if loop is not None and isinstance(loop.iter, ast.Name):
        for a_ in _assignments(f.node, loop.iter.id, before=loop.lineno):
            if isinstance(a_.value, ast.Call) and isinstance(a_.value.func, ast.Name):
                src = a_.value.func.id
    if src is None:
        o.unk('header-count::block', c, 'the block over which removed stations are counted was not identified')
    elif src == 'read_sinex_solution_epochs_block':
        o.ok('header-count::block', loop, 'removed parameters are counted per SOLUTION/EPOCHS record (one per station solution)')
    elif src == 'read_sinex_solution_estimate_block':
        o.unk('header-count::block', loop, 'removed parameters are counted over the estimate block (not the form checked here)')
    else:
        o.bad('header-count::block', loop, 'removed stations are counted over %s: SITE/ID lists a station once, whereas it has one set of parameters per solution (SOLUTION/EPOCHS): '
              'with a station that has two solutions the header count stays too high by 3 (6 with velocities)' % src,
              expected='read_sinex_solution_epochs_block', actual=src)
    osb = None
    # old count: header[60:65] possibly through a name
    if isinstance(old, ast.Name):
        for s in walk_stmts(body):
            if isinstance(s, ast.Assign) and isinstance(s.targets[0], ast.Name) and s.targets[0].id == old.id and s.lineno < target.lineno:
                osb = slice_bounds(s.value)
    else:
        osb = slice_bounds(old)
    if osb is None:
        o.unk('header-count::field', target, 'old parameter count is not a header slice')
    elif osb == (60, 65):
        o.ok('header-count::field', target, 'old parameter count read from header columns 61-65')
    else:
        o.bad('header-count::field', target, 'old parameter count read from header[%s:%s]; the SINEX header has it in columns 61-65' % osb, expected='[60:65]', actual='[%s:%s]' % osb)


def write_rule(o, f, body, fors, mname):
    """re-blocking of the kept values: row i, lines of up to 3 values, PARA2 = column of the first value of the line"""
    wl = None
    for lp in fors:
        r = range_args(lp.iter)
        if r and isinstance(lp.target, ast.Name) and any(isinstance(s, ast.While) for s in lp.body):
            wl = (lp, r)
    if wl is None:
        o.unk('write', None, 'the loop that writes the kept matrix was not recognised')
        return
    lp, (lo, hi) = wl
    i = lp.target.id
    o.eq('write::rows-from', lp, aff(lo), const(1), 'first output row written', 'output rows are numbered from 1')
    dn = None
    for x in ast.walk(lp.iter):
        if isinstance(x, ast.Call) and getattr(x.func, 'id', '') == 'len' and x.args and isinstance(x.args[0], ast.Name):
            dn = x.args[0].id
    if dn is not None:
        o.eq('write::rows-to', lp, aff(hi), add({'<len(%s)>' % dn: F(1)}, const(1)), 'output row range end (exclusive)', 'every kept row 1..M must be written')
    wh = [s for s in lp.body if isinstance(s, ast.While)][0]
    # column counter: the AugAssign at the head of the while body
    aug = None
    for s in wh.body:
        if isinstance(s, ast.AugAssign) and isinstance(s.op, ast.Add) and isinstance(s.target, ast.Name):
            aug = s
            break
    if aug is None:
        o.unk('write::step', wh, 'no `column += step` in the line loop')
        return
    jn = aug.target.id
    step = aff(aug.value)
    # values per line: min([K, len(...)])
    per = None
    for s in wh.body:
        if isinstance(s, ast.Assign) and isinstance(s.value, ast.Call) and getattr(s.value.func, 'id', '') == 'min':
            for c in ast.walk(s.value):
                if isinstance(c, ast.Constant) and isinstance(c.value, int):
                    per = (c.value, s)
    if per is None:
        o.unk('write::per-line', wh, 'values per line not of the form min([K, len(...)])')
    else:
        o.eq('write::per-line', per[1], const(per[0]), const(3), 'maximum number of values on a matrix line', 'a SOLUTION/MATRIX_ESTIMATE record holds at most three values')
        o.eq('write::step', aug, step, const(per[0]), 'advance of the column number per written line', 'PARA2 of each line must be the column of its first value')
    # initial values per layout
    inits = {}
    for s in lp.body:
        if isinstance(s, ast.If):
            cur = s
            while isinstance(cur, ast.If):
                if isinstance(cur.test, ast.Compare) and isinstance(cur.test.comparators[0], ast.Constant) and cur.test.comparators[0].value in ('lower', 'upper'):
                    for s2 in cur.body:
                        if isinstance(s2, ast.Assign) and isinstance(s2.targets[0], ast.Name) and s2.targets[0].id == jn:
                            inits[cur.test.comparators[0].value] = (aff(s2.value), s2)
                cur = cur.orelse[0] if len(cur.orelse) == 1 else None
    for tri in ('lower', 'upper'):
        if tri not in inits:
            o.unk('write::%s::first-column' % tri, lp, 'initial column number for the %s layout not found' % tri)
            continue
        first = const(1) if tri == 'lower' else var(i)
        o.eq('write::%s::first-column' % tri, inits[tri][1], add(inits[tri][0], step), first, 'PARA2 of the first line of output row %s (initial value + step)' % i,
             'a %s-triangular row r starts at column %s' % (tri, '1' if tri == 'lower' else 'r'))
    # advance happens before the column number is formatted
    fm = None
    for s in wh.body:
        if isinstance(s, ast.Assign) and isinstance(s.value, ast.Call) and isinstance(s.value.func, ast.Attribute) and s.value.func.attr == 'format' \
                and s.value.args and isinstance(s.value.args[0], ast.Name) and s.value.args[0].id == jn:
            fm = s
    if fm is not None:
        if aug.lineno < fm.lineno:
            o.ok('write::order', aug, 'the column number is advanced before it is formatted')
        else:
            o.bad('write::order', aug, 'the column number is formatted before it is advanced: every PARA2 is one line late')
    # FIFO: values leave the row list from the front
    pops = [c for c in ast.walk(wh) if isinstance(c, ast.Call) and isinstance(c.func, ast.Attribute) and c.func.attr == 'pop']
    for k, c in enumerate(pops):
        if len(c.args) == 1 and aff(c.args[0]) == {}:
            o.ok('write::fifo#%d' % k, c, 'values are taken from the front of the row list (original column order)')
        else:
            o.bad('write::fifo#%d' % k, c, 'values are taken with %s: the row is written in another order than it was stored' % stmt_text(c)[:60], expected='.pop(0)', actual=stmt_text(c)[:60])
    # row number written = i
    for s in lp.body:
        if isinstance(s, ast.Assign) and isinstance(s.value, ast.Call) and isinstance(s.value.func, ast.Attribute) and s.value.func.attr == 'format' and s.value.args:
            o.eq('write::row-number', s, aff(s.value.args[0]), var(i), 'PARA1 written for output row %s' % i, 'the row number of the record')


# ------------------------------------------------------------------------------------------------ remove_velocity_sinex
def velocity_rules(rep, m):
    f = m.functions.get('remove_velocity_sinex')
    if f is None:
        raise AnalysisError('anchor vanished: gnss.remove_velocity_sinex')
    o = Out(rep, 'R-INDEX', f)
    body = f.node.body
    # ---- header: parameter count halved, 'V' removed only from the solution-contents field
    for st_ in walk_stmts(body):
        if isinstance(st_, ast.Assign) and isinstance(st_.targets[0], ast.Name) and st_.targets[0].id == 'num_params':
            env = {}
            for a_ in _assignments(f.node, 'old_num_params', before=st_.lineno):
                env['old_num_params'] = aff(a_.value)
            got = aff(st_.value, env)
            keys = [k for k in got if k != '']
            if len(keys) == 1 and keys[0].startswith('<int(header['):
                o.eq('header-count::halved', st_, got, {keys[0]: F(1, 2)}, 'new parameter count as a function of the old one',
                     'a file with velocities has 6 parameters per station, 3 remain')
                if keys[0] != '<int(header[60:65])>':
                    o.bad('header-count::field', st_, 'old parameter count read from %s; the SINEX header has it in columns 61-65 (header[60:65])' % keys[0].strip('<>'),
                          expected='header[60:65]', actual=keys[0].strip('<>'))
                else:
                    o.ok('header-count::field', st_, 'old parameter count read from header columns 61-65')
            else:
                o.unk('header-count::halved', st_, 'new parameter count is not an affine function of int(header[a:b])')
    # ---- estimate loop: VEL records collected by their index field, others renumbered
    vel = None
    for s in walk_stmts(body):
        substring = isinstance(s, ast.If) and isinstance(s.test, ast.Compare) and len(s.test.ops) == 1 and isinstance(s.test.ops[0], ast.In) \
            and isinstance(s.test.left, ast.Constant) and s.test.left.value == 'VEL'
        if substring or (isinstance(s, ast.If) and isinstance(s.test, ast.Compare) and isinstance(s.test.comparators[0], ast.Constant) and s.test.comparators[0].value == 'VEL'):
            sb = slice_bounds(s.test.left) if not substring else None
            apps = append_calls(s.body)
            if apps:
                vel = (apps[0][0].id if isinstance(apps[0][0], ast.Name) else None, s)
                if substring:
                    o.bad('estimate::vel-test', s, 'velocity records are recognised by the substring test `%s`: VEL anywhere in the record counts - the position records of a station whose '
                          'code contains VEL (VELA, NVEL) are dropped as velocities while the header still announces them' % stmt_text(s.test)[:40],
                          expected='line[7:10] == "VEL" (parameter type field, columns 8-13)', actual=stmt_text(s.test)[:40])
                elif sb == (7, 10):
                    o.ok('estimate::vel-test', s, 'velocity records recognised by VEL in columns 8-10 (parameter type field 8-13)')
                else:
                    o.bad('estimate::vel-test', s, 'velocity records are recognised by line[%s:%s] == "VEL"; the parameter type starts in column 8 (line[7:10])' % (sb or ('?', '?')),
                          expected='[7:10]', actual=str(sb))
                a = apps[0][1]
                isb = slice_bounds(a.args[0]) if isinstance(a, ast.Call) and getattr(a.func, 'id', '') == 'int' and a.args else None
                if isb is None:
                    o.unk('estimate::vel-number', s, 'velocity parameter number is not int(line[a:b])')
                elif isb[0] in (0, 1) and isb[1] == 6:
                    o.ok('estimate::vel-number', s, 'velocity parameter numbers read from the index field of the record')
                else:
                    o.bad('estimate::vel-number', s, 'velocity parameter numbers read from line[%s:%s]; the index field is columns 2-6' % isb, expected='[0:6]', actual='[%s:%s]' % isb)
                renumber_rule(o, f, s.orelse, body)
    if vel is None or vel[0] is None:
        o.unk('estimate', None, 'the velocity-record branch was not recognised')
        return
    # ---- matrix fill: value k of a record -> Q[row-1, col-1+k] and its mirror
    fill_rule(o, f, body)
    # ---- deletion of the velocity rows/columns
    delete_rule(o, f, body, vel[0])
    # ---- matrix size
    for st_ in walk_stmts(body):
        if isinstance(st_, ast.Assign) and isinstance(st_.targets[0], ast.Name) and 'dim' in st_.targets[0].id and isinstance(st_.value, ast.BinOp):
            a = aff(st_.value)
            keys = [k for k in a if k != '']
            if len(keys) == 1:
                o.eq('matrix::size', st_, a, {keys[0]: F(6)}, 'size of the original matrix', 'a solution with velocities has six parameters')
    # ---- triangle writers
    triangle_write_rule(o, f, body)


def fill_rule(o, f, body):
    stores = []
    env = {}
    loop = None
    for lp in [s for s in walk_stmts(body) if isinstance(s, ast.For)]:
        ss = [s for s in walk_stmts(lp.body) if isinstance(s, ast.Assign) and isinstance(s.targets[0], ast.Subscript) and isinstance(s.targets[0].slice, ast.Tuple)
              and len(s.targets[0].slice.elts) == 2]
        if len(ss) >= 2:
            loop = lp
            stores = ss
            break
    if loop is None:
        o.unk('fill', None, 'the loop that fills the full matrix was not recognised')
        return
    # row / col names: assigned from int(fields[0]) / int(fields[1])
    fields = None
    roles = {}
    vals = {}
    for s in walk_stmts(loop.body):
        if isinstance(s, ast.Assign) and isinstance(s.targets[0], ast.Name) and isinstance(s.value, ast.Call) and getattr(s.value.func, 'id', '') in ('int', 'float') \
                and s.value.args and isinstance(s.value.args[0], ast.Subscript) and isinstance(s.value.args[0].value, ast.Name):
            k = aff(s.value.args[0].slice)
            if set(k) <= {''}:
                kk = int(k.get('', 0))
                fields = s.value.args[0].value.id
                if s.value.func.id == 'int':
                    roles[s.targets[0].id] = kk
                else:
                    vals[s.targets[0].id] = (kk, s)
    rown = [n for n, k in roles.items() if k == 0]
    coln = [n for n, k in roles.items() if k == 1]
    if len(roles) == 2 and sorted(roles.values()) != [0, 1]:
        o.bad('fill::roles', loop, 'the row and column numbers of a record are read from fields %s; PARA1 and PARA2 are fields 0 and 1' % sorted(roles.values()),
              expected='[0, 1]', actual=str(sorted(roles.values())))
        return
    if len(rown) != 1 or len(coln) != 1:
        o.unk('fill::roles', loop, 'row / column numbers are not int(fields[0]) / int(fields[1])')
        return
    o.ok('fill::roles', loop, 'row = field 0 (PARA1), column = field 1 (PARA2)')
    r, c = rown[0], coln[0]
    n_ok = 0
    per_val = {}
    for s in stores:
        if not isinstance(s.value, ast.Name) or s.value.id not in vals:
            continue
        k = vals[s.value.id][0] - 2      # k-th value of the record
        a, b = aff(s.targets[0].slice.elts[0]), aff(s.targets[0].slice.elts[1])
        per_val.setdefault(k, []).append((a, b, s))
    for k in sorted(per_val):
        want1 = (add(var(r), const(-1)), add(var(c), const(k - 1)))
        want2 = (want1[1], want1[0])
        got = [(a, b) for a, b, s in per_val[k]]
        node = per_val[k][0][2]
        sub_ = 'fill::value%d' % k
        if k < 0:
            o.bad(sub_, node, 'a row/column field is stored as a matrix value')
            continue
        if sorted(map(repr, got)) == sorted(map(repr, [want1, want2])):
            o.ok(sub_, node, 'value %d of a record goes to Q[%s, %s] and its mirror' % (k, show(want1[0]), show(want1[1])))
        elif want1 in got and want2 not in got and len(got) >= 2:
            g2 = [g for g in got if g != want1][0]
            o.bad(sub_, per_val[k][1][2], 'the mirror of value %d is stored at Q[%s, %s] instead of Q[%s, %s]: the full matrix is not symmetric, so the written triangle differs from the input'
                  % (k, show(g2[0]), show(g2[1]), show(want2[0]), show(want2[1])), expected='Q[%s, %s]' % (show(want2[0]), show(want2[1])), actual='Q[%s, %s]' % (show(g2[0]), show(g2[1])))
        elif want1 not in got:
            g = got[0]
            o.bad(sub_, node, 'value %d of a record (element (row, col+%d)) is stored at Q[%s, %s] instead of Q[%s, %s]' % (k, k, show(g[0]), show(g[1]), show(want1[0]), show(want1[1])),
                  expected='Q[%s, %s]' % (show(want1[0]), show(want1[1])), actual='Q[%s, %s]' % (show(g[0]), show(g[1])))
        else:
            o.bad(sub_, node, 'value %d is stored once: the mirror element is missing, the other triangle stays zero' % k)
        # guard: len(fields) >= k + 3
        guard = None
        for s in walk_stmts(loop.body):
            if isinstance(s, ast.If) and any(x is vals_node for x in s.body for vals_node in [vals[n][1] for n in vals if vals[n][0] == k + 2]):
                guard = s
        if guard is not None and isinstance(guard.test, ast.Compare) and len(guard.test.ops) == 1:
            lhs = norm_text(guard.test.left, None)
            rhs = aff(guard.test.comparators[0])
            op = guard.test.ops[0]
            need = k + 3
            thr = None
            wrong_op = False
            if lhs == 'len(%s)' % fields and set(rhs) <= {''}:
                v = int(rhs.get('', 0))
                thr = v if isinstance(op, ast.GtE) else (v + 1 if isinstance(op, ast.Gt) else None)
                wrong_op = isinstance(op, (ast.Lt, ast.LtE, ast.NotEq))
            if wrong_op:
                o.bad(sub_ + '::guard', guard, 'value %d is read under `%s`: it exists iff the record has at least %d fields' % (k, stmt_text(guard.test), need),
                      expected='len(fields) >= %d' % need, actual=stmt_text(guard.test))
            elif thr is None:
                o.unk(sub_ + '::guard', guard, 'guard of value %d not of the form len(fields) >= n' % k)
            elif thr == need:
                o.ok(sub_ + '::guard', guard, 'value %d is read iff the record has at least %d fields' % (k, need))
            else:
                o.bad(sub_ + '::guard', guard, 'value %d (field %d) is read when the record has at least %d fields; it exists iff there are at least %d' % (k, k + 2, thr, need),
                      expected='>= %d' % need, actual='>= %d' % thr)
    if len(per_val) < 3:
        o.unk('fill::values', loop, 'fewer than three values per record are stored (a record holds up to three)')


def delete_rule(o, f, body, vel):
    loops = [s for s in walk_stmts(body) if isinstance(s, ast.For) and isinstance(s.iter, ast.Name) and s.iter.id == vel and isinstance(s.target, ast.Name)]
    if not loops:
        o.unk('delete', None, 'no loop over the velocity parameter numbers')
        return
    lp = loops[0]
    i = lp.target.id
    dels = []
    cnt = None
    for s in lp.body:
        if isinstance(s, ast.Assign) and isinstance(s.value, ast.Call) and (getattr(s.value.func, 'id', '') == 'delete' or getattr(s.value.func, 'attr', '') == 'delete') \
                and len(s.value.args) >= 3:
            dels.append((aff(s.value.args[1]), aff(s.value.args[2]), s))
        if isinstance(s, ast.AugAssign) and isinstance(s.op, ast.Add) and isinstance(s.target, ast.Name):
            cnt = s
    if cnt is None or len(dels) < 1:
        o.unk('delete', lp, 'deletion loop not recognised')
        return
    axes = sorted(int(d[1].get('', 0)) for d in dels)
    if axes == [0, 1]:
        o.ok('delete::axes', lp, 'each velocity parameter is removed as a row (axis 0) and as a column (axis 1)')
    else:
        o.bad('delete::axes', lp, 'velocity parameters are deleted along axes %s; both the row (0) and the column (1) have to go' % axes, expected='[0, 1]', actual=str(axes))
    want = sub(add(var(i), const(-1)), var(cnt.target.id))
    for k, (ix, ax, s) in enumerate(dels):
        o.eq('delete::index#%d' % k, s, ix, want, 'index deleted for parameter number %s after %s earlier deletions' % (i, cnt.target.id),
             'parameter p is at 0-based position p - 1 minus the number of (smaller) parameters already deleted')
    o.eq('delete::count', cnt, aff(cnt.value), const(1), 'increment of the deleted-count per velocity parameter', 'one row/column disappears per deleted parameter')
    if any(s.lineno > cnt.lineno for _, _, s in dels):
        o.bad('delete::order', cnt, 'the deleted-count is advanced between the row and the column deletion of the same parameter')
    init = None
    for s in walk_stmts(body):
        if isinstance(s, ast.Assign) and isinstance(s.targets[0], ast.Name) and s.targets[0].id == cnt.target.id and s.lineno < lp.lineno:
            init = s
    if init is not None:
        o.eq('delete::count-init', init, aff(init.value), const(0), 'initial deleted-count', 'nothing is deleted before the first velocity parameter')


def triangle_write_rule(o, f, body):
    """cells written: lower {(i, j): 0 <= j <= i < N}, upper {(i, j): 0 <= i <= j < N}; every cell write is guarded by the loop condition; numbers are 1-based"""
    for tri in ('lower', 'upper'):
        br = None
        for s in walk_stmts(body):
            if isinstance(s, ast.If) and isinstance(s.test, ast.Compare) and isinstance(s.test.comparators[0], ast.Constant) and s.test.comparators[0].value == tri \
                    and any(isinstance(x, ast.While) for x in walk_stmts(s.body)):
                br = s
        if br is None:
            o.unk('triangle::%s' % tri, None, 'no writer for the %s layout' % tri)
            continue
        whiles = [x for x in walk_stmts(br.body) if isinstance(x, ast.While)]
        inner = [w for w in whiles if not any(isinstance(x, ast.While) for x in walk_stmts(w.body))]
        if len(inner) != 1:
            o.unk('triangle::%s' % tri, br, 'column loop not recognised')
            continue
        w = inner[0]
        # cell expression Q[i, j] in f-strings
        cells = []
        for x in ast.walk(w):
            if isinstance(x, ast.Subscript) and isinstance(x.slice, ast.Tuple) and len(x.slice.elts) == 2 and all(isinstance(e, ast.Name) for e in x.slice.elts):
                cells.append(x)
        if not cells:
            o.unk('triangle::%s' % tri, w, 'no cell reads in the column loop')
            continue
        qn = cells[0].value.id if isinstance(cells[0].value, ast.Name) else None
        i, j = cells[0].slice.elts[0].id, cells[0].slice.elts[1].id
        if any((c.slice.elts[0].id, c.slice.elts[1].id) != (i, j) for c in cells):
            o.bad('triangle::%s::cell' % tri, w, 'cells are read with different index orders in one row loop: %s' % sorted(set(stmt_text(c) for c in cells)))
            continue
        # loop condition
        cond = w.test
        N = {'<len(%s)>' % qn: F(1)}
        ok_cond = False
        if isinstance(cond, ast.Compare) and len(cond.ops) == 1 and aff(cond.left) == var(j):
            rhs = aff(cond.comparators[0])
            if tri == 'lower':
                bound = rhs if isinstance(cond.ops[0], ast.LtE) else (add(rhs, const(-1)) if isinstance(cond.ops[0], ast.Lt) else None)
                if bound is not None:
                    ok_cond = True
                    o.eq('triangle::lower::last-column', w, bound, var(i), 'last column written in row %s (0-based)' % i, 'the lower triangle of row r ends on the diagonal')
            else:
                bound = add(rhs, const(-1)) if isinstance(cond.ops[0], ast.Lt) else (rhs if isinstance(cond.ops[0], ast.LtE) else None)
                if bound is not None:
                    ok_cond = True
                    o.eq('triangle::upper::last-column', w, bound, add(N, const(-1)), 'last column written in row %s (0-based)' % i, 'the upper triangle of a row ends at the last parameter')
        if not ok_cond:
            o.unk('triangle::%s::last-column' % tri, w, 'loop condition not of the form %s <= bound' % j)
        # initial column: last assignment to j before the while, inside the row loop (or before it for the first row)
        init = None
        parent_body = None
        for x in walk_stmts(br.body):
            for fld in ('body', 'orelse'):
                lst = getattr(x, fld, None)
                if isinstance(lst, list) and w in lst:
                    parent_body = (x, lst)
        if parent_body is None and w in br.body:
            parent_body = (br, br.body)
        resets = []
        if parent_body is not None:
            for s in parent_body[1]:
                if isinstance(s, ast.Assign) and isinstance(s.targets[0], ast.Name) and s.targets[0].id == j:
                    resets.append(s)
            first = const(0) if tri == 'lower' else var(i)
            before = [s for s in resets if s.lineno < w.lineno]
            after = [s for s in resets if s.lineno > w.lineno]
            if before:
                o.eq('triangle::%s::first-column' % tri, before[-1], aff(before[-1].value), first, 'first column written in row %s (0-based)' % i,
                     'a %s-triangular row r starts at column %s' % (tri, '1' if tri == 'lower' else 'r'))
            elif after:
                # reset at the end of the row body: also needs the value before the first row
                o.eq('triangle::%s::first-column' % tri, after[-1], aff(after[-1].value), first, 'column to which the counter is reset for the next row',
                     'a %s-triangular row r starts at column %s' % (tri, '1' if tri == 'lower' else 'r'))
                pre = [s for s in br.body if isinstance(s, ast.Assign) and isinstance(s.targets[0], ast.Name) and s.targets[0].id == j]
                if pre:
                    o.eq('triangle::%s::first-column-row0' % tri, pre[0], aff(pre[0].value), const(0), 'first column of the first row', 'row 1 starts at column 1')
            else:
                o.unk('triangle::%s::first-column' % tri, w, 'no initialisation of the column counter found')
        # the row loop: rows 0 .. N-1, one at a time
        rowloop = parent_body[0] if parent_body is not None and isinstance(parent_body[0], (ast.For, ast.While)) else None
        if isinstance(rowloop, ast.For):
            rr = range_args(rowloop.iter)
            if rr is not None and isinstance(rowloop.target, ast.Name) and rowloop.target.id == i:
                o.eq('triangle::%s::rows-from' % tri, rowloop, aff(rr[0]), const(0), 'first row written (0-based)', 'the matrix starts at row 0')
                o.eq('triangle::%s::rows-to' % tri, rowloop, aff(rr[1]), N, 'row range end (exclusive)', 'every row of the reduced matrix is written')
            else:
                o.unk('triangle::%s::rows' % tri, rowloop, 'row loop is not `for %s in range(...)`' % i)
        elif isinstance(rowloop, ast.While):
            t = rowloop.test
            if isinstance(t, ast.Compare) and len(t.ops) == 1 and aff(t.left) == var(i) and isinstance(t.ops[0], (ast.Lt, ast.LtE)):
                bnd = aff(t.comparators[0]) if isinstance(t.ops[0], ast.Lt) else add(aff(t.comparators[0]), const(1))
                o.eq('triangle::%s::rows-to' % tri, rowloop, bnd, N, 'row range end (exclusive)', 'every row of the reduced matrix is written')
            else:
                o.bad('triangle::%s::rows-to' % tri, rowloop, 'the row loop runs while `%s`; rows 0 .. len(%s) - 1 have to be written' % (stmt_text(t), qn),
                      expected='%s < len(%s)' % (i, qn), actual=stmt_text(t))
            steps_i = [x for x in rowloop.body if isinstance(x, ast.AugAssign) and isinstance(x.target, ast.Name) and x.target.id == i]
            if len(steps_i) == 1 and isinstance(steps_i[0].op, ast.Add):
                o.eq('triangle::%s::row-step' % tri, steps_i[0], aff(steps_i[0].value), const(1), 'row advance per iteration', 'no row may be skipped')
            else:
                o.unk('triangle::%s::row-step' % tri, rowloop, 'row counter advance not recognised')
            pre_i = [x for x in br.body if isinstance(x, ast.Assign) and isinstance(x.targets[0], ast.Name) and x.targets[0].id == i and x.lineno < rowloop.lineno]
            if pre_i:
                o.eq('triangle::%s::rows-from' % tri, pre_i[-1], aff(pre_i[-1].value), const(0), 'first row written (0-based)', 'the matrix starts at row 0')
            else:
                o.unk('triangle::%s::rows-from' % tri, rowloop, 'no initial value of the row counter')
        # typestate inside the line loop: every cell read is guarded (state G), `j += 1` leaves the guard (state U), `if <loop condition>` restores it
        cond_txt = norm_text(cond, None)
        events = []

        def scan(stmts, state):
            for s in stmts:
                if isinstance(s, ast.AugAssign) and isinstance(s.target, ast.Name) and s.target.id == j:
                    if aff(s.value) != const(1):
                        events.append(('step', s, show(aff(s.value))))
                    state = 'U'
                elif isinstance(s, ast.If):
                    g = norm_text(s.test, None) == cond_txt
                    st_in = 'G' if g else state
                    for x in ast.walk(s.test):
                        if x in cells and state != 'G':
                            events.append(('unguarded', s, ''))
                    s1 = scan(s.body, st_in)
                    s2 = scan(s.orelse, state)
                    state = 'U' if 'U' in (s1, s2) else 'G'
                else:
                    for x in ast.walk(s):
                        if x in cells:
                            events.append(('read-' + state, s, ''))
            return state
        scan(w.body, 'G')
        reads = [e for e in events if e[0].startswith('read-')]
        badr = [e for e in reads if e[0] == 'read-U']
        steps = [e for e in events if e[0] == 'step']
        if badr:
            o.bad('triangle::%s::guard' % tri, badr[0][1], 'a cell is written after the column counter was advanced without re-testing `%s`: the write leaves the triangle (or the array)' % stmt_text(cond),
                  expected='if %s: before the write' % stmt_text(cond), actual=stmt_text(badr[0][1])[:100])
        elif reads:
            o.ok('triangle::%s::guard' % tri, w, '%d cell writes per line, each under the loop condition `%s`' % (len(reads), stmt_text(cond)))
        if steps:
            o.bad('triangle::%s::step' % tri, steps[0][1], 'the column counter advances by %s per written value' % steps[0][2], expected='1', actual=steps[0][2])
        elif reads:
            o.ok('triangle::%s::step' % tri, w, 'the column counter advances by one per written value')
        if reads and len(reads) != 3:
            o.bad('triangle::%s::per-line' % tri, w, '%d values per record are written; a SOLUTION/MATRIX_ESTIMATE record holds up to three' % len(reads), expected='3', actual=str(len(reads)))
        elif reads:
            o.ok('triangle::%s::per-line' % tri, w, 'up to three values per record')
        # printed numbers: i+1 and j+1 in the record head
        heads = []
        for x in ast.walk(w):
            if isinstance(x, ast.JoinedStr):
                fv = [v for v in x.values if isinstance(v, ast.FormattedValue)]
                if len(fv) >= 3:
                    heads.append((fv, x))
        for fv, x in heads:
            o.eq('triangle::%s::para1' % tri, x, aff(fv[0].value), add(var(i), const(1)), 'PARA1 printed for 0-based row %s' % i, 'parameter numbers are 1-based')
            o.eq('triangle::%s::para2' % tri, x, aff(fv[1].value), add(var(j), const(1)), 'PARA2 printed for 0-based column %s' % j, 'parameter numbers are 1-based')


# ------------------------------------------------------------------------------------------------ remove_matrixzeros_sinex
def zero_rules(rep, m):
    f = m.functions.get('remove_matrixzeros_sinex')
    if f is None:
        raise AnalysisError('anchor vanished: gnss.remove_matrixzeros_sinex')
    o = Out(rep, 'R-INDEX', f)
    body = f.node.body
    # a zero test by spelling must know every spelling the module itself writes: the editors' own matrix formats are cross-checked
    import re as _re
    lits = set()
    for n_ in ast.walk(f.node):
        if isinstance(n_, ast.Compare) and len(n_.ops) == 1 and isinstance(n_.ops[0], ast.Eq):
            for c_ in [n_.left] + n_.comparators:
                if isinstance(c_, ast.Constant) and isinstance(c_.value, str) and _re.match(r'^-?0\.0+[eE][+-]0+$', c_.value):
                    lits.add(c_.value)
    if lits:
        writers = []
        for en in ('remove_stns_sinex', 'remove_velocity_sinex'):
            g = m.functions.get(en)
            if g is None:
                continue
            for n_ in ast.walk(g.node):
                specs = []
                if isinstance(n_, ast.Constant) and isinstance(n_.value, str):
                    specs = _re.findall(r'\{[^{}]*:>?\d*\.\d+([eE])\}', n_.value)
                if isinstance(n_, ast.FormattedValue) and n_.format_spec is not None:
                    sp_ = ''.join(str(c_.value) for c_ in n_.format_spec.values if isinstance(c_, ast.Constant))
                    specs = _re.findall(r'\d*\.\d+([eE])$', sp_)
                for letter in specs:
                    writers.append((en, letter, n_))
        lit_letters = set('e' if 'e' in l_ else 'E' for l_ in lits)
        strangers = [(en, letter, n_) for en, letter, n_ in writers if letter not in lit_letters]
        if strangers:
            en, letter, n_ = strangers[0]
            o.bad('zero-line::spelling', n_, 'all-zero lines are recognised by the spelling %s only, but %s writes the matrix with a %s-case exponent (0.00000000000000%s+00): '
                  'the zero lines of a file it produced - and of any SINEX written with that spelling - are never removed' % (sorted(lits)[0], en, 'upper' if letter == 'E' else 'lower', letter),
                  expected='a numeric test (float(v) == 0) or both spellings', actual='== "%s"' % sorted(lits)[0])
        else:
            o.ok('zero-line::spelling', None, 'the zero spelling tested is the one every editor of the module writes')
    # local string constants
    consts = {}
    for s in walk_stmts(body):
        if isinstance(s, ast.Assign) and isinstance(s.targets[0], ast.Name) and isinstance(s.value, ast.Constant) and isinstance(s.value.value, str):
            consts[s.targets[0].id] = s.value.value
    n = 0
    for s in walk_stmts(body):
        if not (isinstance(s, ast.If) and isinstance(s.test, ast.Compare) and len(s.test.ops) == 1 and isinstance(s.test.ops[0], ast.Eq)
                and isinstance(s.test.comparators[0], ast.Constant) and isinstance(s.test.comparators[0].value, int)):
            continue
        nf = s.test.comparators[0].value
        inner = [x for x in s.body if isinstance(x, ast.If) and any(isinstance(y, ast.Continue) for y in x.body)]
        if len(inner) != 1:
            continue
        t = inner[0].test
        conj = t.values if isinstance(t, ast.BoolOp) and isinstance(t.op, ast.And) else [t]
        if isinstance(t, ast.BoolOp) and not isinstance(t.op, ast.And):
            o.bad('zero-line::%d-fields' % nf, inner[0], 'a %d-field record is dropped when ANY of its values is zero (`or`): non-zero covariances are lost' % nf)
            n += 1
            continue
        idx = []
        okc = True
        for c in conj:
            if isinstance(c, ast.Compare) and len(c.ops) == 1 and isinstance(c.ops[0], ast.Eq) and isinstance(c.left, ast.Subscript):
                k = aff(c.left.slice)
                rhs = c.comparators[0]
                lit = rhs.value if isinstance(rhs, ast.Constant) else consts.get(getattr(rhs, 'id', None))
                if not set(k) <= {''} or not isinstance(lit, str):
                    okc = False
                    continue
                try:
                    z = float(lit) == 0.0
                except ValueError:
                    z = False
                if not z:
                    o.bad('zero-line::%d-fields::literal' % nf, inner[0], 'a record is dropped when a value equals %r, which is not zero' % lit)
                idx.append(int(k.get('', 0)))
            else:
                okc = False
        n += 1
        if not okc:
            o.unk('zero-line::%d-fields' % nf, inner[0], 'zero test not a conjunction of field == "0.0..." comparisons')
            continue
        want = list(range(2, nf))
        if sorted(set(idx)) == want:
            o.ok('zero-line::%d-fields' % nf, inner[0], 'a %d-field record is dropped iff every value field %s is zero' % (nf, want))
        else:
            missing = [k for k in want if k not in idx]
            extra = [k for k in idx if k not in want]
            o.bad('zero-line::%d-fields' % nf, inner[0], 'a %d-field record is dropped when fields %s are zero; its value fields are %s%s%s: a line holding a non-zero value is removed' % (
                nf, sorted(idx), want, (', field %s is never looked at' % missing) if missing else '', (', field %s is not a value' % extra) if extra else ''),
                expected=str(want), actual=str(sorted(idx)))
    if n < 3:
        # the other form: one test for every width - `all(<value is zero> for v in fields[2:])`
        generic = None
        for s in walk_stmts(body):
            if isinstance(s, ast.If) and any(isinstance(y, ast.Continue) for y in s.body):
                for c in ast.walk(s.test):
                    if isinstance(c, ast.Call) and getattr(c.func, 'id', '') in ('all', 'any') and c.args and isinstance(c.args[0], (ast.GeneratorExp, ast.ListComp)):
                        generic = (s, c)
        if generic is not None:
            s, c = generic
            gen = c.args[0]
            it = gen.generators[0].iter
            tol = [x for x in ast.walk(gen.elt) if (isinstance(x, ast.Call) and (getattr(x.func, 'attr', '') or getattr(x.func, 'id', '')) in ('isclose', 'allclose', 'round', 'around'))
                   or (isinstance(x, ast.Compare) and len(x.ops) == 1 and isinstance(x.ops[0], (ast.Lt, ast.LtE)) and any(
                       isinstance(y, ast.Call) and getattr(y.func, 'id', '') == 'abs' for y in ast.walk(x.left)))]
            lo = aff(it.slice.lower) if isinstance(it, ast.Subscript) and isinstance(it.slice, ast.Slice) and it.slice.lower is not None else None
            if c.func.id == 'any':
                o.bad('zero-line', s, 'a record is dropped when ANY of its values is zero: non-zero covariances are lost')
            elif tol:
                o.bad('zero-line', s, 'a record is dropped when its values are zero WITHIN A TOLERANCE (`%s`): a line holding small non-zero covariances (1e-9 and below) is removed, '
                      'the property keeps every line that is not all-zero' % stmt_text(tol[0])[:50], expected='an exact comparison with zero', actual=stmt_text(gen.elt)[:80])
            elif lo is None or set(lo) - {''} or lo.get('', 0) != 2 or it.slice.upper is not None:
                o.bad('zero-line', s, 'the zero test looks at `%s`; the value fields of a matrix record are fields 2.. (after the two indices)' % stmt_text(it)[:40],
                      expected='fields[2:]', actual=stmt_text(it)[:40])
            else:
                exact = [x for x in ast.walk(gen.elt) if isinstance(x, ast.Compare) and len(x.ops) == 1 and isinstance(x.ops[0], ast.Eq)]
                if exact:
                    o.ok('zero-line', s, 'a record is dropped iff every value field (2..) compares equal to zero')
                    # the shape guard around the test: a matrix record is two indices and ONE to THREE values - 3, 4 or 5 fields.  The widths the
                    # guard admits are enumerated (the comparisons on the field count are evaluated for 0..9 fields, other conjuncts taken as true)
                    wvars = set()
                    for a_ in walk_stmts(body):
                        if isinstance(a_, ast.Assign) and len(a_.targets) == 1 and isinstance(a_.targets[0], ast.Name) and isinstance(a_.value, ast.Call) \
                                and getattr(a_.value.func, 'id', '') == 'len':
                            wvars.add(a_.targets[0].id)
                    guards = []
                    for g_ in walk_stmts(body):
                        if isinstance(g_, ast.If) and (g_ is s or any(x is s for x in ast.walk(g_))):
                            if any(x is s for b_ in g_.body for x in ast.walk(b_)) or g_ is s:
                                guards.append(g_.test)

                    def admits(t, nfield):
                        if isinstance(t, ast.BoolOp):
                            vals = [admits(v_, nfield) for v_ in t.values]
                            if isinstance(t.op, ast.And):
                                return False if any(v_ is False for v_ in vals) else (None if any(v_ is None for v_ in vals) else True)
                            return True if any(v_ is True for v_ in vals) else (None if any(v_ is None for v_ in vals) else False)
                        if isinstance(t, ast.Compare):
                            opers = [t.left] + list(t.comparators)
                            vs = []
                            for x_ in opers:
                                if isinstance(x_, ast.Constant) and isinstance(x_.value, int) and not isinstance(x_.value, bool):
                                    vs.append(x_.value)
                                elif isinstance(x_, ast.Name) and x_.id in wvars:
                                    vs.append(nfield)
                                elif isinstance(x_, ast.Call) and getattr(x_.func, 'id', '') == 'len' and x_.args and isinstance(x_.args[0], ast.Name):
                                    vs.append(nfield)
                                else:
                                    return None
                            if not any(isinstance(x_, (ast.Name, ast.Call)) for x_ in opers):
                                return None
                            import operator as _op
                            tab = {ast.Lt: _op.lt, ast.LtE: _op.le, ast.Gt: _op.gt, ast.GtE: _op.ge, ast.Eq: _op.eq, ast.NotEq: _op.ne}
                            for k_, op_ in enumerate(t.ops):
                                if type(op_) in tab:
                                    if not tab[type(op_)](vs[k_], vs[k_ + 1]):
                                        return False
                                elif isinstance(op_, (ast.In, ast.NotIn)):
                                    return None
                                else:
                                    return None
                            return True
                        return None
                    counted = any(admits(t_, 0) is not None or admits(t_, 4) is not None for t_ in guards)
                    widths = [k_ for k_ in range(0, 10) if all(admits(t_, k_) is not False for t_ in guards)]
                    if not counted:
                        o.unk('zero-line::widths', s, 'no test of the number of fields around the zero test')
                    elif widths == [3, 4, 5]:
                        o.ok('zero-line::widths', s, 'the zero test is applied to records of 3, 4 and 5 fields: two indices and one to three values')
                    else:
                        miss = sorted(set([3, 4, 5]) - set(widths))
                        extra = sorted(set(widths) - set([3, 4, 5]))
                        o.bad('zero-line::widths', s, 'the zero test is applied to records of %s fields; a matrix record has two indices and one to three values (3, 4, 5 fields)%s%s' % (
                            widths, ': an all-zero record of %s fields (e.g. "     3     6  0.00000000000000e+00", the short last line of a row) is kept' % miss if miss else '',
                            ': lines of %s fields, which are not matrix records, are examined' % extra if extra else ''), expected='[3, 4, 5]', actual=str(widths))
                else:
                    o.unk('zero-line', s, 'zero test of the value fields not recognised: %s' % stmt_text(gen.elt)[:60])
        else:
            o.unk('zero-line', None, 'fewer than three record widths (3, 4, 5 fields) are tested')


# ------------------------------------------------------------------------------------------------ read_sinex_matrix fill and strides
def reader_fill_rules(rep, m):
    f = m.functions.get('read_sinex_matrix')
    if f is None:
        raise AnalysisError('anchor vanished: gnss.read_sinex_matrix')
    o = Out(rep, 'R-INDEX', f)
    body = f.node.body
    found = False
    for lp in [s for s in walk_stmts(body) if isinstance(s, ast.For)]:
        r = range_args(lp.iter)
        if r is None or not isinstance(lp.target, ast.Name):
            continue
        for s in lp.body:
            if isinstance(s, ast.Assign) and isinstance(s.targets[0], ast.Subscript) and isinstance(s.targets[0].value, ast.Subscript) \
                    and isinstance(s.value, ast.Call) and getattr(s.value.func, 'id', '') == 'float' and s.value.args and isinstance(s.value.args[0], ast.Subscript):
                src = s.value.args[0]
                fields = src.value.id if isinstance(src.value, ast.Name) else None
                k = aff(src.slice)          # field index of the value, normally the loop variable
                rowi = aff(s.targets[0].value.slice)
                coli = aff(s.targets[0].slice)
                found = True
                i = lp.target.id
                o.eq('fill::first-value', lp, aff(r[0]), const(2), 'first field taken as a value', 'fields 0 and 1 are PARA1 and PARA2')
                o.eq('fill::value-field', s, k, var(i), 'field stored for loop index %s' % i, 'the value stored must be the field the indices were computed for')
                R = {'<int(%s[0])>' % fields: F(1)}
                Cc = {'<int(%s[1])>' % fields: F(1)}
                o.eq('fill::row', s, rowi, add(R, const(-1)), '0-based row index', 'PARA1 is the 1-based row')
                o.eq('fill::column', s, coli, add(add(Cc, var(i)), const(-3)), '0-based column index of field %s' % i,
                     'field k holds element (PARA1, PARA2 + k - 2), i.e. 0-based column PARA2 + k - 3')
    if not found:
        o.unk('fill', None, 'the loop that stores matrix values was not recognised')
    # matrix size and block strides
    for s in walk_stmts(body):
        if isinstance(s, ast.If) and isinstance(s.test, ast.Name) and s.test.id == 'velocities':
            a1 = [x for x in s.body if isinstance(x, ast.Assign) and isinstance(x.targets[0], ast.Name) and x.targets[0].id == 'n']
            a2 = [x for x in s.orelse if isinstance(x, ast.Assign) and isinstance(x.targets[0], ast.Name) and x.targets[0].id == 'n']
            if a1 and a2:
                def coeff(e):
                    a = aff(e)
                    cs = [v for k, v in a.items() if k != '']
                    return cs[0] if len(cs) == 1 and '' not in a else None
                c1, c2 = coeff(a1[0].value), coeff(a2[0].value)
                if c1 is not None and c2 is not None:
                    o.eq('size::velocities', a1[0], const(c1), const(6), 'parameters per solution with velocities', 'X Y Z VX VY VZ')
                    o.eq('size::positions', a2[0], const(c2), const(3), 'parameters per solution without velocities', 'X Y Z')


def run(rep, m):
    stns_rules(rep, m)
    velocity_rules(rep, m)
    zero_rules(rep, m)
    reader_fill_rules(rep, m)
    rep.floor('R-INDEX', 60, 'index rules of the three editors and the matrix reader')


# ================================================================================================ string widths and splices
def _assignments(fnode, name, before=None):
    out = []
    for s in walk_stmts(fnode.body):
        if isinstance(s, ast.Assign) and len(s.targets) == 1 and isinstance(s.targets[0], ast.Name) and s.targets[0].id == name:
            if before is None or s.lineno < before:
                out.append(s)
    return out


STRFTIME_WIDTH = {'Y': 4, 'G': 4, 'y': 2, 'g': 2, 'j': 3, 'm': 2, 'd': 2, 'H': 2, 'I': 2, 'M': 2, 'S': 2, 'U': 2, 'W': 2, 'V': 2, 'f': 6, 'u': 1, 'w': 1, '%': 1}


def strftime_width(spec):
    """width of strftime(spec) when every directive is zero-filled to a fixed width (four-digit year assumed), else None"""
    total = 0
    i = 0
    while i < len(spec):
        if spec[i] == '%':
            if i + 1 >= len(spec) or spec[i + 1] not in STRFTIME_WIDTH:
                return None
            total += STRFTIME_WIDTH[spec[i + 1]]
            i += 2
        else:
            total += 1
            i += 1
    return total


def width(e, f, m, at=None, depth=0):
    """number of characters of a string expression when it is fixed by the syntax, else None.
    Assumptions (recorded by the caller): a four-digit year; numbers fit the width of their zero-filled / blank-filled format."""
    if depth > 24:
        return None
    if isinstance(e, ast.Constant) and isinstance(e.value, str):
        return len(e.value)
    if isinstance(e, ast.BinOp) and isinstance(e.op, ast.Add):
        a, b = width(e.left, f, m, at, depth + 1), width(e.right, f, m, at, depth + 1)
        return a + b if a is not None and b is not None else None
    if isinstance(e, ast.Call) and isinstance(e.func, ast.Attribute) and e.func.attr == 'format' and isinstance(e.func.value, ast.Constant) \
            and isinstance(e.func.value.value, str):
        import re
        tpl = e.func.value.value
        total = 0
        pos = 0
        for mm in re.finditer(r'\{[^{}:]*(?::([^{}]*))?\}', tpl):
            total += mm.start() - pos
            pos = mm.end()
            spec = mm.group(1) or ''
            w = re.match(r'^[<>^=]?[+\- ]?0?(\d+)', spec)
            if not w:
                return None
            total += int(w.group(1))
        return total + len(tpl) - pos
    if isinstance(e, ast.JoinedStr):
        import re
        total = 0
        for v in e.values:
            if isinstance(v, ast.Constant):
                total += len(v.value)
            else:
                spec = ''.join(str(c.value) for c in v.format_spec.values if isinstance(c, ast.Constant)) if v.format_spec is not None else ''
                w = re.match(r'^[<>^=]?[+\- ]?0?(\d+)', spec)
                if not w:
                    # `{year}` without a specification inserts the text as it is: its own width, when that is fixed
                    wv = width(v.value, f, m, at, depth + 1) if not spec and v.conversion == -1 else None
                    if wv is None:
                        return None
                    total += wv
                    continue
                total += int(w.group(1))
        return total
    if isinstance(e, ast.Subscript) and isinstance(e.slice, ast.Slice) and e.slice.step is None:
        lo = e.slice.lower.value if isinstance(e.slice.lower, ast.Constant) else (0 if e.slice.lower is None else None)
        hi = e.slice.upper.value if isinstance(e.slice.upper, ast.Constant) else None
        if lo is None or not isinstance(lo, int) or lo < 0:
            return None
        if isinstance(hi, int) and hi >= lo and e.slice.upper is not None:
            return hi - lo
        if e.slice.upper is None:
            w = width(e.value, f, m, at, depth + 1)
            return w - lo if w is not None and w >= lo else None
        return None
    if isinstance(e, ast.Call) and isinstance(e.func, ast.Name) and e.func.id == 'str' and len(e.args) == 1:
        if stmt_text(e.args[0]).endswith('tm_year') or stmt_text(e.args[0]).endswith('.year'):
            return 4
        return width(e.args[0], f, m, at, depth + 1) if isinstance(e.args[0], (ast.Constant, ast.JoinedStr)) else None
    if isinstance(e, ast.Name):
        asg = _assignments(f.node, e.id, before=at)
        if not asg:
            return None
        return width(asg[-1].value, f, m, asg[-1].lineno, depth + 1)
    if isinstance(e, ast.Call) and isinstance(e.func, ast.Attribute) and e.func.attr == 'strftime' and len(e.args) == 1 and isinstance(e.args[0], ast.Constant) \
            and isinstance(e.args[0].value, str):
        return strftime_width(e.args[0].value)
    if isinstance(e, ast.Call) and isinstance(e.func, ast.Name) and e.func.id in m.functions:
        g = m.functions[e.func.id]
        rets = [n for n in ast.walk(g.node) if isinstance(n, ast.Return) and n.value is not None]
        if len(rets) == 1:
            return width(rets[0].value, g, m, rets[0].lineno, depth + 1)
    return None


HEADER_FIELDS = {(15, 27): 'creation time YY:DDD:SSSSS (columns 16-27)', (60, 65): 'number of estimates (columns 61-65)'}


def splice_rules(rep, m):
    """X[:a] + E + X[b:] replaces columns a..b-1 by position: width(E) must be b - a, and for the header line (a, b) must be a SINEX header field;
    P + X[b:] replaces the first b columns: width(P) must be b"""
    n = 0
    for name in ('remove_stns_sinex', 'remove_velocity_sinex', 'remove_matrixzeros_sinex'):
        f = m.functions[name]
        o = Out(rep, 'R-SPLICE', f)
        seen = {}
        for s in walk_stmts(f.node.body):
            if not (isinstance(s, ast.Assign) and isinstance(s.targets[0], ast.Name)):
                continue
            v = s.value
            # flatten the + chain
            parts = []

            def flat(x):
                if isinstance(x, ast.BinOp) and isinstance(x.op, ast.Add):
                    flat(x.left)
                    flat(x.right)
                else:
                    parts.append(x)
            flat(v)
            if len(parts) < 2:
                continue
            tgt = s.targets[0].id

            def sl(x):
                if isinstance(x, ast.Subscript) and isinstance(x.value, ast.Name) and isinstance(x.slice, ast.Slice):
                    lo = x.slice.lower.value if isinstance(x.slice.lower, ast.Constant) else (None if x.slice.lower is None else '?')
                    hi = x.slice.upper.value if isinstance(x.slice.upper, ast.Constant) else (None if x.slice.upper is None else '?')
                    return x.value.id, lo, hi
                return None
            first, last = sl(parts[0]), sl(parts[-1])
            tail = last
            if tail is None and isinstance(parts[-1], ast.Call) and isinstance(parts[-1].func, ast.Attribute):
                tail = sl(parts[-1].func.value)       # X[b:].replace(...)
            if tail is None or tail[0] != tgt or tail[2] is not None or not isinstance(tail[1], int):
                continue
            b = tail[1]
            mid = parts[1:-1] if first is not None and first[0] == tgt and first[1] is None else parts[:-1]
            a = first[2] if first is not None and first[0] == tgt and first[1] is None else 0
            if not isinstance(a, int):
                continue
            seen[(a, b)] = seen.get((a, b), 0) + 1
            sub_ = '%s[%d:%d]#%d' % (tgt, a, b, seen[(a, b)])
            n += 1
            wsum = 0
            for p in mid:
                w = width(p, f, m, s.lineno)
                if w is None:
                    wsum = None
                    break
                wsum += w
            if wsum is None:
                o.unk(sub_, s, 'width of the inserted text is not fixed by the syntax: %s' % stmt_text(s.value)[:80])
            elif wsum == b - a:
                o.ok(sub_, s, 'columns %d-%d of %s are replaced by a %d-character text' % (a + 1, b, tgt, wsum))
            else:
                o.bad(sub_, s, '%s[:%d] + <%d characters> + %s[%d:]: %d characters replace %d columns, every later column of the fixed-width line shifts by %+d' % (
                    tgt, a, wsum, tgt, b, wsum, b - a, wsum - (b - a)), expected='%d characters' % (b - a), actual='%d characters' % wsum)
            if 'header' in tgt and mid:
                if (a, b) in HEADER_FIELDS:
                    o.ok(sub_ + '::field', s, 'the replaced columns are the SINEX header field %s' % HEADER_FIELDS[(a, b)])
                else:
                    o.bad(sub_ + '::field', s, 'columns %d-%d of the header line are replaced; the header fields rewritten here are %s' % (
                        a + 1, b, '; '.join(sorted(HEADER_FIELDS.values()))), expected=str(sorted(HEADER_FIELDS)), actual=str((a, b)))
            # tail.replace(old, new)
            if isinstance(parts[-1], ast.Call) and isinstance(parts[-1].func, ast.Attribute) and parts[-1].func.attr == 'replace':
                args = parts[-1].args
                if len(args) == 2 and all(isinstance(x, ast.Constant) for x in args):
                    if args[0].value == 'V' and args[1].value == '':
                        o.ok(sub_ + '::replace', s, "the solution-contents tail loses its 'V' flag only")
                    else:
                        o.bad(sub_ + '::replace', s, 'the header tail is rewritten with replace(%r, %r); removing the velocity flag is replace("V", "")' % (args[0].value, args[1].value),
                              expected="('V', '')", actual=str((args[0].value, args[1].value)))
    rep.floor('R-SPLICE', 8, 'column splices of the three editors')


# ================================================================================================ record classes, block flags, counters, str arithmetic
def table_rules(rep, m):
    funcs = ['remove_stns_sinex', 'remove_velocity_sinex', 'remove_matrixzeros_sinex', 'read_sinex_matrix', 'read_sinex_estimate']
    flag_col = len('+SOLUTION/MATRIX_ESTIMATE') + 1
    for name in funcs:
        f = m.functions.get(name)
        if f is None:
            raise AnalysisError('anchor vanished: gnss.%s' % name)
        o = Out(rep, 'R-TABLE', f)
        k_cls = k_flag = 0
        for c in ast.walk(f.node):
            if not (isinstance(c, ast.Compare) and len(c.ops) == 1 and isinstance(c.ops[0], (ast.Eq, ast.NotEq)) and isinstance(c.comparators[0], ast.Constant)):
                continue
            lit = c.comparators[0].value
            left = c.left
            # record class by first character
            if lit in ('+', '*', '-', '%') and isinstance(left, ast.Subscript) and isinstance(left.value, ast.Name) and isinstance(left.slice, ast.Constant) \
                    and isinstance(left.slice.value, int):
                k_cls += 1
                key = 'line-class#%d' % k_cls
                if left.slice.value == 0:
                    o.rep.holds('R-TABLE', o.base + key, where(f, c), 'record class %r tested on the first character' % lit, work=False)
                else:
                    o.bad(key, c, 'the record class character %r is looked for in column %d; block markers and comments are identified by the FIRST character of a line' % (
                        lit, left.slice.value + 1), expected='[0]', actual='[%d]' % left.slice.value)
            # triangle flag
            if lit in ('L', 'U'):
                col = None
                line_ix = None
                inner = left
                if isinstance(inner, ast.Subscript):
                    if isinstance(inner.slice, ast.Slice):
                        sb = slice_bounds(inner)
                        col = sb if sb else None
                    elif isinstance(inner.slice, ast.Constant):
                        col = (inner.slice.value, inner.slice.value + 1)
                    if isinstance(inner.value, ast.Subscript) and isinstance(inner.value.slice, ast.Constant):
                        line_ix = inner.value.slice.value
                if col is None:
                    continue
                k_flag += 1
                key = 'triangle-flag#%d' % k_flag
                if col == (flag_col, flag_col + 1) and line_ix in (None, 0):
                    o.ok(key, c, 'L/U flag read from column %d of the +SOLUTION/MATRIX_ESTIMATE line' % (flag_col + 1))
                elif col != (flag_col, flag_col + 1):
                    o.bad(key, c, 'the L/U flag is read from [%s:%s]; it follows "+SOLUTION/MATRIX_ESTIMATE " at index %d' % (col[0], col[1], flag_col),
                          expected='[%d:%d]' % (flag_col, flag_col + 1), actual='[%s:%s]' % col)
                else:
                    o.bad(key, c, 'the L/U flag is read from line %d of the block; it is on the block header, line 0' % line_ix, expected='[0]', actual='[%d]' % line_ix)
        # block end and header lines of the matrix block list
        if name == 'remove_stns_sinex':
            for s in walk_stmts(f.node.body):
                if isinstance(s, ast.Assign) and isinstance(s.targets[0], ast.Name) and s.targets[0].id == 'block_end' and isinstance(s.value, ast.Subscript) \
                        and not isinstance(s.value.slice, ast.Slice):
                    ix = aff(s.value.slice)
                    o.eq('block-end', s, ix, const(-1), 'line of the block list kept as the block terminator', 'the -SOLUTION/MATRIX_ESTIMATE line is the last line of the block')
            hdr = []
            for s in walk_stmts(f.node.body):
                if isinstance(s, ast.Expr) and isinstance(s.value, ast.Call) and getattr(s.value.func, 'attr', '') == 'write' and s.value.args \
                        and isinstance(s.value.args[0], ast.JoinedStr):
                    for v in s.value.args[0].values:
                        if isinstance(v, ast.FormattedValue) and isinstance(v.value, ast.Subscript) and isinstance(v.value.value, ast.Name) \
                                and isinstance(v.value.slice, ast.Constant) and 'matrix' in v.value.value.id:
                            hdr.append((v.value.slice.value, s))
            if hdr:
                got = [h[0] for h in hdr]
                if got == [0, 1]:
                    o.ok('block-head', hdr[0][1], 'block header (line 0) and its comment line (line 1) are copied first, in this order')
                else:
                    o.bad('block-head', hdr[0][1], 'the lines copied at the head of the matrix block are %s; the block starts with its header (0) and column comment (1)' % got,
                          expected='[0, 1]', actual=str(got))
                # the conditional copy tests the same line it writes
                for s in walk_stmts(f.node.body):
                    if isinstance(s, ast.If) and isinstance(s.test, ast.Call) and getattr(s.test.func, 'attr', '') == 'startswith' \
                            and isinstance(s.test.func.value, ast.Subscript) and isinstance(s.test.func.value.slice, ast.Constant) and s.body and s.body[0] is hdr[-1][1]:
                        o.eq('block-head::guard', s, const(s.test.func.value.slice.value), const(hdr[-1][0]), 'line tested for the comment marker',
                             'the line that is written must be the line that was tested')
    # counters: initial value 0, step 1
    for name, counters in (('remove_stns_sinex', ['num_stns_to_remove']), ('remove_velocity_sinex', ['numSites'])):
        f = m.functions[name]
        o = Out(rep, 'R-TABLE', f)
        for cn in counters:
            asg = _assignments(f.node, cn)
            augs = [s for s in walk_stmts(f.node.body) if isinstance(s, ast.AugAssign) and isinstance(s.target, ast.Name) and s.target.id == cn]
            gens = [a_ for a_ in asg if isinstance(a_.value, ast.Call) and getattr(a_.value.func, 'id', '') == 'sum' and len(a_.value.args) == 1
                    and isinstance(a_.value.args[0], ast.GeneratorExp)]
            if len(asg) == 1 and gens and not augs:
                # n = sum(<step> for record in ...): starts from nothing and adds <step> per record
                o.rep.holds('R-TABLE', o.base + 'counter::%s::init' % cn, where(f, gens[0]), 'initial value of %s: a sum starts at 0' % cn)
                o.eq('counter::%s::step' % cn, gens[0], aff(gens[0].value.args[0].elt), const(1), 'increment of %s per record' % cn, 'each record counts once')
                continue
            if not asg or not augs:
                o.unk('counter::' + cn, None, 'counter %s not found' % cn)
                continue
            o.eq('counter::%s::init' % cn, asg[0], aff(asg[0].value), const(0), 'initial value of %s' % cn, 'nothing is counted before the first record')
            o.eq('counter::%s::step' % cn, augs[0], aff(augs[0].value), const(1), 'increment of %s per record' % cn, 'each record counts once')
    # arithmetic on strings: str - x, x - str (TypeError at run time)
    for name in ('remove_stns_sinex', 'remove_velocity_sinex', 'remove_matrixzeros_sinex', 'set_creation_time'):
        f = m.functions[name]
        o = Out(rep, 'R-TYPE', f)
        bad = 0
        tot = 0
        for b in ast.walk(f.node):
            if isinstance(b, ast.BinOp) and isinstance(b.op, (ast.Sub, ast.Div, ast.Add)):
                l, r = is_str(b.left, f, m), is_str(b.right, f, m)
                if l or r:
                    tot += 1
                    if isinstance(b.op, (ast.Sub, ast.Div)):
                        bad += 1
                        o.bad('str-arith#%d' % bad, b, 'a string operand in `%s`: TypeError when the line is built' % stmt_text(b)[:80], expected='+', actual=type(b.op).__name__)
        if not bad and tot:
            o.rep.holds('R-TYPE', o.base + 'str-arith', where(f, f.node), '%d string concatenations, none with - or /' % tot)
    # the output file is opened for writing
    for name in ('remove_stns_sinex', 'remove_velocity_sinex', 'remove_matrixzeros_sinex'):
        f = m.functions[name]
        o = Out(rep, 'R-TABLE', f)
        for w in ast.walk(f.node):
            if isinstance(w, ast.With):
                for it in w.items:
                    c = it.context_expr
                    if isinstance(c, ast.Call) and getattr(c.func, 'id', '') == 'open' and it.optional_vars is not None and getattr(it.optional_vars, 'id', '') == 'out':
                        mode = c.args[1].value if len(c.args) > 1 and isinstance(c.args[1], ast.Constant) else None
                        for kw in c.keywords:
                            if kw.arg == 'mode' and isinstance(kw.value, ast.Constant):
                                mode = kw.value.value
                        path = c.args[0].value if c.args and isinstance(c.args[0], ast.Constant) else None
                        if mode == 'w' and isinstance(path, str) and path.endswith('.snx'):
                            o.ok('output-open', c, 'the result is written to a fresh %s' % path)
                        else:
                            o.bad('output-open', c, 'the output stream is open(%r, %r)' % (path, mode), expected="open('output.snx', 'w')", actual=stmt_text(c)[:80])


def is_str(e, f, m, depth=0):
    if depth > 4:
        return False
    if isinstance(e, ast.Constant):
        return isinstance(e.value, str)
    if isinstance(e, ast.JoinedStr):
        return True
    if isinstance(e, ast.Call) and isinstance(e.func, ast.Name) and e.func.id == 'str':
        return True
    if isinstance(e, ast.Call) and isinstance(e.func, ast.Attribute) and e.func.attr == 'format' and isinstance(e.func.value, ast.Constant):
        return True
    if isinstance(e, ast.Call) and isinstance(e.func, ast.Attribute) and e.func.attr in ('strip', 'rstrip', 'lstrip', 'strftime'):
        return True
    if isinstance(e, ast.Call) and isinstance(e.func, ast.Attribute) and e.func.attr == 'replace' and is_str(e.func.value, f, m, depth + 1):
        return True
    if isinstance(e, ast.BinOp) and isinstance(e.op, ast.Add):
        return is_str(e.left, f, m, depth + 1) or is_str(e.right, f, m, depth + 1)
    if isinstance(e, ast.Subscript) and isinstance(e.slice, ast.Slice) and isinstance(e.value, ast.Name) and e.value.id in ('header', 'line'):
        return True
    if isinstance(e, ast.Name):
        asg = _assignments(f.node, e.id)
        return bool(asg) and all(is_str(a.value, f, m, depth + 1) for a in asg)
    return False


# ================================================================================================ midnight, tuple layout
def clock_value_rules(rep, m):
    """seconds since midnight = now - now.replace(hour=0, minute=0, second=0, microsecond=0)"""
    f = m.functions['set_creation_time']
    o = Out(rep, 'R-CLOCK', f)
    found = False
    import copy as _copy
    for b in ast.walk(f.node):
        if isinstance(b, ast.BinOp) and isinstance(b.right, ast.Name) and isinstance(b.left, ast.Name):
            # `now - midnight` with midnight = now.replace(...): the name stands for its one assignment
            a_ = _assignments(f.node, b.right.id)
            if len(a_) == 1 and isinstance(a_[0].value, ast.Call) and getattr(a_[0].value.func, 'attr', '') == 'replace':
                b2 = _copy.copy(b)
                b2.right = a_[0].value
                b = b2
        if isinstance(b, ast.BinOp) and isinstance(b.right, ast.Call) and getattr(b.right.func, 'attr', '') == 'replace' and isinstance(b.left, ast.Name) \
                and isinstance(b.right.func.value, ast.Name):
            found = True
            kws = dict((k.arg, k.value.value if isinstance(k.value, ast.Constant) else '?') for k in b.right.keywords)
            want = {'hour': 0, 'minute': 0, 'second': 0, 'microsecond': 0}
            if not isinstance(b.op, ast.Sub):
                o.bad('midnight::difference', b, 'seconds of the day are computed with %s instead of a difference to midnight' % type(b.op).__name__)
            elif b.left.id != b.right.func.value.id:
                o.bad('midnight::difference', b, 'the difference is taken between two different clock readings')
            else:
                o.ok('midnight::difference', b, 'seconds of the day = reading - midnight of the same reading')
            if kws == want:
                o.ok('midnight::fields', b, 'midnight = the reading with hour, minute, second, microsecond set to 0')
            else:
                o.bad('midnight::fields', b, 'the reference instant is replace(%s), not midnight: the SSSSS field is offset' % ', '.join('%s=%s' % kv for kv in sorted(kws.items())),
                      expected=str(want), actual=str(kws))
    if not found:
        o.unk('midnight', None, 'no `now - now.replace(...)` expression')
    # total width and separators of the stamp
    rets = [n for n in ast.walk(f.node) if isinstance(n, ast.Return) and n.value is not None]
    if len(rets) == 1:
        w = width(rets[0].value, f, m, rets[0].lineno)
        if w is None:
            o.unk('stamp-width', rets[0], 'width of the stamp is not fixed by the syntax')
        elif w == 12:
            o.ok('stamp-width', rets[0], 'YY:DDD:SSSSS is 12 characters (four-digit year assumed)')
        else:
            o.bad('stamp-width', rets[0], 'the creation-time stamp is %d characters wide; YY:DDD:SSSSS has 12' % w, expected='12', actual=str(w))
        asg = rets[0].value
        if isinstance(asg, ast.Name):
            a = _assignments(f.node, asg.id)
            asg = a[-1].value if a else asg
        # what each field is made of: YY is the CALENDAR year of the reading, DDD the day of that calendar year.  The def-chain of every field
        # is collected (names resolved through the assignments of the function); its calendar sources are struct_time fields, datetime
        # attributes and strftime directives
        parts = []

        def flat(x):
            if isinstance(x, ast.BinOp) and isinstance(x.op, ast.Add):
                flat(x.left)
                flat(x.right)
            else:
                parts.append(x)
        flat(asg)
        fields = [p_ for p_ in parts if not (isinstance(p_, ast.Constant) and isinstance(p_.value, str))]

        def sources(x, at, depth=0, out=None):
            out = set() if out is None else out
            if depth > 12:
                return out
            for y in ast.walk(x):
                if isinstance(y, ast.Attribute) and y.attr in ('tm_year', 'tm_yday', 'tm_mon', 'tm_mday', 'tm_hour', 'tm_min', 'tm_sec', 'year', 'month', 'day', 'total_seconds', 'seconds'):
                    out.add(y.attr)
                if isinstance(y, ast.Call) and isinstance(y.func, ast.Attribute) and y.func.attr == 'strftime' and y.args and isinstance(y.args[0], ast.Constant) \
                        and isinstance(y.args[0].value, str):
                    import re as _re
                    for d_ in _re.findall(r'%(.)', y.args[0].value):
                        out.add('%' + d_)
                if isinstance(y, ast.Call) and isinstance(y.func, ast.Attribute) and y.func.attr in ('isocalendar', 'isoweekday', 'weekday'):
                    out.add(y.func.attr)
                if isinstance(y, ast.Name) and isinstance(y.ctx, ast.Load):
                    a_ = _assignments(f.node, y.id, before=at)
                    if a_:
                        sources(a_[-1].value, a_[-1].lineno, depth + 1, out)
            return out
        if len(fields) == 3:
            want = (('year', {'tm_year', 'year', '%y', '%Y'}, 'the calendar year of the reading'), ('day-of-year', {'tm_yday', '%j'}, 'the day of the calendar year'))
            iso = {'%G': 'the ISO-8601 week-based year', '%g': 'the ISO-8601 week-based year', '%V': 'the ISO week number', '%U': 'a week number', '%W': 'a week number',
                   'isocalendar': 'the ISO week calendar', '%d': 'the day of the month', 'tm_mday': 'the day of the month', 'day': 'the day of the month', '%m': 'the month',
                   'tm_mon': 'the month', 'month': 'the month'}
            for (fname, good, txt), fx in zip(want, fields[:2]):
                src = sources(fx, rets[0].lineno + 1)
                cal = src & (set(iso) | good | {'tm_year', 'tm_yday', 'year', '%y', '%Y', '%j'})
                wrong = sorted(cal - good)
                if wrong:
                    o.bad('stamp-field::' + fname, fx, 'the %s field of YY:DDD:SSSSS is taken from %s (%s), not from %s: around new year the two differ (2024-12-30 is day 365 of 2024 '
                          'and belongs to ISO year 2025 - the stamp reads 25:365)' % (fname, wrong[0], iso.get(wrong[0], 'another calendar field'), txt),
                          expected=' / '.join(sorted(good)), actual=wrong[0])
                elif cal:
                    o.ok('stamp-field::' + fname, fx, 'the %s field is %s (%s)' % (fname, txt, ', '.join(sorted(cal))))
                else:
                    o.unk('stamp-field::' + fname, fx, 'calendar source of the %s field not recognised' % fname)
        # the literal text between the fields (the format specifications of an f-string are constants too: not separators)
        spec_consts = set(id(c_) for fv_ in ast.walk(asg) if isinstance(fv_, ast.FormattedValue) and fv_.format_spec is not None for c_ in ast.walk(fv_.format_spec))
        seps = [x.value for x in ast.walk(asg) if isinstance(x, ast.Constant) and isinstance(x.value, str) and id(x) not in spec_consts]
        if seps == [':', ':']:
            o.ok('stamp-separators', rets[0], 'fields joined by colons')
        elif seps:
            o.bad('stamp-separators', rets[0], 'the stamp is joined with %s' % seps, expected="[':', ':']", actual=str(seps))


DOC_ORDER = ['code', 'soln', 'epoch', 'stax', 'stay', 'staz', 'stax_sd', 'stay_sd', 'staz_sd', 'velx', 'vely', 'velz', 'velx_sd', 'vely_sd', 'velz_sd']


def layout_rules(rep, m):
    """the tuple built by read_sinex_estimate and the positions / length read_sinex_matrix relies on"""
    f = m.functions['read_sinex_estimate']
    o = Out(rep, 'R-SIBLING', f)
    tuples = [s for s in walk_stmts(f.node.body) if isinstance(s, ast.Assign) and isinstance(s.value, ast.Tuple) and isinstance(s.targets[0], ast.Name)
              and s.targets[0].id == 'info']
    lens = []
    for s in tuples:
        names = [e.id if isinstance(e, ast.Name) else '?' for e in s.value.elts]
        lens.append(len(names))
        key = 'info-tuple@%d' % len(names)
        if names == DOC_ORDER[:len(names)] and len(names) in (9, 15):
            o.ok(key, s, 'returned tuple of %d fields in the documented order' % len(names))
        else:
            o.bad(key, s, 'the returned tuple is (%s); documented: (%s)' % (', '.join(names), ', '.join(DOC_ORDER[:len(names)])), expected=str(DOC_ORDER[:len(names)]), actual=str(names))
    # branch literal <-> assigned names
    for s in walk_stmts(f.node.body):
        if isinstance(s, ast.If) and isinstance(s.test, ast.Compare) and isinstance(s.test.left, ast.Name) and s.test.left.id == 'typ' \
                and isinstance(s.test.comparators[0], ast.Constant):
            lit = s.test.comparators[0].value
            if not isinstance(lit, str) or len(lit) != 4:
                continue
            base = lit.lower()
            floats = [x for x in s.body if isinstance(x, ast.Assign) and isinstance(x.value, ast.Call) and getattr(x.value.func, 'id', '') == 'float']
            got = sorted(x.targets[0].id for x in floats if isinstance(x.targets[0], ast.Name))
            want = sorted([base, base + '_sd'])
            if got == want:
                o.ok('branch::' + lit, s, '%s records set %s and %s' % (lit, base, base + '_sd'))
            else:
                o.bad('branch::' + lit, s, '%s records assign %s; the values of a %s record are %s and %s' % (lit, got, lit, base, base + '_sd'), expected=str(want), actual=str(got))
            for x in floats:
                sb = slice_bounds(x.value.args[0]) if x.value.args else None
                tn = x.targets[0].id if isinstance(x.targets[0], ast.Name) else ''
                if sb is not None and tn in want:
                    is_sd = tn.endswith('_sd')
                    if (sb == (69, 80)) != is_sd and sb in ((69, 80), (47, 68)):
                        o.bad('branch::%s::%s' % (lit, tn), x, '%s is read from the %s field' % (tn, 'standard deviation' if sb == (69, 80) else 'estimate'))
    g = m.functions['read_sinex_matrix']
    o2 = Out(rep, 'R-SIBLING', g)
    vel_len = max(lens) if lens else None
    for c in ast.walk(g.node):
        if isinstance(c, ast.Compare) and isinstance(c.left, ast.Call) and getattr(c.left.func, 'id', '') == 'len' and c.left.args and isinstance(c.left.args[0], ast.Subscript) \
                and isinstance(c.comparators[0], ast.Constant) and isinstance(c.comparators[0].value, int) and isinstance(c.ops[0], ast.Eq):
            if vel_len is not None:
                o2.eq('velocity-test', c, const(c.comparators[0].value), const(vel_len), 'tuple length taken to mean "with velocities"',
                      'read_sinex_estimate returns %d fields per station with velocities' % vel_len)
    for tg, arg, call in append_calls(g.node.body):
        if isinstance(tg, ast.Name) and isinstance(arg, ast.Subscript) and isinstance(arg.slice, ast.Constant) and tg.id in DOC_ORDER:
            o2.eq('field::' + tg.id, call, const(arg.slice.value), const(DOC_ORDER.index(tg.id)), 'position of %s in the estimate tuple' % tg.id,
                  'read_sinex_estimate returns (%s, ...)' % ', '.join(DOC_ORDER[:3]))


def misc_rules(rep, m):
    f = m.functions['remove_velocity_sinex']
    o = Out(rep, 'R-TABLE', f)
    for c in ast.walk(f.node):
        if isinstance(c, ast.Compare) and len(c.ops) == 1 and isinstance(c.comparators[0], ast.Constant) and c.comparators[0].value == 'V' \
                and isinstance(c.left, ast.Subscript) and not isinstance(c.left.slice, ast.Slice):
            stripped = any(isinstance(a_.value, ast.Call) and getattr(a_.value.func, 'attr', '') in ('strip', 'rstrip')
                           for a_ in _assignments(f.node, getattr(c.left.value, 'id', ''), before=c.lineno))
            ix = aff(c.left.slice)
            if stripped:
                o.eq('velocity-flag', c, ix, const(-1), 'character of the stripped header tested for the velocity flag',
                     'the solution-contents field ends the header line: S then V')
    g = m.functions['read_sinex_matrix']
    o2 = Out(rep, 'R-TABLE', g)
    for c in ast.walk(g.node):
        if isinstance(c, ast.Compare) and isinstance(c.left, ast.Call) and getattr(c.left.func, 'id', '') == 'len' and c.left.args and isinstance(c.left.args[0], ast.Subscript) \
                and not isinstance(c.left.args[0].slice, ast.Slice):
            o2.eq('first-station', c, aff(c.left.args[0].slice), const(0), 'station whose tuple length decides "with velocities"',
                  'a file may hold a single station: only index 0 always exists')


def sign_string_rules(rep, m):
    """DMSAngle('DD MM SS.S') takes the sign from the FIRST character of the string (angles.py): a fixed-column field that is right-aligned
    carries leading blanks, so a slice handed to DMSAngle must be left-stripped or every angle between 0 and -10 degrees (and every
    narrower field) comes back positive"""
    n = 0
    for f in m.functions.values():
        for c in ast.walk(f.node):
            if isinstance(c, ast.Call) and isinstance(c.func, ast.Name) and c.func.id == 'DMSAngle' and len(c.args) == 1:
                a = c.args[0]
                sl = None
                stripped = False
                e = a
                while isinstance(e, ast.Call) and isinstance(e.func, ast.Attribute) and not e.args:
                    if e.func.attr in ('strip', 'lstrip'):
                        stripped = True
                    e = e.func.value
                if isinstance(e, ast.Subscript) and isinstance(e.slice, ast.Slice):
                    sl = slice_bounds(e)
                if sl is None:
                    continue
                n += 1
                key = 'R-FORMAT::geodepy/gnss.py::%s::DMSAngle(line[%s:%s])' % (f.qualname, sl[0], sl[1])
                if stripped:
                    rep.holds('R-FORMAT', key, where(f, c), 'the fixed-column field is left-stripped before DMSAngle reads its sign from the first character')
                else:
                    rep.violated('R-FORMAT', key, where(f, c), 'the fixed-column field line[%s:%s] is handed to DMSAngle with its leading blanks: DMSAngle takes the sign from the first '
                                 'character, so " -5 30 00.0" is read as +5 30 00' % sl, expected='line[%s:%s].lstrip()' % sl, actual=stmt_text(a)[:80])
    return n


def run2(rep, m):
    sign_string_rules(rep, m)
    misc_rules(rep, m)
    splice_rules(rep, m)
    table_rules(rep, m)
    clock_value_rules(rep, m)
    layout_rules(rep, m)
