"""C09 - purity of the library: no store reaches a constant or a caller-owned object (R-PURE)."""
import ast
from ..model import Func, calls_in, stmt_text
from ..rules import where
from ..purity import Purity
from ..mutate import replace_in_function

SCOPE = ['geodepy.constants', 'geodepy.transform', 'geodepy.survey', 'geodepy.statistics', 'geodepy.convert',
         'geodepy.geodesy', 'geodepy.angles', 'geodepy.coord', 'geodepy.ntv2reader']

META = {
    'level': 'proof',
    'exhaustive': True,
    'rule_text': 'one obligation per function of the nine library modules (no store to a non-fresh object, no write to module state, '
                 'no clock/random/environment read, reachable through the resolved call graph) plus one per module for '
                 'import-time code; an obligation is non-trivial when the function contains at least one store, mutating '
                 'call or repository call that had to be classified',
    'explanation': 'Interprocedural effect analysis over the resolved call graph (ast only). Every attribute/subscript store, '
                   'augmented assignment, del, mutating-method call and in-place numpy function is classified by must-freshness '
                   'of the written object; summaries (mutates parameter / receiver / module state, returns fresh) are propagated '
                   'to a fixed point. A function whose only effects are on objects created in its own activation is pure, '
                   'hence history-independent and thread-safe. Decides purity for all inputs, histories and schedules at once; '
                   'it does not decide bit-identical floating-point results of the host libm.',
}

# triaged exceptions: (function qualname, stored target text) -> reason (one line each)
# (none left: the two entries for `lat *= 3600` / `lon *= -3600` in interpolate_ntv2 were wrong - a 0-d numpy array passes the chained
# comparisons, is scaled in place, and ntv2_2d then adds the shift to the scaled value; repaired in /repo, see known_findings.json)
EXCEPTIONS = {
}


def public_entries(pur):
    ent = []
    for f in pur.funcs:
        if f.parent is None:
            ent.append(f)
    return ent


PROCESS_WIDE = {
    'warnings.simplefilter': 'the warning filters of the interpreter', 'warnings.filterwarnings': 'the warning filters of the interpreter',
    'warnings.resetwarnings': 'the warning filters of the interpreter', 'numpy.seterr': 'numpy\'s floating-point error handling', 'np.seterr': 'numpy\'s floating-point error handling',
    'numpy.set_printoptions': 'numpy\'s print options', 'np.set_printoptions': 'numpy\'s print options', 'numpy.seterrcall': 'numpy\'s error callback', 'np.seterrcall': 'numpy\'s error callback',
    'locale.setlocale': 'the process locale', 'random.seed': 'the global random generator', 'numpy.random.seed': 'numpy\'s global random generator', 'np.random.seed': 'numpy\'s global random generator',
    'sys.setrecursionlimit': 'the recursion limit', 'os.chdir': 'the working directory', 'decimal.setcontext': 'the decimal context', 'os.putenv': 'the environment',
}


def process_state_rules(repo, rep):
    """state that lives OUTSIDE the library's objects: the interpreter's warning filters, numpy's error state, the locale, the working
    directory - a routine that sets one of them (outside a `with warnings.catch_warnings()` / `numpy.errstate()` block that restores it)
    changes what later, unrelated calls do (an ISG conversion that normally warns then raises).  And an OPEN FILE kept on an object or at
    module level: its position is shared by every look-up that goes through it - two threads interleave their seeks and reads."""
    n = 0
    for mn in sorted(SCOPE):
        m = repo.modules.get(mn)
        if m is None:
            continue
        for f in m.all_functions():
            guarded = set()
            unsafe = set()
            for w_ in ast.walk(f.node):
                if isinstance(w_, ast.With) and any('catch_warnings' in stmt_text(it.context_expr) or 'errstate' in stmt_text(it.context_expr) or 'localcontext' in stmt_text(it.context_expr)
                                                    for it in w_.items):
                    guarded.update(id(x) for x in ast.walk(w_))
                    if any('catch_warnings' in stmt_text(it.context_expr) for it in w_.items):
                        # numpy.errstate and decimal.localcontext are per thread; warnings.catch_warnings saves and restores the ONE filter list
                        # of the process (the library reference: "not thread-safe")
                        unsafe.update(id(x) for x in ast.walk(w_))
            for c in ast.walk(f.node):
                if isinstance(c, ast.Call):
                    txt = stmt_text(c.func)
                    if txt in PROCESS_WIDE and id(c) in unsafe and txt.startswith('warnings.'):
                        n += 1
                        rep.violated('R-PURE', 'R-PURE::%s::%s::process-wide::%s::restored-per-process' % (m.relpath, f.qualname, txt), where(f, c), '%s changes the warning filters inside '
                                     '`with warnings.catch_warnings()`: the block saves and restores the single filter list of the PROCESS and is not thread-safe - with two threads inside it '
                                     '(A in, B in, A out, B out) B restores the list A had changed and the rule `%s` stays for the rest of the process (the property quantifies over calls '
                                     'running concurrently in other threads)' % (f.qualname, stmt_text(c)[:50]), expected='warnings.warn(...) under the caller\'s filters, no filter change',
                                     actual=stmt_text(c)[:80])
                    if txt in PROCESS_WIDE and id(c) not in guarded:
                        n += 1
                        rep.violated('R-PURE', 'R-PURE::%s::%s::process-wide::%s' % (m.relpath, f.qualname, txt), where(f, c), '%s calls `%s`, which sets %s for the whole process and '
                                     'is not undone: every later call of the library - and of the caller\'s own code - runs under the changed setting (a conversion that '
                                     'normally issues a UserWarning then raises it)' % (f.qualname, stmt_text(c)[:60], PROCESS_WIDE[txt]),
                                     expected='with warnings.catch_warnings(): ... (or numpy.errstate)', actual=stmt_text(c)[:80])
                if isinstance(c, ast.Assign) and isinstance(c.value, ast.Call) and getattr(c.value.func, 'id', '') == 'open' \
                        and any(isinstance(t, ast.Attribute) for t in c.targets):
                    n += 1
                    rep.violated('R-PURE', 'R-PURE::%s::%s::open-file-kept::%s' % (m.relpath, f.qualname, stmt_text(c.targets[0])[:30]), where(f, c), '`%s` keeps an OPEN FILE on the object: '
                                 'its read position is state shared by every look-up that uses the object - two interleaved calls (threads) seek and read through each other and one of '
                                 'them returns another node\'s values' % stmt_text(c)[:60], expected='the file opened (and closed) inside the call that reads it', actual=stmt_text(c)[:80])
        for st in m.tree.body:
            if isinstance(st, ast.Assign) and isinstance(st.value, ast.Call) and getattr(st.value.func, 'id', '') == 'open':
                n += 1
                rep.violated('R-PURE', 'R-PURE::%s::<module>::open-file-kept' % m.relpath, '%s:%d' % (m.relpath, st.lineno), 'a module-level open file: its position is shared by every call',
                             expected='opened inside the call', actual=stmt_text(st)[:80])
    if n == 0:
        rep.holds('R-PURE', 'R-PURE::<library>::process-wide-state', 'geodepy:1', 'no routine of the library sets process-wide interpreter / numpy state or keeps an open file between calls')


def run(repo, rep):
    pur = Purity(repo, SCOPE)
    rep.calls_resolved = pur.stats['resolved'] + pur.stats['external']
    rep.calls_unresolved = pur.stats['unresolved']
    rep.extra['stores_classified'] = pur.stats['stores']
    rep.extra['stores_to_fresh_objects'] = pur.stats['fresh_stores']
    rep.extra['fixpoint_rounds'] = pur.rounds
    rep.assume('A1: numpy, math, struct and datetime functions do not mutate their arguments except the in-place methods/functions listed in sv/purity.py')
    rep.assume('A2: methods of non-repository objects (str, float, ndarray) other than the listed mutators/aliasing methods return new objects')
    rep.assume('A3: no monkey-patching or reflection (setattr on modules) outside the analysed sources')
    rep.trust('python ast semantics of the statement kinds handled (assign, augassign, del, for, with, try, calls)')
    rep.trust('resolved call graph of sv/resolve.py (names, methods by receiver class or unique method name, operator overloads on guarded parameters)')
    from . import common
    common.mutable_default_rule(repo, rep, list(SCOPE))
    process_state_rules(repo, rep)
    nfun = 0
    for f in pur.funcs:
        nfun += 1
        rep.analysed(f)
        has_work = bool(pur.callees[id(f)]) or bool(pur.direct_sites[id(f)]) or any(
            isinstance(n, (ast.Attribute, ast.Subscript)) and isinstance(n.ctx, (ast.Store, ast.Del)) for n in ast.walk(f.node))
        probs = []
        for pname, (site, path) in pur.mut_params[id(f)].items():
            probs.append(('param', pname, site, path))
        if pur.mut_self[id(f)] is not None and f.name not in ('__init__', '__new__'):
            site, path = pur.mut_self[id(f)]
            probs.append(('self', 'self', site, path))
        for site, path in pur.mut_global[id(f)]:
            probs.append(('global', site.kind, site, path))
        for site, path in pur.nondet[id(f)]:
            probs.append(('nondet', site.kind, site, path))
        # report only at the function that owns the storing statement (paths are attached from public entries below)
        own = [p for p in probs if p[2].func is f]
        if not own:
            rep.add('R-PURE', 'R-PURE::%s::%s' % (f.module.relpath, f.qualname), '%s:%d' % (f.module.relpath, f.node.lineno),
                    'HOLDS', 'no store reaches a non-fresh object' if not probs else 'effects only through callees (reported there)',
                    work=has_work)
            continue
        seen = set()
        for kind, what, site, path in own:
            k = (site.target,)
            if k in seen:
                continue
            seen.add(k)
            key = 'R-PURE::%s::%s::%s' % (f.module.relpath, f.qualname, site.target)
            if (f.qualname, site.target) in EXCEPTIONS:
                rep.holds('R-PURE', key, site.where, 'excepted: ' + EXCEPTIONS[(f.qualname, site.target)])
                continue
            entry_path = find_entry_path(pur, f)
            if kind == 'param':
                msg = '%s writes to an object owned by its caller: parameter %s (%s)' % (f.qualname, what, site.text)
            elif kind == 'self':
                msg = '%s writes to state reachable from its receiver outside construction: %s' % (f.qualname, site.text)
            elif kind == 'global':
                msg = '%s writes module-level state: %s' % (f.qualname, site.text)
            else:
                msg = '%s reads a non-deterministic source: %s' % (f.qualname, site.text)
            rep.violated('R-PURE', key, site.where, msg, expected='stores only to objects created in this activation',
                         actual=site.text, path=entry_path + [site.text])
    # import-time code of every module in scope: only definitions and constant construction
    for m in pur.scope:
        bad = []
        for st in m.tree.body:
            if isinstance(st, (ast.FunctionDef, ast.ClassDef, ast.Import, ast.ImportFrom, ast.Assign, ast.AnnAssign)):
                if isinstance(st, ast.Assign):
                    for t in st.targets:
                        if not isinstance(t, (ast.Name, ast.Tuple)):
                            bad.append(st)
                continue
            if isinstance(st, ast.Expr) and isinstance(st.value, ast.Constant):
                continue
            if isinstance(st, ast.If) and 'main' in stmt_text(st.test):
                continue
            bad.append(st)
        key = 'R-PURE::%s::<module>' % m.relpath
        if bad:
            rep.violated('R-PURE', key, '%s:%d' % (m.relpath, bad[0].lineno), 'module-level code other than definitions: %s' % stmt_text(bad[0]))
        else:
            rep.holds('R-PURE', key, m.relpath + ':1', 'import-time code only defines functions, classes and constants')
    rep.floor('R-PURE', 150, 'functions of the nine library modules')
    rep.extra['functions_in_scope'] = nfun


def find_entry_path(pur, target):
    """shortest call path from a public module-level function / method to target (BFS over resolved callees)"""
    callers = {}
    for f in pur.funcs:
        for call, tgts in pur.callees[id(f)]:
            for g in tgts:
                callers.setdefault(id(g), []).append(f)
    from collections import deque
    best = [target.qualname]
    q = deque([(target, [target.qualname])])
    seen = {id(target)}
    longest = best
    while q:
        f, path = q.popleft()
        if len(path) > len(longest):
            longest = path
        for c in callers.get(id(f), []):
            if id(c) in seen:
                continue
            seen.add(id(c))
            q.append((c, [c.qualname] + path))
        if len(path) >= 6:
            break
    return longest


def controls(repo):
    out = []
    # 1: a covariance routine that edits its input in place
    src = repo.sources['geodepy/statistics.py']
    v = replace_in_function(src, 'vcv_cart2local', lambda fn: fn.body.insert(
        len(fn.body) - 1, ast.parse('vcv_cart[0, 0] = 0.0').body[0]))
    out.append(('store-to-parameter', repo.variant({'geodepy/statistics.py': v}), 'vcv_cart2local'))
    # 2: a function that updates a shipped constant
    src = repo.sources['geodepy/convert.py']
    v = replace_in_function(src, 'rect_radius', lambda fn: fn.body.insert(0, ast.parse('grs80.n2 = grs80.n ** 2').body[0]))
    out.append(('store-to-constant', repo.variant({'geodepy/convert.py': v}), 'rect_radius'))
    return out
