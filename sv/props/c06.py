"""C06 - 7-parameter similarity transformation (transform.conform7, Transformation.__neg__)."""
import ast
from fractions import Fraction as F
from .. import alg
from ..alg import Rat, C
from ..model import AnalysisError, stmt_text
from ..symval import Evaluator, Tup, Obj, Mat, NoneV, NONE, Str
from ..symcheck import Oracle, check_equal, compare_values, show, leaves
from ..rules import where
from . import common
from ..mutate import replace_in_function, substitute, text_variant
from . import c11

META = {
    'level': 'other',
    'rule_text': 'rule instances: the three transformed coordinates against t + (1 + sc ppm) R x with R the small-angle matrix in the '
                 'Australian sign convention and rotations in arc-seconds; every element of the propagated covariance against '
                 'J Q J^T with J obtained by exact differentiation of that formula and Q the diagonal of the squared uncertainties in '
                 'the same units; array shapes of every store into the Jacobian / weight matrix; the branch structure (covariance only '
                 'when supplied and when the set carries uncertainties); slot-by-slot negation of a parameter set; zero input covariance still yields the parameter contribution; statelessness with memo-key analysis; negation independent of the python type of a parameter',
    'explanation': 'Static: conform7 (numpy literal code) is abstractly evaluated over symbolic 3x1 / 3x3 / 10x10 matrices into exact '
                   'normal forms; the reference Jacobian is derived by exact differentiation. Decides the formula, its sign/unit '
                   'conventions, first-order covariance propagation and array-shape soundness for every point and parameter set with '
                   'rotations below one arc-minute (the domain of the frozen hp2dec summary). Does not decide the 1 um figure (floating point).',
}

ORACLE = '''
from math import radians

def similarity(x, y, z, tx, ty, tz, s, rx, ry, rz):
    X = tx + s * (x + rz * y - ry * z)
    Y = ty + s * (-rz * x + y + rx * z)
    Z = tz + s * (ry * x - rx * y + z)
    return X, Y, Z

def units(sc, qx, qy, qz):
    return 1 + sc / 1000000, radians(qx / 3600), radians(qy / 3600), radians(qz / 3600)
'''


def symbolic_sets(repo, ev):
    tcls = repo.cls('geodepy.constants', 'Transformation')
    scls = repo.cls('geodepy.constants', 'TransformationSD')
    T = ev.symbolic_object(tcls, 'T')
    SD = ev.symbolic_object(scls, 'SD', origin='param:SD')
    T.fields['tf_sd'] = SD
    T.origin = None
    return T, SD


def hp_route_rule(repo, rep, f):
    """arc-seconds -> radians is arithmetic (q/3600 degrees).  Routing the number through HP notation (hp2dec(q/10000): "0.00SSsss" read as
    minutes and seconds) agrees with it only while the HP fields are valid: hp2dec renders its argument with 13 decimals (q to 1e-9") and
    rejects a seconds field of 60, so a rotation in [59.9999999995", 60") - inside the property's domain, rotations below one arc-minute -
    raises, and from 100" up the digits are read as minutes (130" -> 1'30" = 90").  The rule: no parameter of the set reaches hp2dec."""
    key = 'R-UNITS::geodepy/transform.py::conform7::rotation-units'
    hits = []
    for n in ast.walk(f.node):
        if isinstance(n, ast.Call) and (getattr(n.func, 'id', None) or getattr(n.func, 'attr', None)) in ('hp2dec', 'hp2rad', 'hp2deca', 'hp2dec_v') and n.args:
            if any(isinstance(x, ast.Attribute) and isinstance(x.value, ast.Name) and x.value.id == f.params[3].name for x in ast.walk(n.args[0])):
                hits.append(n)
    if hits:
        rep.violated('R-UNITS', key, where(f, hits[0]), 'conform7 converts the rotations through HP notation (`%s`): hp2dec rounds to 13 decimals and rejects a seconds field of 60, so a rotation '
                     'of 59.9999999996" (below one arc-minute, inside the domain) raises "Invalid HP Notation"; 130" would silently be read as 1\'30"' % stmt_text(hits[0])[:50],
                     expected='radians(trans.rx / 3600)', actual=stmt_text(hits[0])[:80])
    else:
        rep.holds('R-UNITS', key, where(f, f.node), 'no parameter of the set is routed through HP notation; arc-seconds become radians arithmetically (formula rules)')


def _run(repo, rep):
    alg.reset()
    from .. import symcheck as _sc
    _sc.set_ranges({'x': (1.0e6, 5.0e7), 'y': (1.0e6, 5.0e7), 'z': (1.0e6, 5.0e7)})
    common.state_rule(repo, rep, [('geodepy.transform', 'conform7')])
    rep.trust('sv/alg.py exact normal forms and exact differentiation')
    rep.trust('arc-seconds are converted arithmetically (q/3600 degrees); a route through HP notation is reported by R-UNITS::rotation-units')
    rep.trust('reference: GDA2020 technical manual section 3 (similarity transformation, Australian rotation sign convention)')
    f = repo.func('geodepy.transform', 'conform7')
    rep.analysed(f)
    w = where(f, f.node)
    ps = [p.name for p in f.params]
    base = 'R-FORMULA::geodepy/transform.py::conform7::'
    hp_route_rule(repo, rep, f)
    orc = Oracle(ORACLE)
    # ------------------------------------------------------------ without covariance
    ev = Evaluator(repo)
    T, SD = symbolic_sets(repo, ev)
    val = ev.call_function(f, {ps[0]: Rat.sym('x'), ps[1]: Rat.sym('y'), ps[2]: Rat.sym('z'), ps[3]: T, ps[4]: NONE})
    if not isinstance(val, Tup) or len(val.items) != 4:
        rep.undecided('R-FORMULA', base + 'shape', w, 'conform7 does not evaluate to a 4-tuple')
        return
    s, rx, ry, rz = orc.call('units', sc=T.fields['sc'], qx=T.fields['rx'], qy=T.fields['ry'], qz=T.fields['rz']).items
    ref = orc.call('similarity', x=Rat.sym('x'), y=Rat.sym('y'), z=Rat.sym('z'), tx=T.fields['tx'], ty=T.fields['ty'], tz=T.fields['tz'],
                   s=s, rx=rx, ry=ry, rz=rz)
    for i, nm in enumerate('xyz'):
        check_equal(rep, 'R-FORMULA', base + nm, w, val.items[i], ref.items[i],
                    '%s\' = t + (1 + sc/1e6) * R * x, R = [[1, rz, -ry], [-rz, 1, rx], [ry, -rx, 1]], rotations = radians(arc-seconds/3600)' % nm)
    key = 'R-BRANCH::geodepy/transform.py::conform7::no-vcv'
    if isinstance(val.items[3], NoneV):
        rep.holds('R-BRANCH', key, w, 'without an input covariance the fourth result is None')
    elif isinstance(val.items[3], (Mat, Rat)):
        rep.violated('R-BRANCH', key, w, 'without an input covariance the fourth result is not None: %s' % show(val.items[3], 2, 200))
    else:
        rep.undecided('R-BRANCH', key, w, 'without an input covariance the fourth result is not decided to be None: %s' % show(val.items[3], 2, 200))
    # set without uncertainties but covariance supplied
    ev2 = Evaluator(repo)
    T2, _ = symbolic_sets(repo, ev2)
    T2.fields['tf_sd'] = NONE
    V = Mat([[Rat.sym('v%d%d' % (i, j)) for j in range(3)] for i in range(3)], (3, 3))
    val2 = ev2.call_function(f, {ps[0]: Rat.sym('x'), ps[1]: Rat.sym('y'), ps[2]: Rat.sym('z'), ps[3]: T2, ps[4]: V})
    key = 'R-BRANCH::geodepy/transform.py::conform7::no-sd'
    if isinstance(val2, Tup) and len(val2.items) == 4 and isinstance(val2.items[3], NoneV):
        rep.holds('R-BRANCH', key, w, 'a set without uncertainties returns no covariance')
    else:
        rep.violated('R-BRANCH', key, w, 'a set without TransformationSD does not return None as covariance')
    # ------------------------------------------------------------ with covariance
    ev3 = Evaluator(repo)
    T3, SD3 = symbolic_sets(repo, ev3)
    V = Mat([[Rat.sym('v%d%d' % (i, j)) for j in range(3)] for i in range(3)], (3, 3))
    val3 = ev3.call_function(f, {ps[0]: Rat.sym('x'), ps[1]: Rat.sym('y'), ps[2]: Rat.sym('z'), ps[3]: T3, ps[4]: V})
    # shapes
    n_shape = 0
    seen = set()
    for kind, wh, msg in ev3.diagnostics:
        if kind in ('shape-store', 'shape'):
            if (wh, msg) in seen:
                continue
            seen.add((wh, msg))
            n_shape += 1
            cell = msg.split('cell ')[-1] if 'cell ' in msg else msg[:40]
            rep.violated('R-SHAPE', 'R-SHAPE::geodepy/transform.py::conform7::%s' % cell, wh,
                         msg + ' - numpy >= 1.25 deprecates and numpy 2.x rejects converting a size-1 array to a scalar, so the covariance branch raises',
                         expected='a rank-0 value (index the element, e.g. a[i, 0])', actual=msg)
    if n_shape == 0:
        rep.holds('R-SHAPE', 'R-SHAPE::geodepy/transform.py::conform7::stores', w, 'every store into j_mat / q_mat receives a rank-0 value; all matrix products conform')
    # the zero matrix is a legitimate (PSD) covariance: the parameter contribution must still be returned
    ev4 = Evaluator(repo)
    T4, SD4 = symbolic_sets(repo, ev4)
    Z = Mat([[C(0) for j in range(3)] for i in range(3)], (3, 3))
    val4 = ev4.call_function(f, {ps[0]: Rat.sym('x'), ps[1]: Rat.sym('y'), ps[2]: Rat.sym('z'), ps[3]: T4, ps[4]: Z})
    key = 'R-BRANCH::geodepy/transform.py::conform7::zero-vcv'
    z4 = val4.items[3] if isinstance(val4, Tup) and len(val4.items) == 4 else None
    if isinstance(z4, Mat) and z4.shape == (3, 3):
        rep.holds('R-BRANCH', key, w, 'a zero input covariance still yields the 3x3 contribution of the parameter uncertainties')
    elif isinstance(z4, NoneV):
        rep.violated('R-BRANCH', key, w, 'a zero input covariance (a fixed point; symmetric PSD) is answered with None: the parameter-uncertainty contribution is lost',
                     expected='a 3x3 covariance', actual='None')
    else:
        rep.undecided('R-BRANCH', key, w, 'result for a zero input covariance: %s' % show(z4, 2, 160))
    covk = 'R-FORMULA::geodepy/transform.py::conform7::covariance'
    if isinstance(val3, Tup) and len(val3.items) == 4 and not isinstance(val3.items[3], (Mat, NoneV)):
        rep.undecided('R-BRANCH', 'R-BRANCH::geodepy/transform.py::conform7::vcv', w,
                      'with a symbolic input covariance the fourth result depends on a condition the evaluator cannot fold: %s' % show(val3.items[3], 2, 200))
        return
    if not isinstance(val3, Tup) or len(val3.items) != 4 or not isinstance(val3.items[3], Mat) or val3.items[3].shape != (3, 3):
        rep.violated('R-BRANCH', 'R-BRANCH::geodepy/transform.py::conform7::vcv', w,
                     'with an input covariance and a set carrying uncertainties no 3x3 covariance is returned: %s' % show(val3.items[3] if isinstance(val3, Tup) and len(val3.items) == 4 else val3, 2, 200))
        return
    rep.holds('R-BRANCH', 'R-BRANCH::geodepy/transform.py::conform7::vcv', w, 'input covariance + TransformationSD -> a 3x3 covariance is returned')
    # reference J Q J^T by exact differentiation of the similarity formula in independent symbols
    names = ['px', 'py', 'pz', 'ps', 'prx', 'pry', 'prz', 'ptx', 'pty', 'ptz']
    P = dict((n, Rat.sym(n)) for n in names)
    Fsym = orc.call('similarity', x=P['px'], y=P['py'], z=P['pz'], tx=P['ptx'], ty=P['pty'], tz=P['ptz'], s=P['ps'], rx=P['prx'], ry=P['pry'], rz=P['prz'])
    s3, rx3, ry3, rz3 = orc.call('units', sc=T3.fields['sc'], qx=T3.fields['rx'], qy=T3.fields['ry'], qz=T3.fields['rz']).items
    back = {'px': Rat.sym('x'), 'py': Rat.sym('y'), 'pz': Rat.sym('z'), 'ps': s3, 'prx': rx3, 'pry': ry3, 'prz': rz3,
            'ptx': T3.fields['tx'], 'pty': T3.fields['ty'], 'ptz': T3.fields['tz']}
    mapping = dict((alg.TABLE.sym(n).id, v) for n, v in back.items())
    J = []
    for i in range(3):
        row = []
        for n in names:
            d = alg.diff(Fsym.items[i], alg.TABLE.sym(n).id)
            row.append(alg.subst(d, mapping))
        J.append(row)
    q = [[C(0)] * 10 for _ in range(10)]
    for i in range(3):
        for j in range(3):
            q[i][j] = Rat.sym('v%d%d' % (i, j))
    sd = SD3.fields
    q[3][3] = (sd['sd_sc'] / C(1000000)).ipow(2)
    q[4][4] = alg.radians(sd['sd_rx'] / C(3600)).ipow(2)
    q[5][5] = alg.radians(sd['sd_ry'] / C(3600)).ipow(2)
    q[6][6] = alg.radians(sd['sd_rz'] / C(3600)).ipow(2)
    q[7][7] = sd['sd_tx'].ipow(2)
    q[8][8] = sd['sd_ty'].ipow(2)
    q[9][9] = sd['sd_tz'].ipow(2)
    got = val3.items[3]
    bad = 0
    for i in range(3):
        for j in range(3):
            want = C(0)
            for a in range(10):
                for b in range(10):
                    if not q[a][b].is_zero():
                        want = want + J[i][a] * q[a][b] * J[j][b]
            check_equal(rep, 'R-FORMULA', covk + '[%d,%d]' % (i, j), w, got.data[i][j], want,
                        'covariance element (%d,%d) = (J Q J^T)[%d,%d] with J = d(formula)/d(x,y,z,scale,rx,ry,rz,tx,ty,tz) and Q = diag(V, sd^2 in the same units)' % (i, j, i, j))
    rep.floor('R-FORMULA', 12, 'three coordinates and nine covariance elements')
    # negation of a parameter set
    c11.neg_rules(repo, rep, Evaluator(repo))


def point_rule(repo, rep):
    """the point formula of conform7 alone (used by C07: conform14 hands its epoch-propagated set to conform7, so the time-dependent
    transformation is right only if this is)"""
    from .. import symcheck as _sc
    _sc.set_ranges({'x': (1.0e6, 5.0e7), 'y': (1.0e6, 5.0e7), 'z': (1.0e6, 5.0e7)})
    f = repo.func('geodepy.transform', 'conform7')
    w = where(f, f.node)
    ps = [p.name for p in f.params]
    base = 'R-FORMULA::geodepy/transform.py::conform7::'
    orc = Oracle(ORACLE)
    ev = Evaluator(repo)
    T, SD = symbolic_sets(repo, ev)
    val = ev.call_function(f, {ps[0]: Rat.sym('x'), ps[1]: Rat.sym('y'), ps[2]: Rat.sym('z'), ps[3]: T, ps[4]: NONE})
    if not isinstance(val, Tup) or len(val.items) != 4:
        rep.undecided('R-FORMULA', base + 'shape', w, 'conform7 does not evaluate to a 4-tuple')
        return
    s, rx, ry, rz = orc.call('units', sc=T.fields['sc'], qx=T.fields['rx'], qy=T.fields['ry'], qz=T.fields['rz']).items
    ref = orc.call('similarity', x=Rat.sym('x'), y=Rat.sym('y'), z=Rat.sym('z'), tx=T.fields['tx'], ty=T.fields['ty'], tz=T.fields['tz'],
                   s=s, rx=rx, ry=ry, rz=rz)
    for i, nm in enumerate('xyz'):
        check_equal(rep, 'R-FORMULA', base + nm, w, val.items[i], ref.items[i],
                    '%s\' = t + (1 + sc/1e6) * R * x, R = [[1, rz, -ry], [-rz, 1, rx], [ry, -rx, 1]], rotations = radians(arc-seconds/3600)' % nm)


def run(repo, rep):
    from ..symval import INPLACE_EVENTS
    del INPLACE_EVENTS[:]
    _run(repo, rep)
    common.partial_call_rule(repo, rep, [('geodepy.transform', 'conform7')], 'the covariance matrices')
    common.chained_index_rule(repo, rep, [('geodepy.transform', 'conform7')])
    # in-place array updates met while evaluating the functions above (element type follows the caller's numbers)
    common.dtype_rule(repo, rep, [('geodepy.transform', 'conform7')])


def controls(repo):
    out = []
    src = repo.sources['geodepy/transform.py']

    def transpose(fn):
        # rotation matrix transposed: swap the signs of rz in the first two rows
        def pred(n):
            return isinstance(n, ast.Assign) and isinstance(n.targets[0], ast.Name) and n.targets[0].id == 'rotation'

        def make(n):
            rows = n.value.args[0].elts
            a = rows[0].elts[1]
            b = rows[1].elts[0]
            rows[0].elts[1], rows[1].elts[0] = b, a
            return n
        substitute(fn, pred, make, limit=1, expect=1)
    out.append(('rotation-transposed', repo.variant({'geodepy/transform.py': replace_in_function(src, 'conform7', transpose)}), 'conform7::x'))

    def unit(fn):
        def pred(n):
            return isinstance(n, ast.Constant) and n.value == 1000000

        def make(n):
            return ast.Constant(value=100000)
        substitute(fn, pred, make, limit=1, expect=1)
    out.append(('ppm-factor', repo.variant({'geodepy/transform.py': replace_in_function(src, 'conform7', unit)}), 'conform7::'))
    out.append(('chained-index', text_variant(repo, 'geodepy/transform.py', 'q_mat[i, j] = vcv[i, j]', 'q_mat[i, j] = vcv[i][j]'), 'conform7::element-access'))
    return out
