"""C07 - 14-parameter transformation (Transformation.__add__, transform.conform14, ATRF wrappers)."""
import ast
from fractions import Fraction as F
from .. import alg
from ..alg import Rat, C
from ..model import AnalysisError, stmt_text
from ..symval import Evaluator, Tup, Obj, NoneV, NONE, CallV, argkey
from ..symcheck import Oracle, check_equal, compare_values, show
from ..rules import where
from ..purity import Purity
from ..mutate import replace_in_function, substitute
from . import c11

META = {
    'level': 'other',
    'rule_text': 'rule instances: each of the 7 parameters advanced by its own rate times (epoch - reference epoch).days/365.25, rates and '
                 'labels passed on, new reference epoch; conform14 = conform7 applied to the propagated set with point and covariance '
                 'passed through; the two ATRF wrappers use the plate-motion set and its negation; plate-motion parameters are literal '
                 'zeros and the ITRF2014 and ATRF2014 sets carry identical numbers; __add__ has no side effect; slot-by-slot negation (rates included, independent of the python type of a parameter); statelessness of conform14 and the wrappers with memo-key analysis',
    'explanation': 'Static: Transformation.__add__ is abstractly evaluated on a symbolic parameter set (every slot compared with the linear '
                   'propagation formula), conform14 and the wrappers are evaluated with their callees kept as opaque call atoms (wiring), the '
                   'plate-motion sets are folded from the catalogue, and the effect analysis of C09 is re-run on __add__. Decides the named '
                   'necessary conditions for all sets, epochs and points; the 2 um figure is floating point and is not decided.',
}

ORACLE = '''
from geodepy.transform import conform7, conform14
from geodepy.constants import atrf2014_to_gda2020

def c14(x, y, z, epoch, trans, vcv):
    t = trans + epoch
    r = conform7(x, y, z, t, vcv=vcv)
    return r[0], r[1], r[2], r[3]

def atrf_fwd(x, y, z, epoch, vcv):
    return conform14(x, y, z, epoch, atrf2014_to_gda2020, vcv=vcv)

def atrf_rev(x, y, z, epoch, vcv):
    return conform14(x, y, z, epoch, -atrf2014_to_gda2020, vcv=vcv)
'''


def _run(repo, rep):
    alg.reset()
    from .. import symcheck as _sc
    _sc.set_ranges({'x': (1.0e6, 1.0e7), 'y': (1.0e6, 1.0e7), 'z': (1.0e6, 1.0e7)})
    rep.trust('sv/alg.py exact normal forms; opaque call atoms carry every formal parameter of the callee (defaults explicit)')
    ev = Evaluator(repo)
    # 1. epoch propagation
    c11.add_rules(repo, rep, ev)
    rep.floor('R-WIRE', 17, 'seven parameters, seven rates, labels and epoch of __add__')
    # 1a. negation, slot by slot, rates included (clause: a set followed by its negation at the same epoch returns the start point)
    c11.neg_rules(repo, rep, Evaluator(repo))
    # 1a'. the shipped ITRF sets are entered through iers2trans: every parameter AND every rate reaches its slot with the unit factor and,
    # for the rotations and their rates, the sign reversal ("every shipped parameter set" of the quantifier)
    c11.iers_rules(repo, rep, Evaluator(repo))
    # 1b. uncertainties: sigma_p(t) = sqrt(sigma_p^2 + (sigma_rate * dt)^2), rate sigmas passed on, in a new object
    sd_rules(repo, rep)
    # 2. conform14
    f = repo.func('geodepy.transform', 'conform14')
    rep.analysed(f)
    w = where(f, f.node)
    opq = {'conform7', 'Transformation.__add__', 'Transformation.__neg__'}
    tcls = repo.cls('geodepy.constants', 'Transformation')
    ev1 = Evaluator(repo, opaque=opq)
    T = ev1.symbolic_object(tcls, 'T')
    ps = [p.name for p in f.params]
    args = {ps[0]: Rat.sym('x'), ps[1]: Rat.sym('y'), ps[2]: Rat.sym('z'), ps[3]: Rat.sym('epoch'), ps[4]: T, ps[5]: Rat.sym('vcv')}
    val = ev1.call_function(f, args)
    orc = Oracle(ORACLE, base=repo, opaque=opq)
    To = orc.ev.symbolic_object(orc.repo.cls('geodepy.constants', 'Transformation'), 'T')
    ref = orc.call('c14', x=Rat.sym('x'), y=Rat.sym('y'), z=Rat.sym('z'), epoch=Rat.sym('epoch'), trans=To, vcv=Rat.sym('vcv'))
    check_equal(rep, 'R-WIRE', 'R-WIRE::geodepy/transform.py::conform14::result', w, val, ref,
                'conform14(x, y, z, epoch, trans, vcv) = conform7(x, y, z, trans + epoch, vcv)')
    # every conform7 call of conform14 receives the ADVANCED set.  A short cut that hands on the set as it is must be taken only where
    # advancing changes none of the seven parameters: the branch conditions of the call are evaluated with each rate in turn non-zero
    fastpath_rule(repo, rep, f, ev1, T)
    # type guards present
    guards = 0
    for st in f.node.body:
        if isinstance(st, ast.If) and any(isinstance(b, ast.Raise) for b in st.body):
            guards += 1
    key = 'R-GUARD::geodepy/transform.py::conform14::types'
    if guards >= 2:
        rep.holds('R-GUARD', key, w, 'type guards on the parameter set and on the epoch raise before the propagation')
    else:
        rep.undecided('R-GUARD', key, w, 'only %d raising type guards found' % guards)
    # the raising tests that look at the POINT: none may fire for coordinates of the domain - zero included (a pole, the equator, the
    # 0 / 90 / 180 / 270 degree meridians have a coordinate that is exactly 0)
    from .. import guards as _guards

    def _not_about_the_point(q_, cond_, node_):
        if not isinstance(cond_, Rat):
            return True
        names_ = set(alg.TABLE.atoms[k_].name for k_ in cond_.atoms(deep=True) if alg.TABLE.atoms[k_].kind == 'sym')
        return not (names_ & {'x', 'y', 'z'}) or bool(names_ - {'x', 'y', 'z', 'pi'})
    box_ = {'x': (-10000000, 10000000), 'y': (-10000000, 10000000), 'z': (-10000000, 10000000)}
    n_pt = _guards.guard_rule(rep, 'R-GUARD', f, ev1.raise_conds, box_, 'points with |x|, |y|, |z| up to 1e7 m in all octants, coordinate planes and axes included',
                              lambda nd: where(f, nd), skip=_not_about_the_point, suffix='[point]')
    if n_pt == 0:
        rep.holds('R-GUARD', 'R-GUARD::geodepy/transform.py::conform14::no-test-of-the-point', w, 'conform14 has no raising test of the coordinates')
    # 3. wrappers
    opq2 = {'conform14', 'Transformation.__neg__'}
    for fname, oname, what in (('transform_atrf2014_to_gda2020', 'atrf_fwd', 'the plate-motion set atrf2014_to_gda2020'),
                               ('transform_gda2020_to_atrf2014', 'atrf_rev', 'the negation of atrf2014_to_gda2020')):
        g = repo.func('geodepy.transform', fname)
        rep.analysed(g)
        ev2 = Evaluator(repo, opaque=opq2)
        gp = [p.name for p in g.params]
        v = ev2.call_function(g, {gp[0]: Rat.sym('x'), gp[1]: Rat.sym('y'), gp[2]: Rat.sym('z'), gp[3]: Rat.sym('epoch'), gp[4]: Rat.sym('vcv')})
        orc2 = Oracle(ORACLE, base=repo, opaque=opq2)
        r = orc2.call(oname, x=Rat.sym('x'), y=Rat.sym('y'), z=Rat.sym('z'), epoch=Rat.sym('epoch'), vcv=Rat.sym('vcv'))
        check_equal(rep, 'R-WIRE', 'R-WIRE::geodepy/transform.py::%s::result' % fname, where(g, g.node), v, r,
                    '%s = conform14 with %s, epoch and covariance forwarded' % (fname, what))
    # 3b. the wrappers at concrete epochs (exact constant folding, symbolic point): reference epoch, the same year, other years
    import datetime
    for fname, neg in (('transform_atrf2014_to_gda2020', False), ('transform_gda2020_to_atrf2014', True)):
        g = repo.func('geodepy.transform', fname)
        c14 = repo.func('geodepy.transform', 'conform14')
        for ymd in ((2020, 1, 1), (2020, 1, 2), (2020, 7, 1), (2020, 12, 31), (2019, 12, 31), (2000, 1, 1), (1994, 1, 1), (2059, 12, 31)):
            ev4 = Evaluator(repo)
            ev4.dates_are_typed = True
            o = datetime.date(*ymd).toordinal()
            ev4.dates[o] = ymd
            gp = [p.name for p in g.params]
            pt = {gp[0]: Rat.sym('x'), gp[1]: Rat.sym('y'), gp[2]: Rat.sym('z')}
            got = ev4.call_function(g, dict(pt, **{gp[3]: C(o), gp[4]: NONE}))
            T = ev4.global_value(repo.module('geodepy.constants'), 'atrf2014_to_gda2020')
            if neg:
                ncls = repo.cls('geodepy.constants', 'Transformation')
                T = ev4.call_function(ncls.methods['__neg__'], {'self': T})
            cp = [p.name for p in c14.params]
            ref = ev4.call_function(c14, {cp[0]: Rat.sym('x'), cp[1]: Rat.sym('y'), cp[2]: Rat.sym('z'), cp[3]: C(o), cp[4]: T, cp[5]: NONE})
            key = 'R-WIRE::geodepy/transform.py::%s::epoch=%04d-%02d-%02d' % ((fname,) + ymd)
            if isinstance(got, Tup) and isinstance(ref, Tup) and len(got.items) == 4 and len(ref.items) == 4:
                for i_, nm in enumerate('xyz'):
                    check_equal(rep, 'R-WIRE', key + '::' + nm, where(g, g.node), got.items[i_], ref.items[i_],
                                '%s at epoch %04d-%02d-%02d = conform14 with the %splate-motion set, coordinate %s' % ((fname,) + ymd + ('negated ' if neg else '', nm)))
            else:
                rep.undecided('R-WIRE', key, where(g, g.node), 'wrapper or conform14 does not evaluate to a 4-tuple at a concrete epoch')
    # 4. plate motion model
    ev3 = Evaluator(repo)
    m = repo.module('geodepy.constants')
    a = ev3.global_value(m, 'atrf2014_to_gda2020')
    b = ev3.global_value(m, 'itrf2014_to_gda2020')
    key = 'R-TABLE::geodepy/constants.py::plate-motion'
    wm = 'geodepy/constants.py:1'
    if not (isinstance(a, Obj) and isinstance(b, Obj)):
        raise AnalysisError('anchor vanished: atrf2014_to_gda2020 / itrf2014_to_gda2020')
    nonzero = [p for p in c11.PARAMS if not (isinstance(a.fields[p], Rat) and a.fields[p].is_zero())]
    diff = [p for p in c11.PARAMS + c11.RATES + ['ref_epoch'] if compare_values(a.fields[p], b.fields[p]) != 'equal']
    if nonzero:
        rep.violated('R-TABLE', key + '::zeros', wm, 'the plate-motion set is not the identity at its reference epoch: %s non-zero' % nonzero,
                     expected='tx=ty=tz=sc=rx=ry=rz=0', actual=str(nonzero))
    else:
        rep.holds('R-TABLE', key + '::zeros', wm, 'the seven parameters of atrf2014_to_gda2020 are literal zeros (identity at the reference epoch)')
    if diff:
        rep.violated('R-TABLE', key + '::same', wm, 'atrf2014_to_gda2020 and itrf2014_to_gda2020 differ in %s' % diff)
    else:
        rep.holds('R-TABLE', key + '::same', wm, 'atrf2014_to_gda2020 and itrf2014_to_gda2020 carry identical numbers and epoch')
    ep = ev3.dates.get(int(a.fields['ref_epoch'].as_fraction())) if isinstance(a.fields['ref_epoch'], Rat) and a.fields['ref_epoch'].as_fraction() is not None else None
    if ep == (2020, 1, 1):
        rep.holds('R-TABLE', key + '::epoch', wm, 'reference epoch 2020-01-01')
    else:
        rep.violated('R-TABLE', key + '::epoch', wm, 'plate-motion reference epoch is %s, not 2020-01-01' % (ep,))
    # 5b. conform14 and the wrappers keep no state between calls (a memo of the propagated set under a lossy key makes the result depend on the call history)
    from . import common
    common.state_rule(repo, rep, [('geodepy.transform', 'conform14'), ('geodepy.transform', 'transform_atrf2014_to_gda2020'), ('geodepy.transform', 'transform_gda2020_to_atrf2014')])
    # 5. __add__ is effect-free (the C09 analysis restricted to the constants module)
    pur = Purity(repo, ['geodepy.constants'])
    add = tcls.methods['__add__']
    key = 'R-PURE::geodepy/constants.py::Transformation.__add__'
    probs = []
    if pur.mut_self[id(add)] is not None:
        probs.append(pur.mut_self[id(add)][0])
    for pn, (site, path) in pur.mut_params[id(add)].items():
        probs.append(site)
    for site, path in pur.mut_global[id(add)]:
        probs.append(site)
    if probs:
        s = probs[0]
        rep.violated('R-PURE', key + '::' + s.target, s.where, 'epoch propagation writes to shared state: %s (repeated calls give different uncertainties)' % s.text,
                     expected='a new object for the propagated uncertainties', actual=s.text)
    else:
        rep.holds('R-PURE', key, where(add, add.node), '__add__ only writes to objects it creates')


def sd_rules(repo, rep):
    tcls = repo.cls('geodepy.constants', 'Transformation')
    scls = repo.cls('geodepy.constants', 'TransformationSD')
    add = tcls.methods['__add__']
    ev = Evaluator(repo)
    T = ev.symbolic_object(tcls, 'T')
    SD = ev.symbolic_object(scls, 'SD', origin='param:SD')
    T.fields['tf_sd'] = SD
    r = ev.call_function(add, {add.params[0].name: T, add.params[1].name: Rat.sym('epoch')})
    from ..symval import IteV
    guard = 0
    while isinstance(r, IteV) and guard < 4:
        guard += 1
        r = r.a if isinstance(r.a, Obj) else r.b
    w = where(add, add.node)
    base = 'R-FORMULA::geodepy/constants.py::Transformation.__add__::tf_sd::'
    if not isinstance(r, Obj) or not isinstance(r.fields.get('tf_sd'), Obj):
        rep.undecided('R-FORMULA', base + 'shape', w, 'the re-referenced set does not carry a TransformationSD object')
        return
    new = r.fields['tf_sd']
    if new is SD:
        rep.violated('R-FORMULA', base + 'fresh', w, 'the re-referenced set shares (and overwrites) the uncertainty object of its source')
    dt = (Rat.sym('epoch') - T.fields['ref_epoch']) / C(F(36525, 100))
    for p in c11.PARAMS:
        want = alg.power(SD.fields['sd_' + p].ipow(2) + (SD.fields['sd_d_' + p] * dt).ipow(2), C(F(1, 2)))
        check_equal(rep, 'R-FORMULA', base + 'sd_' + p, w, new.fields.get('sd_' + p), want,
                    'sigma of %s at the new epoch = sqrt(sd_%s^2 + (sd_d_%s * dt)^2)' % (p, p, p))
        check_equal(rep, 'R-FORMULA', base + 'sd_d_' + p, w, new.fields.get('sd_d_' + p), SD.fields['sd_d_' + p], 'rate sigma sd_d_%s passed on unchanged' % p)


RATES = ('d_tx', 'd_ty', 'd_tz', 'd_sc', 'd_rx', 'd_ry', 'd_rz')


def fastpath_rule(repo, rep, f, ev1, T):
    from .. import guards as G
    key = 'R-WIRE::geodepy/transform.py::conform14::advanced-set'
    ps = [p.name for p in repo.func('geodepy.transform', 'conform7').params]
    n = 0
    bad = []
    for (caller, callee, bound, node), path in zip(ev1.calls, ev1.call_paths):
        if caller != 'conform14' or callee != 'conform7':
            continue
        n += 1
        arg = bound.get(ps[3])
        if arg is not T:
            continue                # the result rule compares the argument with trans + epoch
        # the set itself is handed on: under which rates can this call be reached?
        ids = dict((r, _single_atom_id(T.fields.get(r))) for r in RATES)
        if any(v is None for v in ids.values()):
            bad.append((node, None, 'the rates of the symbolic set are not plain symbols'))
            continue
        free = []
        for r in RATES:
            for val in (F(1), F(-1, 1000)):
                env = dict((ids[q], F(0)) for q in RATES)
                env[ids[r]] = val
                vs = [G.numeval(c, env) if isinstance(c, Rat) else (F(1) if getattr(c, 'b', True) else F(0)) for c in path]
                if all(v is not None and v != 0 for v in vs):
                    free.append(r)
                    break
                if any(v is None for v in vs):
                    free.append(r + '?')
                    break
        if free:
            bad.append((node, free, None))
    if n == 0:
        rep.undecided('R-WIRE', key, where(f, f.node), 'conform14 makes no conform7 call')
        return
    if not bad:
        rep.holds('R-WIRE', key, where(f, f.node), 'every conform7 call of conform14 (%d) receives the advanced set, or the set itself only where all seven rates are zero' % n)
    for node, free, why in bad:
        if why:
            rep.undecided('R-WIRE', key, where(f, node), why)
        else:
            rep.violated('R-WIRE', key, where(f, node), 'conform7 is called with the set as it is (not advanced to the epoch) on a path that is taken although %s may be non-zero: '
                         'the parameter does not move with time there' % ', '.join(free), expected='conform7(x, y, z, trans + to_epoch, vcv)', actual=stmt_text(node)[:120])


def _single_atom_id(v):
    from ..symval import _single_atom
    if not isinstance(v, Rat):
        return None
    a = _single_atom(v)
    return a.id if a is not None and a.kind == 'sym' else None


def run(repo, rep):
    from ..symval import INPLACE_EVENTS
    from . import common
    del INPLACE_EVENTS[:]
    from ..symval import TRUNC_EVENTS
    del TRUNC_EVENTS[:]
    _run(repo, rep)
    # conform14 = epoch propagation, then conform7: the point formula of conform7 is part of what C07 states
    from . import c06
    c06.point_rule(repo, rep)
    # clause 2 quantifies over "every shipped parameter set" and its negation: the reverse-direction constants of the catalogue ARE the
    # negations users transform back with - each must carry exactly the negated parameters and rates of its forward partner
    from . import c11
    from ..symval import Evaluator as _Ev
    ev_c = _Ev(repo)
    ev_c.fold_const_types = True
    ev_c.dates_are_typed = True
    del c11.UNFOLDED[:]
    cat = c11.fold_catalogue(repo, ev_c)
    for name_, st_ in c11.UNFOLDED:
        rep.undecided('R-NEG', 'R-NEG::geodepy/constants.py::%s::unfolded' % name_, 'geodepy/constants.py:%d' % st_.lineno, 'the constant %s does not fold to a Transformation object' % name_)
    c11.reverse_rules(repo, rep, cat)
    rep.floor('R-NEG', 55, 'forward/reverse pairs of the catalogue')
    common.truncation_rule(repo, rep, 'R-TRUNC::geodepy/transform.py::epoch-handling', 'the ATRF wrappers, conform14 and the epoch propagation at the concrete epochs')
    # in-place array updates met while evaluating the functions above (element type follows the caller's numbers)
    common.dtype_rule(repo, rep, [('geodepy.transform', 'conform7'), ('geodepy.transform', 'conform14')])


def controls(repo):
    out = []
    src = repo.sources['geodepy/constants.py']

    def wrong_rate(fn):
        # ty advanced with the rate of tx
        def pred(n):
            return isinstance(n, ast.Attribute) and n.attr == 'd_ty' and isinstance(n.ctx, ast.Load)

        def make(n):
            n.attr = 'd_tx'
            return n
        substitute(fn, pred, make, limit=1, expect=1)
    out.append(('wrong-rate', repo.variant({'geodepy/constants.py': replace_in_function(src, 'Transformation.__add__', wrong_rate)}), '__add__::ty'))

    def year(fn):
        def pred(n):
            return isinstance(n, ast.Constant) and n.value == 365.25

        def make(n):
            return ast.Constant(value=365.0)
        substitute(fn, pred, make, limit=1, expect=1)
    out.append(('year-length', repo.variant({'geodepy/constants.py': replace_in_function(src, 'Transformation.__add__', year)}), '__add__::'))
    src2 = repo.sources['geodepy/transform.py']

    def no_neg(fn):
        def pred(n):
            return isinstance(n, ast.UnaryOp) and isinstance(n.op, ast.USub)

        def make(n):
            return n.operand
        substitute(fn, pred, make, limit=1, expect=1)
    out.append(('wrapper-direction', repo.variant({'geodepy/transform.py': replace_in_function(src2, 'transform_gda2020_to_atrf2014', no_neg)}), 'transform_gda2020_to_atrf2014'))
    return out
