"""C12 - angle-object arithmetic and comparison (angles.py operator overloads)."""
import ast
from fractions import Fraction as F
from .. import alg
from ..alg import Rat, C
from ..model import AnalysisError, stmt_text
from ..symval import Evaluator, Tup, Obj, NoneV, NONE, CallV, Bool, Ref, IteV, Str, _single_atom
from ..symcheck import Oracle, check_equal, compare_values, show
from ..rules import where
from ..mutate import replace_in_function, substitute, text_variant

META = {
    'level': 'other',
    'rule_text': 'rule instances: each binary / reflected / scalar operator of the five classes against "own notation of (dec(self) op dec(other))"; '
                 'the four comparisons of each class against the same comparison of the decimal values; operator-set completeness; negation, '
                 'absolute value and rounding by constant folding over every sign pattern (positive / negative, zero degrees, zero minutes)',
    'explanation': 'Static: every operator method is abstractly evaluated with the .dec() conversions and the notation constructors kept as '
                   'opaque call atoms and compared with the reference wiring; negation, abs and round are constant-folded over the finite set of '
                   'sign patterns the sign flag distinguishes. Decides operand order, operator identity, result class, and sign handling including '
                   'zero-degree angles. The 1e-8" figure and the floating-point behaviour of chained expressions are not decided; construction of '
                   'HP results depends on the validator agreement decided in C08.',
}

CLASSES = ['DECAngle', 'HPAngle', 'GONAngle', 'DMSAngle', 'DDMAngle']
BINOPS = {'__add__': ('+', False), '__radd__': ('+', True), '__sub__': ('-', False), '__rsub__': ('-', True)}
SCALAR = {'__mul__': ('*', False), '__rmul__': ('*', True), '__truediv__': ('/', False)}
MODS = {'__mod__': ('%', False)}
COMPS = {'__eq__': 'eq', '__ne__': 'ne', '__lt__': 'lt', '__gt__': 'gt'}

ORACLE = '''
from geodepy.angles import DECAngle, HPAngle, GONAngle, DMSAngle, DDMAngle, dec2hp, dec2gon, dec2dms, dec2ddm

def wrap(name, x):
    if name == 'DECAngle':
        return DECAngle(x)
    elif name == 'HPAngle':
        return HPAngle(dec2hp(x))
    elif name == 'GONAngle':
        return GONAngle(dec2gon(x))
    elif name == 'DMSAngle':
        return dec2dms(x)
    else:
        return dec2ddm(x)

def binary(name, op, a, b):
    if op == '+':
        return wrap(name, a + b)
    elif op == '-':
        return wrap(name, a - b)
    elif op == '*':
        return wrap(name, a * b)
    elif op == '/':
        return wrap(name, a / b)
    else:
        return wrap(name, a % b)
'''


def opaque_set(repo):
    m = repo.module('geodepy.angles')
    out = set(m.functions)
    for c in m.classes.values():
        for name, f in c.methods.items():
            if name in ('dec', 'hp', 'gon', 'rad', 'deca', 'hpa', 'gona', 'dms', 'ddm', '__init__'):
                out.add(f.qualname)
    return out


def operator_rules(repo, rep):
    m = repo.module('geodepy.angles')
    opq = opaque_set(repo)
    n = 0
    for cname in CLASSES:
        c = m.classes.get(cname)
        if c is None:
            raise AnalysisError('anchor vanished: angles.%s' % cname)
        table = dict(BINOPS)
        table.update(SCALAR)
        if cname in ('DMSAngle', 'DDMAngle'):
            table.update(MODS)
        for mname, (op, refl) in sorted(table.items()):
            f = c.methods.get(mname)
            key = 'R-WIRE::geodepy/angles.py::%s.%s' % (cname, mname)
            if f is None:
                rep.violated('R-DISPATCH', 'R-DISPATCH::geodepy/angles.py::%s.%s' % (cname, mname), 'geodepy/angles.py:1', '%s does not define %s' % (cname, mname))
                continue
            rep.analysed(f)
            n += 1
            scalar = mname in SCALAR or mname in MODS
            first = 'DMSAngle' if cname != 'DMSAngle' else 'GONAngle'
            # "in any mix": the other operand is taken from each of the five classes in turn (the historical key is kept for the first)
            for ocname in ([None] if scalar else [first] + [x_ for x_ in CLASSES if x_ != first]):
                ev = Evaluator(repo, opaque=opq)
                me = Obj(c, {}, origin='param:self')
                if scalar:
                    other = Rat.sym('k')
                else:
                    oc = m.classes[ocname]
                    other = Obj(oc, {}, origin='param:other')
                got = ev.call_function(f, {f.params[0].name: me, f.params[1].name: other})
                orc = Oracle(ORACLE, base=repo, opaque=opq)
                mo = orc.repo.module('geodepy.angles')
                a = CallV(alg.opaque('call:%s.dec' % cname, ('obj<param:self>',)), '%s.dec' % cname)
                if scalar:
                    b = Rat.sym('k')
                else:
                    b = CallV(alg.opaque('call:%s.dec' % oc.name, ('obj<param:other>',)), '%s.dec' % oc.name)
                x, y = (b, a) if refl else (a, b)
                want = orc.call('binary', name=Str(cname), op=Str(op), a=x, b=y)
                r = compare_values(got, want)
                w = where(f, f.node)
                key_ = key if (scalar or ocname == first) else key + '[%s]' % ocname
                desc = '%s.%s%s = %s of (%s %s %s)' % (cname, mname, '' if scalar else ' with a %s operand' % ocname, cname, 'other' if refl else 'dec(self)', op,
                                                     'dec(self)' if refl else ('k' if scalar else 'dec(other)'))
                if r == 'equal':
                    rep.holds('R-WIRE', key_, w, desc)
                elif r == 'different':
                    rep.violated('R-WIRE', key_, w, desc + ': the code computes something else', expected=show(want, 3, 300), actual=show(got, 3, 300))
                else:
                    rep.undecided('R-WIRE', key_, w, desc + ': forms differ but not definitely', expected=show(want, 3, 200), actual=show(got, 3, 200))
        for mname, cmp_ in sorted(COMPS.items()):
            f = c.methods.get(mname)
            key = 'R-WIRE::geodepy/angles.py::%s.%s' % (cname, mname)
            if f is None:
                rep.violated('R-DISPATCH', 'R-DISPATCH::geodepy/angles.py::%s.%s' % (cname, mname), 'geodepy/angles.py:1', '%s does not define %s' % (cname, mname))
                continue
            rep.analysed(f)
            n += 1
            first = 'DMSAngle' if cname != 'DMSAngle' else 'GONAngle'
            for ocname in [first] + [x_ for x_ in CLASSES if x_ != first]:
                ev = Evaluator(repo, opaque=opq)
                me = Obj(c, {}, origin='param:self')
                oc = m.classes[ocname]
                other = Obj(oc, {}, origin='param:other')
                got = ev.call_function(f, {f.params[0].name: me, f.params[1].name: other})
                a = alg.opaque('call:%s.dec' % cname, ('obj<param:self>',))
                b = alg.opaque('call:%s.dec' % oc.name, ('obj<param:other>',))
                want = {'eq': alg.opaque('eq', (a, b)), 'ne': alg.opaque('ne', (a, b)), 'lt': alg.opaque('lt', (a, b)), 'gt': alg.opaque('lt', (b, a))}[cmp_]
                w = where(f, f.node)
                r = compare_values(got, want)
                key_ = key if ocname == first else key + '[%s]' % ocname
                if r == 'equal':
                    rep.holds('R-WIRE', key_, w, '%s.%s compares dec(self) with dec(other) by %s (other: %s)' % (cname, mname, mname.strip('_'), ocname))
                else:
                    rep.violated('R-WIRE', key_, w, '%s.%s with a %s operand is not "dec(self) %s dec(other)": two angle objects are compared through their decimal degrees, whatever '
                                 'their notation (two HP doubles can differ and still be the same 13-decimal HP value)' % (cname, mname, ocname, mname.strip('_')),
                                 expected=show(want, 3, 200), actual=show(got, 3, 200))
    rep.floor('R-WIRE', 55, 'operators and comparisons of five classes')


def operator_value_table(repo, rep):
    """x + y and x - y for objects of every pair of classes, built from constant fields: the result denotes dec(x) +/- dec(y) and has the
    class of the LEFT operand.  Python's operator protocol is followed: a method that returns NotImplemented hands over to the reflected
    method of the right operand (whose result then has the right operand's class).  Constants fold exactly through the conversions."""
    m = repo.module('geodepy.angles')
    vals = {'a': {'DECAngle': [F(12575, 1000)], 'HPAngle': [F(12343, 1000)], 'GONAngle': [F(12575, 900)], 'DMSAngle': [12, 34, 30], 'DDMAngle': [12, F(345, 10)]},
            'b': {'DECAngle': [F(305, 10)], 'HPAngle': [F(303, 10)], 'GONAngle': [F(305, 9)], 'DMSAngle': [30, 30, 0], 'DDMAngle': [30, 30]}}
    da, db = F(12575, 1000), F(305, 10)

    def decval(ev, o):
        if not isinstance(o, Obj) or 'dec' not in o.cls.methods:
            return None
        r = ev.invoke(o.cls.methods['dec'], [o], {}, None)
        r = r.rat if isinstance(r, CallV) else r
        return r.as_fraction() if isinstance(r, Rat) else None
    for lc in CLASSES:
        if lc == 'HPAngle':
            continue
        for mname, refl, sign in (('__add__', '__radd__', 1), ('__sub__', '__rsub__', -1)):
            cls = m.classes.get(lc)
            f0 = cls.methods.get(mname) if cls is not None else None
            if f0 is None:
                continue
            key = 'R-TABLE::geodepy/angles.py::%s.%s::value-and-class' % (lc, mname)
            bad = None
            n_ok = 0
            for rc in CLASSES:
                if rc == 'HPAngle' or lc == 'HPAngle':
                    # the HP readers go through the decimal rendering of a double; with exact rational constants that path does not
                    # fold reliably - HP operands are left to the wiring rules above
                    continue
                ev = Evaluator(repo)
                ev.fold_const_types = True
                try:
                    x = ev.construct(cls, [C(v_) for v_ in vals['a'][lc]], {}, None)
                    y = ev.construct(m.classes[rc], [C(v_) for v_ in vals['b'][rc]], {}, None)
                    r = ev.invoke(f0, [x, y], {}, None)
                    handed_over = False
                    if not isinstance(r, Obj):
                        txt = str(getattr(getattr(r, 'target', None), 'name', '')) if isinstance(r, Ref) else (show(r, 2, 60) if r is not None else 'None')
                        if 'NotImplemented' in txt and refl in m.classes[rc].methods:
                            r = ev.invoke(m.classes[rc].methods[refl], [y, x], {}, None)
                            handed_over = True
                    got = decval(ev, r)
                except (AnalysisError, RecursionError, KeyError, TypeError, ZeroDivisionError):
                    continue
                want = da + sign * db
                if isinstance(r, Obj) and r.cls.name != lc and bad is None:
                    bad = (rc, 'the result is a %s%s' % (r.cls.name, ' (the method returns NotImplemented and Python hands over to %s.%s)' % (rc, refl) if handed_over else ''), 'class %s' % lc)
                elif got is not None and got != want and bad is None:
                    bad = (rc, 'the result denotes %.12g degrees' % float(got), '%.12g' % float(want))
                elif isinstance(r, Obj):
                    n_ok += 1
            if bad is not None:
                rc, what_, want_ = bad
                rep.violated('R-TABLE', key, where(f0, f0.node), '%s(12 34 30) %s %s(30 30 00): %s, expected %s - a binary operation gives the result of the decimal-degree operation in the '
                             'class of its LEFT operand' % (lc, '+' if sign > 0 else '-', rc, what_, want_), expected=want_, actual=what_)
            elif n_ok < 3:
                rep.undecided('R-TABLE', key, where(f0, f0.node), 'only %d of 5 operand classes fold' % n_ok)
            else:
                rep.holds('R-TABLE', key, where(f0, f0.node), '%s %s every class: value of the decimal operation, class of the left operand (%d operand classes)' % (lc, '+' if sign > 0 else '-', n_ok))


def dec_of(ev, o):
    c = o.cls
    return ev.call_function(c.methods['dec'], {'self': o})


def sign_rules(repo, rep):
    """negation, abs, round: constant folding over the sign patterns"""
    m = repo.module('geodepy.angles')
    samples = {
        'DECAngle': [(F(12345, 1000),), (F(-12345, 1000),), (F(0),), (F(-5, 10),)],
        'HPAngle': [(F(123015, 10000),), (F(-123015, 10000),), (F(0),), (F(-3, 10),)],
        'GONAngle': [(F(50),), (F(-50),), (F(0),), (F(-1, 2),)],
        'DMSAngle': [(12, 30, F(155, 10)), (-12, 30, F(155, 10)), (0, 30, F(155, 10)), (0, -30, F(155, 10)), (0, 0, F(155, 10)), (0, 0, F(-155, 10)), (0, 0, 0)],
        'DDMAngle': [(12, F(3025, 100)), (-12, F(3025, 100)), (0, F(3025, 100)), (0, F(-3025, 100)), (0, 0)],
    }
    for cname, lst in samples.items():
        c = m.classes[cname]
        for mname in ('__neg__', '__abs__', '__round__'):
            f = c.methods.get(mname)
            key = 'R-SIGN::geodepy/angles.py::%s.%s' % (cname, mname)
            if f is None:
                rep.violated('R-DISPATCH', 'R-DISPATCH::geodepy/angles.py::%s.%s' % (cname, mname), 'geodepy/angles.py:1', '%s does not define %s' % (cname, mname))
                continue
            rep.analysed(f)
            bad = []
            und = 0
            for args in lst:
                ev = Evaluator(repo, summaries={'hp2dec': lambda *a: NotImplemented})
                ev.fold_const_types = True
                ev.summaries['HPAngle.__init__'] = _hp_init
                ev.summaries['hp2dec'] = _hp2dec_const
                o = ev.construct(c, [C(a) for a in args], {}, None)
                d0 = dec_of(ev, o)
                if mname == '__round__':
                    r = ev.call_function(f, {'self': o, f.params[1].name: C(1)})
                else:
                    r = ev.call_function(f, {'self': o})
                if not isinstance(r, Obj) or r.cls is not c:
                    bad.append((args, 'result is not a %s' % cname))
                    continue
                d1 = dec_of(ev, r)
                v0 = d0.as_fraction() if isinstance(d0, Rat) else None
                v1 = d1.as_fraction() if isinstance(d1, Rat) else None
                if v0 is None or v1 is None:
                    und += 1
                    continue
                if mname == '__neg__' and v1 != -v0:
                    bad.append((args, 'dec(-a) = %s, dec(a) = %s' % (float(v1), float(v0))))
                if mname == '__abs__' and v1 != abs(v0):
                    bad.append((args, 'dec(abs(a)) = %s, dec(a) = %s' % (float(v1), float(v0))))
                if mname == '__round__':
                    unit = {'DECAngle': F(1), 'HPAngle': None, 'GONAngle': F(9, 10), 'DMSAngle': F(1, 3600), 'DDMAngle': F(1, 60)}[cname]
                    if unit is not None and abs(v1 - v0) > unit * F(1, 20) + F(1, 10 ** 12):
                        bad.append((args, 'round(a, 1) moved the angle by %s' % float(abs(v1 - v0))))
                    if unit is not None and (v1 > 0) != (v0 > 0) and v0 != 0 and v1 != 0:
                        bad.append((args, 'round(a, 1) changed the sign'))
            w = where(f, f.node)
            if bad:
                rep.violated('R-SIGN', key, w, '%s.%s is wrong for %s: %s' % (cname, mname, bad[0][0], bad[0][1]) + ('; %d more patterns' % (len(bad) - 1) if len(bad) > 1 else ''),
                             expected={'__neg__': 'dec(-a) == -dec(a)', '__abs__': 'dec(abs(a)) == |dec(a)|', '__round__': 'changes at most half a unit of the last place, keeps the sign'}[mname],
                             actual=str(bad[:3]))
            elif und:
                rep.undecided('R-SIGN', key, w, '%d of %d sign patterns did not fold to constants' % (und, len(lst)))
            else:
                rep.holds('R-SIGN', key, w, '%s holds for all %d sign patterns' % ({'__neg__': 'dec(-a) == -dec(a)', '__abs__': 'dec(abs(a)) == |dec(a)|',
                                                                                   '__round__': 'round(a, 1) moves the angle by at most half a unit and keeps the sign'}[mname], len(lst)))
    rep.floor('R-SIGN', 15, 'neg / abs / round of five classes')


def _hp_init(ev, func, args, node):
    """HPAngle(hp): the validation is C08's subject; keep the value"""
    o = Obj(func.cls, {'hp_angle': args.get('hp_angle', C(0))})
    return o


def _hp2dec_const(ev, func, args, node):
    """exact HP -> decimal for constant arguments (D.MMSSssss read as sexagesimal digits)"""
    v = args.get('hp')
    fr = v.as_fraction() if isinstance(v, Rat) else None
    if fr is None:
        return NotImplemented
    sign = -1 if fr < 0 else 1
    a = abs(fr)
    deg = int(a)
    rest = (a - deg) * 100
    mi = int(rest)
    sec = (rest - mi) * 100
    return C(sign * (F(deg) + F(mi, 60) + sec / 3600))


def completeness_rule(repo, rep):
    m = repo.module('geodepy.angles')
    sets = {}
    for cname in CLASSES:
        c = m.classes[cname]
        sets[cname] = set(n for n in c.methods if n.startswith('__') and n not in ('__init__', '__repr__', '__str__', '__int__', '__float__', '__mod__'))
    ref = sets['DMSAngle']
    key = 'R-DISPATCH::geodepy/angles.py::operator-sets'
    diff = dict((k, sorted(ref ^ v)) for k, v in sets.items() if ref ^ v)
    missing_mod = [cname for cname in ('DMSAngle', 'DDMAngle') if '__mod__' not in m.classes[cname].methods]
    if diff or missing_mod:
        rep.violated('R-DISPATCH', key, 'geodepy/angles.py:1', 'the five angle classes do not define the same operators: %s %s' % (diff, missing_mod),
                     expected=str(sorted(ref)), actual=str(diff))
    else:
        rep.holds('R-DISPATCH', key, 'geodepy/angles.py:1', 'all five classes define %s; DMS and DDM also define __mod__' % ', '.join(sorted(ref)))


def purity_rules(repo, rep):
    """operators, conversions and rounding never modify their operands (an expression may use an operand twice)"""
    from ..purity import Purity
    pur = Purity(repo, ['geodepy.angles'])
    n = 0
    for f in pur.funcs:
        if f.cls is None or f.name in ('__init__', '__new__'):
            continue
        n += 1
        key = 'R-PURE::geodepy/angles.py::%s' % f.qualname
        probs = []
        if pur.mut_self[id(f)] is not None:
            probs.append(pur.mut_self[id(f)][0])
        for pn, (site, path) in pur.mut_params[id(f)].items():
            probs.append(site)
        own = [s_ for s_ in probs if s_.func is f]
        if own:
            rep.violated('R-PURE', key + '::' + own[0].target, own[0].where, '%s modifies its operand in place (%s): an expression that uses the operand again sees the changed value' % (
                f.qualname, own[0].text[:80]), expected='a new angle object', actual=own[0].text[:120])
        else:
            rep.holds('R-PURE', key, where(f, f.node), 'does not modify its operands', work=bool(probs) or n % 10 == 0)
    rep.floor('R-PURE', 100, 'methods of the five angle classes')


def run(repo, rep):
    alg.reset()
    rep.trust('opaque call atoms for .dec() and the notation conversions; their own correctness is C08')
    rep.assume('HP validation inside HPAngle.__init__ is re-used from C08 (validator agreement, carry cascade)')
    operator_rules(repo, rep)
    completeness_rule(repo, rep)
    sign_rules(repo, rep)
    purity_rules(repo, rep)
    # construction of an HP result must not fail or be off by a degree: the rules of C08 that guard it
    from . import c08
    c08.carry_rule(repo, rep)
    c08.digit_rules(repo, rep)
    # a DMS / DDM result is built by dec2dms / dec2ddm from the decimal value of the operation: their field arithmetic (one product, two
    # divmods - the whole minutes and the seconds are cut from the SAME number) is part of what every operator returns
    c08.forms_rules(repo, rep)
    # the sign of a DMS / DDM result travels as a flag tested by identity: it must be handed on as True / False themselves
    from . import common
    common.identity_flag_rule(repo, rep, 'geodepy.angles')
    common.ctor_sign_table(repo, rep)
    # negation and absolute value on a lattice of DMS / DDM objects (zero degrees, whole minutes, a minutes field of 60)
    from . import c08 as _c08
    _c08.method_value_table(repo, rep)
    operator_value_table(repo, rep)
    # multiplication, division and modulo take "a number": not only the two builtin number types (numpy integers, 32-bit floats, Fractions)
    ops_ = []
    for cn_ in common.ANGLE_CLASSES:
        cls_ = repo.module('geodepy.angles').classes.get(cn_)
        for mn_ in ('__mul__', '__rmul__', '__truediv__', '__mod__', '__floordiv__'):
            if cls_ is not None and mn_ in cls_.methods:
                ops_.append(('geodepy.angles', '%s.%s' % (cn_, mn_)))
    common.numeric_type_rule(repo, rep, ops_)


def controls(repo):
    out = []
    src = repo.sources['geodepy/angles.py']

    def swap(fn):
        def pred(n):
            return isinstance(n, ast.BinOp) and isinstance(n.op, ast.Sub)

        def make(n):
            n.left, n.right = n.right, n.left
            return n
        substitute(fn, pred, make, limit=1, expect=1)
    out.append(('rsub-order', repo.variant({'geodepy/angles.py': replace_in_function(src, 'GONAngle.__rsub__', swap)}), 'GONAngle.__rsub__', operator_rules))

    def neg_zero(fn):
        # DDMAngle.__neg__ for a positive angle forgets the minutes' sign
        def pred(n):
            return isinstance(n, ast.UnaryOp) and isinstance(n.op, ast.USub) and isinstance(n.operand, ast.Attribute) and n.operand.attr == 'minute'

        def make(n):
            return n.operand
        substitute(fn, pred, make, limit=1, expect=1)
    out.append(('neg-zero-degree', repo.variant({'geodepy/angles.py': replace_in_function(src, 'DDMAngle.__neg__', neg_zero)}), 'DDMAngle.__neg__', sign_rules))
    return out
