"""C03 - geodetic <-> Cartesian (convert.llh2xyz, xyz2llh)."""
import ast
from .. import alg
from ..alg import Rat, C
from ..model import AnalysisError, stmt_text
from ..symval import Evaluator, Tup, _single_atom, IteV
from ..symcheck import Oracle, sym_ellipsoid, check_equal, leaves, show, compare_values
from ..rules import ThreadRule, where
from ..mutate import replace_in_function, substitute
from . import common

META = {
    'level': 'other',
    'rule_text': 'rule instances: the three Cartesian components of llh2xyz against the closed form on every branch; each branch guarded '
                 'by a special input value against the general branch specialised to that value; provenance (no module-level '
                 'ellipsoid constant); xyz2llh longitude, fixed-point map, height formula, stopping threshold; angle-argument conversion; defining constants of the shipped ellipsoids and class-derived quantities; statelessness with memo-key analysis; angular_typecheck dispatch per angle class',
    'explanation': 'Static: abstract evaluation of llh2xyz / xyz2llh to exact normal forms compared with the closed-form equations, '
                   'plus R-CONST / R-LEAVES provenance. Decides that every branch (including the latitude == 0 branch) computes the '
                   'closed form on the ellipsoid of the call, and that the inverse iterates the right fixed-point map and derives the height '
                   'from it. Does not decide convergence/conditioning of the iteration near the poles or the micrometre figures.',
}

ORACLE = '''
from math import sin, cos, sqrt, atan, atan2, radians, degrees

def to_cart(lat, lon, h, a, e2):
    phi = radians(lat)
    lam = radians(lon)
    nu = a / sqrt(1 - e2 * sin(phi) ** 2)
    x = (nu + h) * cos(phi) * cos(lam)
    y = (nu + h) * cos(phi) * sin(lam)
    z = (nu * (1 - e2) + h) * sin(phi)
    return x, y, z

def fixed_point(lat, x, y, z, a, e2):
    p = sqrt(x ** 2 + y ** 2)
    nu = a / sqrt(1 - e2 * sin(lat) ** 2)
    return atan((z + nu * e2 * sin(lat)) / p)

def height(lat, x, y, a, e2):
    p = sqrt(x ** 2 + y ** 2)
    nu = a / sqrt(1 - e2 * sin(lat) ** 2)
    return p / cos(lat) - nu

def z_at_fixed_point(lat, x, y, a, e2):
    # the latitude returned satisfies tan(lat) = (z + e2 nu sin(lat)) / p: at that latitude z is
    p = sqrt(x ** 2 + y ** 2)
    nu = a / sqrt(1 - e2 * sin(lat) ** 2)
    return p * sin(lat) / cos(lat) - e2 * nu * sin(lat)
'''


def special_value_ites(v):
    """ite atoms in v (deep) whose condition is  <affine in one free symbol> == constant"""
    out = []
    for k in sorted(v.atoms(deep=True)):
        a = alg.TABLE.atoms[k]
        if a.kind == 'fn' and a.name == 'ite' and isinstance(a.args[0], Rat):
            c = _single_atom(a.args[0])
            if c is not None and c.name in ('eq', 'ne') and all(isinstance(x, Rat) for x in c.args):
                out.append((a, c))
    return out


def solve_for_symbol(lhs, rhs):
    """lhs == rhs with (lhs - rhs) affine in exactly one free symbol -> (atom id, value) else None"""
    d = lhs - rhs
    syms = [k for k in d.atoms(deep=False) if alg.TABLE.atoms[k].kind == 'sym' and alg.TABLE.atoms[k].name != 'pi']
    if len(syms) != 1:
        return None
    s = syms[0]
    p = alg.diff(d, s)
    if s in p.atoms(deep=True) or p.is_zero():
        return None
    q = d - p * Rat.atom(alg.TABLE.atoms[s])
    if s in q.atoms(deep=True):
        return None
    return s, -q / p


def solve_all(lhs, rhs):
    """every (symbol id, value) with lhs == rhs: the affine case, and |affine| == value (both signs)"""
    one = solve_for_symbol(lhs, rhs)
    if one is not None:
        return [one]
    for a_, b_ in ((lhs, rhs), (rhs, lhs)):
        at = _single_atom(a_) if isinstance(a_, Rat) else None
        if at is not None and at.kind == 'fn' and at.name == 'abs' and isinstance(at.args[0], Rat):
            sols = [solve_for_symbol(at.args[0], b_), solve_for_symbol(at.args[0], -b_)]
            if all(x is not None for x in sols):
                return sols
    return []


def forward_rules(repo, rep):
    f = repo.func('geodepy.convert', 'llh2xyz')
    rep.analysed(f)
    w = where(f, f.node)
    ev = Evaluator(repo)
    E = sym_ellipsoid(ev, repo, 'ellipsoid')
    ps = [p.name for p in f.params]
    val = ev.call_function(f, {ps[0]: Rat.sym('lat'), ps[1]: Rat.sym('lon'), ps[2]: Rat.sym('h'), ps[3]: E})
    base = 'R-FORMULA::geodepy/convert.py::llh2xyz::'
    if not isinstance(val, Tup) or len(val.items) != 3:
        rep.undecided('R-FORMULA', base + 'shape', w, 'llh2xyz does not evaluate to a triple')
        return
    orc = Oracle(ORACLE)
    ref = orc.call('to_cart', lat=Rat.sym('lat'), lon=Rat.sym('lon'), h=Rat.sym('h'), a=E.fields['semimaj'], e2=E.fields['ecc1sq'])
    # branches guarded by a special input value must agree with the general branch at that value (R-SIBLING)
    general = list(val.items)
    n_special = 0
    seen = set()
    for comp, v in zip('xyz', val.items):
        if not isinstance(v, Rat):
            continue
        for a, c in special_value_ites(v):
            if a.id in seen:
                continue
            seen.add(a.id)
            n_special += 1
            sols = solve_all(c.args[0], c.args[1])
            key = 'R-SIBLING::geodepy/convert.py::llh2xyz::special-branch#%d' % n_special
            special, gen = (a.args[1], a.args[2]) if c.name == 'eq' else (a.args[2], a.args[1])
            if not sols:
                rep.undecided('R-SIBLING', key, w, 'branch condition %s is not <one input> == <value>' % alg.fmt(a.args[0]))
                continue
            for k_, (sid, value) in enumerate(sols):
                key_ = key if len(sols) == 1 else key + ('+' if k_ == 0 else '-')
                gen_at = alg.subst(gen, {sid: value})
                spec_at = alg.subst(special, {sid: value})
                r = alg.decide_equal(spec_at, gen_at)
                nm = alg.TABLE.atoms[sid].name
                if r == 'equal':
                    rep.holds('R-SIBLING', key_, w, 'the branch for %s == %s equals the general formula at that value' % (nm, alg.fmt(value)))
                elif r == 'different':
                    rep.violated('R-SIBLING', key_, w, 'the special branch taken when %s == %s does not agree with the general branch evaluated there' % (nm, alg.fmt(value)),
                                 expected=show(gen_at, 3, 300), actual=show(spec_at, 3, 300))
                else:
                    # not decided exactly (a root of a perfect square, ...): look for a point where the two take different values
                    from ..symcheck import _DefaultRanges
                    try:
                        wit = alg.numeric_witness(spec_at, gen_at, _DefaultRanges(), trials=8, rel=1e-9)
                    except Exception:
                        wit = None
                    if wit is not None:
                        pt, va, vb = wit
                        rep.violated('R-SIBLING', key_, w, 'the special branch taken when %s == %s does not agree with the general branch evaluated there: e.g. at %s it gives %.10g where the '
                                     'general formula gives %.10g' % (nm, alg.fmt(value), ', '.join('%s=%.5g' % kv for kv in sorted(pt.items())[:5]), va.real, vb.real),
                                     expected=show(gen_at, 3, 300), actual=show(spec_at, 3, 300))
                    else:
                        rep.undecided('R-SIBLING', key_, w, 'special branch for %s == %s: not decided exactly; no differing sample point found' % (nm, alg.fmt(value)))
    # the general branch (special-value conditions assumed false) against the closed form
    for i, comp in enumerate('xyz'):
        v = val.items[i]
        if isinstance(v, Rat):
            for a, c in special_value_ites(v):
                v = alg.assume(v, a.args[0], c.name != 'eq')
        check_equal(rep, 'R-FORMULA', base + comp, w, v, ref.items[i], '%s component = closed form on the ellipsoid of the call' % comp)
    rep.floor('R-FORMULA', 3, 'x, y, z')
    # provenance over all branches
    bad = []
    for comp, v in zip('xyz', val.items):
        for leaf in sorted(leaves(v)):
            if leaf.startswith('arg:'):
                if 'const:' in leaf:
                    bad.append((comp, leaf))
            elif not leaf.startswith(('lat', 'lon', 'h', 'pi', 'ellipsoid.')):
                bad.append((comp, leaf))
    # numeric constants that are not small integers betray a module constant folded into the result
    for comp, v in zip('xyz', val.items):
        if isinstance(v, Rat):
            for k in v.atoms(deep=True):
                a = alg.TABLE.atoms[k]
                if a.kind == 'fn':
                    for x in a.args:
                        if isinstance(x, Rat):
                            fr = x.as_fraction()
                            if fr is not None and abs(fr) > 1000:
                                bad.append((comp, 'numeric constant %s' % float(fr)))
    key = 'R-LEAVES::geodepy/convert.py::llh2xyz::x,y,z'
    if bad:
        rep.violated('R-LEAVES', key, w, 'a branch of llh2xyz uses values that do not come from the call\'s own ellipsoid: %s' % (
            ', '.join(sorted(set('%s<-%s' % b for b in bad)))[:300]), expected='leaves: lat, lon, h, ellipsoid.*', actual=str(sorted(set(bad))[:6]))
    else:
        rep.holds('R-LEAVES', key, w, 'every leaf of (x, y, z) on every branch is lat, lon, h or an attribute of the call\'s own ellipsoid')
    for p in f.params[:2]:
        common.angle_param_rule(rep, f, p.name)


def inverse_rules(repo, rep):
    f = repo.func('geodepy.convert', 'xyz2llh')
    rep.analysed(f)
    w = where(f, f.node)
    ev = Evaluator(repo)
    E = sym_ellipsoid(ev, repo, 'ellipsoid')
    ps = [p.name for p in f.params]
    val = ev.call_function(f, {ps[0]: Rat.sym('x'), ps[1]: Rat.sym('y'), ps[2]: Rat.sym('z'), ps[3]: E})
    base = 'R-FORMULA::geodepy/convert.py::xyz2llh::'
    if not isinstance(val, Tup) or len(val.items) != 3:
        rep.undecided('R-FORMULA', base + 'shape', w, 'xyz2llh does not evaluate to a triple')
        return
    lat, lon, h = val.items
    # (compared as a NUMBER, not modulo a turn: the property wants the representative in [-180, 180], which is the range of atan2)
    check_equal(rep, 'R-FORMULA', base + 'lon', w, lon, alg.degrees(alg.atan2(Rat.sym('y'), Rat.sym('x'))),
                'longitude = degrees(atan2(y, x)) (range [-180, 180] by the range of atan2)')
    loops = ev.loops.get(f.key, [])
    orc = Oracle(ORACLE)
    a, e2 = E.fields['semimaj'], E.fields['ecc1sq']
    if len(loops) == 0 and isinstance(lat, Rat):
        # a loop-free latitude: it must satisfy the geodetic equation p sin(phi) = (z + e^2 nu(phi) sin(phi)) cos(phi) itself.  The two sides
        # are evaluated at points of the property's range (heights to 40 000 km): a one-step approximation (Bowring) is off by 1e-9 .. 1e-8
        # of the radius there - centimetres - while an exact closed form agrees to rounding
        phi = lat * alg.pi() / C(180)
        X, Y, Z = Rat.sym('x'), Rat.sym('y'), Rat.sym('z')
        pp = alg.sqrt(X * X + Y * Y)
        nu = a / alg.sqrt(C(1) - e2 * alg.sin(phi) * alg.sin(phi))
        lhs = pp * alg.sin(phi)
        rhs = (Z + e2 * nu * alg.sin(phi)) * alg.cos(phi)
        rng = {'x': (1.0e6, 4.0e7), 'y': (1.0e6, 4.0e7), 'z': (1.0e6, 4.0e7)}
        for k_ in set(lhs.atoms(deep=True)) | set(rhs.atoms(deep=True)):
            at_ = alg.TABLE.atoms[k_]
            if at_.kind == 'sym' and at_.name not in rng and at_.name != 'pi':
                rng[at_.name] = (6.3e6, 6.4e6) if 'semimaj' in at_.name else ((280.0, 320.0) if 'inversef' in at_.name else (0.1, 0.9))
        try:
            wit = alg.numeric_witness(lhs, rhs, rng, trials=8, rel=1e-11)
        except RecursionError:
            wit = None
        if wit is not None:
            pt, va, vb = wit
            rep.violated('R-FORMULA', base + 'fixed-point', w, 'xyz2llh computes its latitude without iteration and the value does not satisfy the geodetic equation '
                         'p sin(phi) = (z + e^2 nu sin(phi)) cos(phi): at x=%.4g, y=%.4g, z=%.4g the two sides are %.12g and %.12g (relative %.1e) - a one-step approximation is good to '
                         'micrometres near the surface and off by millimetres to centimetres at the heights the property covers (to 40 000 km)' % (
                             pt.get('x', 0), pt.get('y', 0), pt.get('z', 0), va.real, vb.real, abs(va - vb) / max(abs(va), 1e-30)),
                         expected='the fixed point of tan(phi) = (z + e^2 nu sin(phi)) / p', actual='residual %.3g' % abs(va - vb))
        else:
            rep.undecided('R-FORMULA', base + 'fixed-point', w, 'xyz2llh computes its latitude without iteration; the geodetic equation holds at the sampled points, which proves nothing')
        return
    if len(loops) != 1:
        rep.undecided('R-FORMULA', base + 'fixed-point', w, 'expected exactly one iteration loop, found %d' % len(loops))
        return
    L = loops[0]
    # the carried variable whose final value is the returned latitude
    lat_rad = lat * alg.pi() / C(180) if isinstance(lat, Rat) else None
    var = None
    for v, s in L.pre.items():
        if lat_rad is not None and alg.decide_equal(lat_rad, s) == 'equal':
            var = v
    if var is None:
        rep.undecided('R-FORMULA', base + 'lat', w, 'returned latitude is not degrees(<iterated variable>): %s' % show(lat, 2, 200))
        return
    rep.holds('R-FORMULA', base + 'lat', w, 'latitude = degrees(%s) of the iterated value' % var)
    pre = L.pre[var]
    ref_step = orc.call('fixed_point', lat=pre, x=Rat.sym('x'), y=Rat.sym('y'), z=Rat.sym('z'), a=a, e2=e2)
    check_equal(rep, 'R-FORMULA', base + 'fixed-point', where(f, L.node), L.post.get(var), ref_step,
                'iteration map lat -> atan((z + nu e^2 sin lat)/p), nu = a/sqrt(1 - e^2 sin^2 lat) on the call\'s ellipsoid')
    ref_h = orc.call('height', lat=pre, x=Rat.sym('x'), y=Rat.sym('y'), a=a, e2=e2)
    # the height formulas in use (p/cos - nu, z/sin - (1-e2) nu, p cos + z sin - a^2/nu) are different functions of (p, z, lat) that agree
    # exactly where the latitude solves the fixed-point equation: the code's expression is compared there (z eliminated by that equation)
    zfp = orc.call('z_at_fixed_point', lat=pre, x=Rat.sym('x'), y=Rat.sym('y'), a=a, e2=e2)
    def at_fixed_point(v):
        if isinstance(v, IteV):
            return IteV(v.cond, at_fixed_point(v.a), at_fixed_point(v.b))
        if isinstance(v, Rat) and isinstance(zfp, Rat):
            return alg.subst(v, {alg.TABLE.sym('z').id: zfp})
        return v
    from ..symcheck import split_ite
    arms = split_ite(h)
    if arms is not None and len(arms) > 1:
        # several height formulas chosen by a condition: each arm must be the height at the fixed point
        for n_, (conds_, arm) in enumerate(arms):
            check_equal(rep, 'R-FORMULA', base + 'height#%d' % (n_ + 1), w, at_fixed_point(arm), ref_h,
                        'height (arm %d of %d, taken when %s) = p/cos(lat) - nu at the converged latitude' % (n_ + 1, len(arms), ' and '.join(('' if tv else 'not ') + show(c, 1, 60) for c, tv in conds_)))
    else:
        h_at = at_fixed_point(h)
        check_equal(rep, 'R-FORMULA', base + 'height', w, h_at, ref_h, 'height = p/cos(lat) - nu at the converged latitude (z eliminated with tan(lat) = (z + e^2 nu sin(lat))/p)')
    conditioning_of_height(rep, f, w, h, pre, a, e2)
    # stopping threshold
    key = 'R-BOUND::geodepy/convert.py::xyz2llh::threshold'
    thr = None
    for c in ast.walk(L.node.test) if isinstance(L.node, ast.While) else []:
        if isinstance(c, ast.Compare) and isinstance(c.comparators[0], ast.Constant) and isinstance(c.ops[0], (ast.Gt, ast.GtE)):
            thr = c.comparators[0].value
    if thr is None:
        rep.undecided('R-BOUND', key, where(f, L.node), 'no literal stopping threshold')
    elif thr > 1e-10:
        rep.violated('R-BOUND', key, where(f, L.node), 'latitude iteration stops at %s rad: looser than 1e-10 (0.02 mm needs about 3e-12 rad after the contraction factor e^2)' % thr,
                     expected='<= 1e-10', actual=str(thr))
    else:
        rep.holds('R-BOUND', key, where(f, L.node), 'latitude iteration stops at %s rad' % thr)
    # an iteration cap, where there is one, must leave room for convergence: the map contracts by about e^2 nu/(nu+h) <= 0.0067 per pass, the
    # start value atan(z (1+e'^2)/p) is off by up to 3e-3 rad at satellite heights: 0.0067^k * 3e-3 <= 3e-12 rad (0.02 mm) needs k = 5
    # passes, and one more for the test to see it
    key = 'R-BOUND::geodepy/convert.py::xyz2llh::cap'
    caps = []
    if isinstance(L.node, ast.While):
        for c in ast.walk(L.node.test):
            if isinstance(c, ast.Compare) and len(c.ops) == 1 and isinstance(c.comparators[0], ast.Constant) and isinstance(c.comparators[0].value, int) \
                    and isinstance(c.ops[0], (ast.Lt, ast.LtE)) and c.comparators[0].value >= 1:
                caps.append(c.comparators[0].value + (1 if isinstance(c.ops[0], ast.LtE) else 0))
    elif isinstance(L.node, ast.For):
        from . import vincenty as V
        V.module_consts(f.module)
        k_ = V.loop_cap(L.node)
        if isinstance(k_, int):
            caps.append(k_)
    if not caps:
        rep.holds('R-BOUND', key, where(f, L.node), 'the iteration runs until the threshold is met (no pass limit)')
    elif min(caps) < 6:
        rep.violated('R-BOUND', key, where(f, L.node), 'the latitude iteration is limited to %d passes: at satellite heights the start value is off by up to 3e-3 rad and each pass gains a '
                     'factor of about 150 (e^2), so 0.02 mm needs five passes plus the one that notices - with %d the result is up to 0.4 mm off at 2 000 km' % (min(caps), min(caps)),
                     expected='no limit, or at least 6 passes', actual=stmt_text(L.node.test) if isinstance(L.node, ast.While) else stmt_text(L.node.iter))
    else:
        rep.holds('R-BOUND', key, where(f, L.node), 'pass limit %d leaves room for convergence (6 needed)' % min(caps))
    bad = []
    for comp, v in zip(('lat', 'lon', 'h'), val.items):
        for leaf in sorted(leaves(v)):
            if leaf.startswith('arg:'):
                if 'const:' in leaf:
                    bad.append((comp, leaf))
            elif '@L' in leaf:
                continue
            elif not leaf.startswith(('x', 'y', 'z', 'pi', 'ellipsoid.')):
                bad.append((comp, leaf))
    for v in list(L.post.values()):
        for leaf in sorted(leaves(v)):
            if not (leaf.startswith(('x', 'y', 'z', 'pi', 'ellipsoid.')) or '@L' in leaf or leaf.startswith('arg:')):
                bad.append(('loop', leaf))
    key = 'R-LEAVES::geodepy/convert.py::xyz2llh::lat,lon,h'
    if bad:
        rep.violated('R-LEAVES', key, w, 'xyz2llh uses values that do not come from the call\'s own ellipsoid: %s' % sorted(set(bad))[:6])
    else:
        rep.holds('R-LEAVES', key, w, 'every leaf is x, y, z or an attribute of the call\'s own ellipsoid')


def math_pi_half():
    import math
    return math.pi / 2


def _den_ratio(v, pre, phi, conds):
    """|denominator of v| at latitude phi relative to mid latitude, provided the branch conditions select v at phi; None when not selected / not evaluable"""
    import math
    pid = [k for k in pre.atoms(deep=False)]
    if len(pid) != 1:
        return None
    forms_ = [v] + [c for c, tv in conds if isinstance(c, Rat)]
    ids = {}
    for r_ in forms_:
        for k in sorted(r_.atoms(deep=True)):
            at = alg.TABLE.atoms[k]
            if at.kind == 'sym':
                ids[at.name] = k

    def env_at(ph):
        env = {}
        for n, k in ids.items():
            if n == 'pi':
                continue
            if n.endswith('semimaj'):
                env[k] = 6378137.0
            elif n.endswith('ecc1sq'):
                env[k] = 0.00669438
            elif n.endswith('ecc2sq'):
                env[k] = 0.00673950
            elif n in ('x', 'y'):
                env[k] = 4.5e6 * math.cos(ph) + 1e-3
            elif n == 'z':
                env[k] = 6.3e6 * math.sin(ph) + 1e-3
            else:
                env[k] = 0.5
        env[pid[0]] = ph
        return env
    try:
        e1 = env_at(phi)
        for c, tv in conds:
            if isinstance(c, Rat) and (abs(alg.evalf(c, e1)) != 0.0) != tv:
                return None
        den = Rat(v.den, None, False)
        return abs(alg.evalf(den, e1)) / max(abs(alg.evalf(den, env_at(0.7))), 1e-300)
    except Exception:
        return None


def conditioning_of_height(rep, f, w, h, pre, a, e2):
    """the property covers every point off the rotation axis, up to 40 000 km: the height must not be formed as a quotient whose
    denominator vanishes inside that domain.  p/cos(lat) near the poles (z/sin(lat) near the equator) divides two quantities that both
    tend to zero; the latitude carries ~1e-16 rad of rounding, so the quotient carries R^2 * 1e-16 / p metres - millimetres within 200 m of
    the axis, metres at satellite height.  Decided on the code's own expression: its denominator is evaluated at the pole and at the
    equator, relative to its value at mid latitude."""
    import math
    key = 'R-COND::geodepy/convert.py::xyz2llh::height'
    from ..symcheck import split_ite
    forms = [(v, conds) for conds, v in (split_ite(h) or []) if isinstance(v, Rat)]
    if not forms or (not isinstance(h, (Rat, IteV))):
        rep.undecided('R-COND', key, w, 'height is not a numeric form')
        return
    if len(forms) > 1:
        # the height is chosen between several formulas: each is looked at where its own condition selects it
        bad = []
        for v, conds in forms:
            for where_, phi in (('at the poles (cos(lat) -> 0)', math_pi_half() - 1e-9), ('on the equator (sin(lat) -> 0)', 1e-9)):
                r_ = _den_ratio(v, pre, phi, conds)
                if r_ is not None and r_ < 1e-6:
                    bad.append(where_)
        if bad:
            rep.violated('R-COND', key, w, 'the height formula selected %s is a quotient whose denominator vanishes there: the branch condition picks, in each region, the formula that '
                         'is ill-conditioned in it (near the equator z/sin(lat) returns the height centimetres to metres off, exactly on it it raises ZeroDivisionError)' % ' and '.join(sorted(set(bad))),
                         expected='p/cos(lat) away from the poles, z/sin(lat) away from the equator - or a form without a vanishing denominator', actual=show(h, 2, 200))
        else:
            rep.holds('R-COND', key, w, 'each height formula is used only where its denominator stays away from zero')
        return
    h = forms[0][0]
    den = Rat(h.den, None, False) if hasattr(h, 'den') else None
    ids = {}
    for k in sorted(h.atoms(deep=True)):
        at = alg.TABLE.atoms[k]
        if at.kind == 'sym':
            ids[at.name] = k
    pid = [k for k in pre.atoms(deep=False)]
    if den is None or len(pid) != 1:
        rep.undecided('R-COND', key, w, 'denominator of the height not available')
        return

    def at_lat(phi):
        env = {}
        for n, k in ids.items():
            if n == 'pi':
                continue
            if n.endswith('semimaj'):
                env[k] = 6378137.0
            elif n.endswith('ecc1sq'):
                env[k] = 0.00669438
            elif n.endswith('ecc2sq'):
                env[k] = 0.00673950
            elif n in ('x', 'y'):
                env[k] = 4.0e6 * math.cos(phi) + 1.0
            elif n == 'z':
                env[k] = 6.0e6 * math.sin(phi) + 1.0
            else:
                env[k] = 0.5
        env[pid[0]] = phi
        return abs(alg.evalf(den, env))
    try:
        mid, pole, equ = at_lat(0.7), at_lat(math.pi / 2 - 1e-9), at_lat(1e-9)
    except Exception as e:
        rep.undecided('R-COND', key, w, 'denominator of the height could not be evaluated: %s' % e)
        return
    bad = []
    if pole < 1e-6 * mid:
        bad.append('at the poles (cos(lat) -> 0)')
    if equ < 1e-6 * mid:
        bad.append('on the equator (sin(lat) -> 0)')
    if bad:
        rep.violated('R-COND', key, w, 'the height is a quotient whose denominator vanishes %s, inside the property\'s domain: close to the rotation axis the result loses '
                     'its digits (xyz2llh(3.0, -4.0, -6356852.0) converts back 0.64 mm away, (0.3, 0.4, 6356852.0) 3.9 mm, (3, 4, 4.6e7) 8 mm; the tolerance is 0.02 mm)' % ' and '.join(bad),
                     expected='a form without a vanishing denominator, e.g. p cos(lat) + z sin(lat) - a sqrt(1 - e^2 sin^2(lat))', actual=show(h, 2, 200))
    else:
        rep.holds('R-COND', key, w, 'the denominator of the height expression stays away from zero at the poles and on the equator')


def run(repo, rep):
    alg.reset()
    from .. import symcheck as _sc
    _sc.set_ranges({'x': (1.0e6, 4.0e7), 'y': (1.0e6, 4.0e7), 'z': (1.0e6, 4.0e7), 'h': (-1.0e4, 4.0e7)})
    common.typecheck_rules(repo, rep)
    common.state_rule(repo, rep, [('geodepy.convert', 'llh2xyz'), ('geodepy.convert', 'xyz2llh')])
    common.ellipsoid_rules(repo, rep, projections=False)
    # observed through CoordCart.geo as well: the returned latitude / longitude must be of the type the coordinate classes accept
    common.float_result_rule(repo, rep, 'geodepy.convert', 'xyz2llh', (0, 1))
    rep.trust('sv/alg.py exact normal forms; generator independence modulo the rewrite rules applied')
    rep.trust('closed-form geodetic/Cartesian equations (GDA2020 technical manual section 4.1)')
    tr = ThreadRule(repo, rep)
    for q in ('llh2xyz', 'xyz2llh'):
        tr.check_const(repo.func('geodepy.convert', q))
    # the object wrappers named in the property's observe_at list must hand their ellipsoid on
    for q in ('CoordGeo.cart', 'CoordCart.geo'):
        tr.check_function(repo.func('geodepy.coord', q), roles=('ellipsoid',))
    forward_rules(repo, rep)
    inverse_rules(repo, rep)
    # the raising tests of both conversions as predicates over the property's input box (poles, equator and every octant included)
    common.domain_guards(repo, rep, 'geodepy.convert', 'llh2xyz', ['lat', 'lon', 'h'], {'lat': (-90, 90), 'lon': (-360, 360), 'h': (-10000, 40000000)},
                         'the quantifier of the property: latitude -90..90 (poles included), longitude -360..360, height -10 km..40 000 km')
    common.domain_guards(repo, rep, 'geodepy.convert', 'xyz2llh', ['x', 'y', 'z'], {'x': (-50000000, 50000000), 'y': (-50000000, 50000000), 'z': (-50000000, 50000000)},
                         'every octant of Cartesian space off the rotation axis')
    # the object wrappers of the observe_at list deliver these conversions unchanged (every notation of the result, heights, N value)
    from . import c15
    c15.delegation_rules(repo, rep, only=('CoordCart.geo', 'CoordGeo.cart'))


def controls(repo):
    out = []
    src = repo.sources['geodepy/convert.py']

    def z_wrong(fn):
        # z uses semimaj/semimin inverted
        def pred(n):
            return isinstance(n, ast.Attribute) and n.attr == 'semimin'

        def make(n):
            n.attr = 'semimaj'
            return n
        substitute(fn, pred, make, limit=1, expect=1)
    out.append(('z-component', repo.variant({'geodepy/convert.py': replace_in_function(src, 'llh2xyz', z_wrong)}), 'llh2xyz::z'))

    def ht(fn):
        def pred(n):
            return isinstance(n, ast.Attribute) and n.attr == 'ecc1sq'

        def make(n):
            n.attr = 'ecc2sq'
            return n
        substitute(fn, pred, make, limit=None)
    out.append(('second-eccentricity', repo.variant({'geodepy/convert.py': replace_in_function(src, 'xyz2llh', ht)}), 'xyz2llh::fixed-point'))
    return out
