"""helpers shared by several property modules"""
import ast
from .. import alg
from ..alg import Rat, C
from ..symval import _single_atom, IteV
from ..model import stmt_text, AnalysisError
from ..rules import where


def ite_parts(r):
    """(cond, a, b) when r is a single ite atom, else None"""
    a = _single_atom(r) if isinstance(r, Rat) else None
    if a is not None and a.kind == 'fn' and a.name == 'ite':
        return a.args
    return None


def fn_parts(r, name):
    a = _single_atom(r) if isinstance(r, Rat) else None
    if a is not None and a.kind == 'fn' and a.name == name:
        return a.args
    return None


def cond_mentions(cond, text):
    a = _single_atom(cond)
    if a is None:
        return False
    return any(isinstance(x, str) and text in x for x in a.args)


def split_on(r, text):
    """for r = ite(c, a, b) with c an (in)equality mentioning `text` (e.g. 'const:isg'): (when-true, when-false) else None"""
    p = ite_parts(r)
    if p is None:
        return None
    cond, a, b = p
    ca = _single_atom(cond)
    if ca is None or not cond_mentions(cond, text):
        return None
    if ca.name == 'eq':
        return a, b
    if ca.name == 'ne':
        return b, a
    return None


def affine_in(u, symname):
    """u = p*sym + q with p, q free of sym -> (p, q) else None"""
    a = alg.TABLE.syms.get(symname)
    if a is None:
        return None
    p = alg.diff(u, a.id)
    if a.id in p.atoms(deep=True):
        return None
    q = u - p * Rat.atom(a)
    if a.id in q.atoms(deep=True):
        return None
    return p, q


def zone_midpoint_check(zone, cm, P):
    """list of (sub, verdict, msg, expected, actual)"""
    out = []
    w = P.fields['zonewidth']
    # ------------------------------------------------------------------ UTM branch
    try:
        z_top = ite_parts(zone)                       # ite(int(zone)==0, auto, int(zone))
        auto = z_top[1] if z_top is not None else None
        auto_split = split_on(auto, 'const:isg') if auto is not None else None
        cm_split = split_on(cm, 'const:isg')
        if auto_split is None or cm_split is None:
            out.append(('utm', 'undecided', 'cannot isolate the UTM branch of the zone / central-meridian formulas', None, None))
        else:
            auto_utm, cm_utm = auto_split[1], cm_split[1]
            # a wrap of the zone number by a whole number of zones under a test (longitude +180 -> zone 1): the strip formula is the
            # unwrapped arm; that the wrapped value is a valid zone is decided on the lattice (zone_table_rule)
            wrap = ite_parts(auto_utm)
            if wrap is not None and isinstance(wrap[1], Rat) and isinstance(wrap[2], Rat):
                d_ = wrap[1] - wrap[2]
                if not any(alg.TABLE.atoms[k_].kind == 'sym' and alg.TABLE.atoms[k_].name == 'lon' for k_ in d_.atoms(deep=True)):
                    auto_utm = wrap[2]
            arg = fn_parts(auto_utm, 'int')
            shift = C(0)
            if arg is None:
                # zone = int(u) + c
                ints = [alg.TABLE.atoms[k] for k in auto_utm.atoms(deep=False) if alg.TABLE.atoms[k].kind == 'fn' and alg.TABLE.atoms[k].name == 'int']
                if len(ints) == 1:
                    rest = auto_utm - Rat.atom(ints[0])
                    if rest.as_fraction() is not None:
                        arg = ints[0].args
                        shift = rest
            if arg is None:
                out.append(('utm', 'undecided', 'automatic zone is not int(<affine in lon>)', None, alg.fmt(auto_utm)))
            else:
                u = arg[0]
                pq = affine_in(u, 'lon')
                zat = _single_atom(zone)
                if pq is None or zat is None:
                    out.append(('utm', 'undecided', 'zone quotient is not affine in lon', None, alg.fmt(u)))
                else:
                    p, q = pq
                    z = Rat.sym('z')
                    lo = (z - shift - q) / p
                    hi = (z - shift + C(1) - q) / p
                    mid = (lo + hi) * C(alg.Fraction(1, 2))
                    cm_of_z = alg.subst(cm_utm, {zat.id: z})
                    r = alg.decide_equal(mid, cm_of_z)
                    if r == 'equal':
                        out.append(('utm', 'holds', 'central meridian of zone z = midpoint of {lon: int(%s) = z} = %s' % (alg.fmt(u), alg.fmt(cm_of_z)), None, None))
                    elif r == 'different':
                        out.append(('utm', 'violated', 'the central meridian of zone z is not the midpoint of the longitudes the automatic zone formula maps to z',
                                    'midpoint %s' % alg.fmt(mid), 'central meridian %s' % alg.fmt(cm_of_z)))
                    else:
                        out.append(('utm', 'undecided', 'midpoint identity not decided', None, None))
    except Exception as e:     # structure not as expected: honest undecided
        out.append(('utm', 'undecided', 'zone formula structure not recognised (%s)' % e, None, None))
    # ------------------------------------------------------------------ ISG branch
    try:
        auto_isg = auto_split[0] if auto_split else None
        cm_isg = cm_split[0] if cm_split else None
        done = False
        if auto_isg is not None and cm_isg is not None:
            fs = None
            arg = fn_parts(auto_isg, 'int')
            if arg is not None and isinstance(arg[0], Rat):
                fs = fn_parts(arg[0], 'fstring')
            if fs is not None and len(fs) == 2 and all(isinstance(x, Rat) for x in fs):
                az, sz = fs
                az_arg = fn_parts(az, 'int')
                sz_arg = fn_parts(sz, 'int')
                if az_arg is not None and sz_arg is not None:
                    u = az_arg[0]
                    pq = affine_in(u, 'lon')
                    # subzone = int(3*(u - int(u)) + 1)
                    want = C(3) * (u - az) + C(1)
                    sub_ok = alg.decide_equal(sz_arg[0], want)
                    # cm as a function of the two digit groups read back from the zone number
                    ints = [alg.TABLE.atoms[k] for k in sorted(cm_isg.atoms(deep=False))
                            if alg.TABLE.atoms[k].kind == 'fn' and alg.TABLE.atoms[k].name == 'int']
                    grp = {}
                    for a in ints:
                        inner = fn_parts(a.args[0], 'getslice') if isinstance(a.args[0], Rat) else None
                        if inner is not None and ':2' in str(inner[1]).replace(' ', '') or (inner is not None and 'slice(:2:)' in str(inner[1])):
                            grp['az'] = a
                        inner2 = fn_parts(a.args[0], 'getitem') if isinstance(a.args[0], Rat) else None
                        if inner2 is not None and isinstance(inner2[1], Rat) and inner2[1].as_fraction() == 2:
                            grp['sz'] = a
                    if pq is not None and len(grp) == 2 and len(ints) == 2:
                        p, q = pq
                        z, s = Rat.sym('z'), Rat.sym('s')
                        third = C(alg.Fraction(1, 3))
                        lo = (z + (s - C(1)) * third - q) / p
                        hi = (z + s * third - q) / p
                        mid = (lo + hi) * C(alg.Fraction(1, 2))
                        cm_zs = alg.subst(cm_isg, {grp['az'].id: z, grp['sz'].id: s})
                        r = alg.decide_equal(mid, cm_zs)
                        done = True
                        if r == 'equal' and sub_ok == 'equal':
                            out.append(('isg', 'holds', 'ISG: central meridian of zone (z, sub-zone s) = midpoint of its longitude interval = %s' % alg.fmt(cm_zs), None, None))
                        elif r == 'different' or sub_ok == 'different':
                            out.append(('isg', 'violated', 'ISG central meridian / sub-zone formula is not the midpoint of the sub-zone interval',
                                        'midpoint %s; subzone int(%s)' % (alg.fmt(mid), alg.fmt(want)),
                                        'central meridian %s; subzone int(%s)' % (alg.fmt(cm_zs), alg.fmt(sz_arg[0]))))
                        else:
                            out.append(('isg', 'undecided', 'ISG midpoint identity not decided', None, None))
        if not done:
            out.append(('isg', 'undecided', 'ISG zone formula structure not recognised', None, None))
    except Exception as e:
        out.append(('isg', 'undecided', 'ISG zone formula structure not recognised (%s)' % e, None, None))
    return out


def angle_param_rule(rep, f, pname, rule='R-UNITS'):
    """every read of the angle parameter happens after (or inside) its conversion by angular_typecheck"""
    key = '%s::%s::%s::typecheck(%s)' % (rule, f.module.relpath, f.qualname, pname)
    converted_line = None
    first_bad = None
    for st in f.node.body:
        # conversion statement: p = ...angular_typecheck(p)...
        is_conv = False
        if isinstance(st, ast.Assign) and any(isinstance(t, ast.Name) and t.id == pname for t in st.targets):
            for c in ast.walk(st.value):
                if isinstance(c, ast.Call) and isinstance(c.func, ast.Name) and c.func.id == 'angular_typecheck' \
                        and c.args and isinstance(c.args[0], ast.Name) and c.args[0].id == pname:
                    is_conv = True
        loads = []
        for n in ast.walk(st):
            if isinstance(n, ast.Name) and n.id == pname and isinstance(n.ctx, ast.Load):
                loads.append(n)
        if is_conv and converted_line is None:
            # all loads must be inside the angular_typecheck call
            inside = set()
            for c in ast.walk(st.value):
                if isinstance(c, ast.Call) and isinstance(c.func, ast.Name) and c.func.id == 'angular_typecheck':
                    for n in ast.walk(c):
                        inside.add(id(n))
            if all(id(n) in inside for n in loads):
                converted_line = st.lineno
                continue
        if converted_line is None and loads:
            ok = True
            inside = set()
            for c in ast.walk(st):
                if isinstance(c, ast.Call) and isinstance(c.func, ast.Name) and c.func.id in ('angular_typecheck', 'type', 'isinstance'):
                    for n in ast.walk(c):
                        inside.add(id(n))
            for n in loads:
                if id(n) not in inside:
                    ok = False
            if not ok and first_bad is None:
                first_bad = st
    w = where(f, f.node)
    if first_bad is not None:
        rep.violated(rule, key, where(f, first_bad), 'parameter %s is used before it is converted by angular_typecheck: an angle object would reach float arithmetic (%s)' % (
            pname, stmt_text(first_bad)[:120]), expected='%s = angular_typecheck(%s) before any use' % (pname, pname), actual=stmt_text(first_bad)[:200])
    elif converted_line is None:
        # every use is directly inside angular_typecheck(...) calls
        rep.holds(rule, key, w, 'every read of %s is an argument of angular_typecheck' % pname)
    else:
        rep.holds(rule, key, w, '%s is converted by angular_typecheck (line %d) before any other use' % (pname, converted_line))


ELLIPSOIDS = {'grs80': (6378137, '298.257222101', 'EPSG 7019'), 'wgs84': (6378137, '298.257223563', 'EPSG 7030'),
              'ans': (6378160, '298.25', 'EPSG 7003'), 'intl24': (6378388, '297', 'EPSG 7022')}
PROJECTIONS = {'utm': (500000, 10000000, '0.9996', 6, -177), 'isg': (300000, 5000000, '0.99994', 2, -177)}


def ellipsoid_rules(repo, rep, projections=False):
    """the shipped ellipsoids carry their defining constants (semi-major axis, inverse flattening) and the class derives the rest correctly"""
    from fractions import Fraction as F
    from ..symval import Evaluator, Obj
    from ..symcheck import check_equal
    m = repo.module('geodepy.constants')
    ev = Evaluator(repo)
    wm = 'geodepy/constants.py:1'
    for name, (a, invf, src) in sorted(ELLIPSOIDS.items()):
        o = ev.global_value(m, name)
        key = 'R-TABLE::geodepy/constants.py::%s' % name
        if not isinstance(o, Obj):
            rep.undecided('R-TABLE', key, wm, 'constant %s is not an Ellipsoid object' % name)
            continue
        ga, gf = o.fields.get('semimaj'), o.fields.get('inversef')
        fa = ga.as_fraction() if isinstance(ga, Rat) else None
        ff = gf.as_fraction() if isinstance(gf, Rat) else None
        if fa == F(a) and ff == F(invf):
            rep.holds('R-TABLE', key, wm, '%s: a = %d m, 1/f = %s (%s)' % (name, a, invf, src))
        else:
            rep.violated('R-TABLE', key, wm, '%s is defined with a = %s, 1/f = %s; its defining constants are a = %d, 1/f = %s (%s)' % (
                name, float(fa) if fa is not None else ga, float(ff) if ff is not None else gf, a, invf, src), expected='%d, %s' % (a, invf), actual='%s, %s' % (fa, ff))
    # derived quantities of the class, symbolically
    cls = m.classes.get('Ellipsoid')
    if cls is not None:
        A, I = Rat.sym('a'), Rat.sym('invf')
        o = ev.construct(cls, [A, I], {}, None)
        f = C(1) / I
        e2 = f * (C(2) - f)
        want = {'f': f, 'semimin': A * (C(1) - f), 'ecc1sq': e2, 'ecc2sq': e2 / (C(1) - e2), 'n': f / (C(2) - f), 'n2': (f / (C(2) - f)).ipow(2),
                'ecc1': alg.sqrt(e2), 'meanradius': (C(2) * A + A * (C(1) - f)) / C(3)}
        init = cls.init()
        for k, w_ in sorted(want.items()):
            if k in o.fields:
                check_equal(rep, 'R-TABLE', 'R-TABLE::geodepy/constants.py::Ellipsoid.%s' % k, where(init, init.node), o.fields[k], w_,
                            'Ellipsoid.%s derived from the semi-major axis and the inverse flattening' % k)
    if projections:
        pcls = m.classes.get('Projection')
        if pcls is not None and pcls.init() is not None:
            # the class stores what it is given - for every value, zero included (a false origin of 0 m, a central meridian of 0 degrees)
            names = ('falseeast', 'falsenorth', 'cmscale', 'zonewidth', 'initialcm')
            pinit = pcls.init()
            pnames = [p.name for p in pinit.params if p.name != 'self']
            args = dict((n, Rat.sym('P.' + n)) for n in pnames)
            try:
                o = ev.construct(pcls, [], dict(args), None)
            except Exception:
                o = None
            for n in names:
                key = 'R-TABLE::geodepy/constants.py::Projection.%s' % n
                if o is None or n not in getattr(o, 'fields', {}) or n not in args:
                    rep.undecided('R-TABLE', key, where(pinit, pinit.node), 'Projection(%s=...) could not be evaluated symbolically' % n)
                else:
                    check_equal(rep, 'R-TABLE', key, where(pinit, pinit.node), o.fields[n], args[n], 'Projection.%s is the constructor argument, whatever its value' % n)
        for name, vals in sorted(PROJECTIONS.items()):
            o = ev.global_value(m, name)
            key = 'R-TABLE::geodepy/constants.py::%s' % name
            if not isinstance(o, Obj):
                rep.undecided('R-TABLE', key, wm, 'constant %s is not a Projection object' % name)
                continue
            got = [o.fields.get(k) for k in ('falseeast', 'falsenorth', 'cmscale', 'zonewidth', 'initialcm')]
            gf = [g.as_fraction() if isinstance(g, Rat) else None for g in got]
            if gf == [F(v) for v in vals]:
                rep.holds('R-TABLE', key, wm, '%s: false easting %s, false northing %s, k0 %s, zone width %s, first central meridian %s' % ((name,) + vals))
            else:
                rep.violated('R-TABLE', key, wm, '%s is defined as %s; the grid is defined by %s' % (name, [float(x) if x is not None else None for x in gf], list(vals)),
                             expected=str(list(vals)), actual=str(gf))




def dtype_rule(repo, rep, funcs, helpers=False):
    """numpy updates an array in place in the array's own dtype.  An array built with np.array(...) from the caller's numbers alone is an
    integer array whenever those numbers are integers: `a += <float>` then raises (same-kind casting) and `a[i] = <float>` truncates.
    The evaluator records every in-place update of such an array it meets; here the ones inside `funcs` are reported.  Call after the
    property's evaluations."""
    from ..symval import INPLACE_EVENTS
    from ..symcheck import show
    for mod, q in funcs:
        f = repo.func(mod, q)
        key = 'R-DTYPE::%s::%s::in-place' % (f.module.relpath, q)
        seen = set()
        bad = []
        for fn, node, kind, arr, val in INPLACE_EVENTS:
            if fn is None or getattr(fn, 'qualname', None) != q or getattr(fn.module, 'name', None) != mod:
                continue
            txt = stmt_text(node)[:100]
            if txt in seen:
                continue
            seen.add(txt)
            bad.append((node, kind, txt, arr, val))
        if not bad:
            rep.holds('R-DTYPE', key, where(f, f.node), 'no in-place update of an array whose element type follows the caller\'s numbers')
        for node, kind, txt, arr, val in bad:
            rep.violated('R-DTYPE', key, where(f, node), '`%s` updates in place an array built from the caller\'s numbers alone (%s): with integer arguments it is an '
                         'integer array, and %s' % (txt, show(arr, 1, 80), 'adding a non-integer value to it in place raises a casting error' if kind == 'aug'
                                                    else 'the stored value is truncated to an integer'),
                         expected='a new array (a = a + b) or an explicit float dtype', actual=txt)
    if helpers:
        # the same events inside functions the listed ones call (a shared helper that rotates "in place")
        listed = set((mod, q) for mod, q in funcs)
        seen = set()
        for fn, node, kind, arr, val in INPLACE_EVENTS:
            if fn is None or not hasattr(fn, 'module') or (getattr(fn.module, 'name', None), getattr(fn, 'qualname', None)) in listed:
                continue
            if not getattr(fn.module, 'name', '').startswith('geodepy'):
                continue
            txt = stmt_text(node)[:100]
            if (fn.qualname, txt) in seen:
                continue
            seen.add((fn.qualname, txt))
            rep.violated('R-DTYPE', 'R-DTYPE::%s::%s::in-place' % (fn.module.relpath, fn.qualname), where(fn, node), '`%s` (in %s, called from the functions of this property) updates in '
                         'place an array built from the caller\'s numbers alone (%s): with integer arguments it is an integer array and the stored value is truncated to an integer - '
                         'a vector (1200, -3400, 56) comes back as whole numbers' % (txt, fn.qualname, show(arr, 1, 80)), expected='a new array or an explicit float dtype', actual=txt)


def mutable_default_rule(repo, rep, modnames):
    """a default value is evaluated once, at definition: a mutable one ({} / [] / set()) is shared by every call that leaves the argument out.
    It is harmless while the function only reads it; stored on an object, returned, or updated, it becomes state shared between calls and
    between objects (two grids read one after the other share one dict of sub-grids).  One instance per function with such a default."""
    n = 0
    for mn in modnames:
        m = repo.module(mn)
        for f in m.all_functions():
            for p in f.params:
                d = p.default
                mutable = isinstance(d, (ast.Dict, ast.List, ast.Set, ast.ListComp, ast.DictComp, ast.SetComp)) or (
                    isinstance(d, ast.Call) and isinstance(d.func, ast.Name) and d.func.id in ('dict', 'list', 'set', 'bytearray', 'defaultdict', 'OrderedDict'))
                if not mutable:
                    continue
                n += 1
                key = 'R-PURE::%s::%s::default(%s)' % (m.relpath, f.qualname, p.name)
                leak = None
                for node in ast.walk(f.node):
                    if isinstance(node, ast.Assign) and any(isinstance(x, ast.Name) and x.id == p.name for x in ast.walk(node.value)) \
                            and any(isinstance(t, (ast.Attribute, ast.Subscript)) for t in node.targets):
                        leak = (node, 'is stored on an object (`%s`)' % stmt_text(node)[:70])
                    elif isinstance(node, ast.Return) and node.value is not None and any(isinstance(x, ast.Name) and x.id == p.name for x in ast.walk(node.value)):
                        leak = leak or (node, 'is returned to the caller')
                    elif isinstance(node, (ast.Assign, ast.AugAssign)):
                        tg = node.targets if isinstance(node, ast.Assign) else [node.target]
                        for t in tg:
                            b_ = t
                            while isinstance(b_, (ast.Subscript, ast.Attribute)):
                                b_ = b_.value
                            if b_ is not t and isinstance(b_, ast.Name) and b_.id == p.name:
                                leak = leak or (node, 'is updated in place (`%s`)' % stmt_text(node)[:70])
                    elif isinstance(node, ast.Call) and isinstance(node.func, ast.Attribute) and isinstance(node.func.value, ast.Name) and node.func.value.id == p.name \
                            and node.func.attr in ('append', 'extend', 'insert', 'pop', 'remove', 'clear', 'update', 'setdefault', 'add', 'discard', 'sort', 'reverse', 'popitem'):
                        leak = leak or (node, 'is updated in place (`%s`)' % stmt_text(node)[:70])
                if leak is None:
                    rep.holds('R-PURE', key, where(f, f.node), 'the mutable default of %s is only read' % p.name)
                else:
                    rep.violated('R-PURE', key, where(f, leak[0]), 'the default value of parameter %s of %s is one %s object created at definition time and shared by every call that '
                                 'omits the argument; it %s: later calls and other objects see what earlier ones put there' % (
                                     p.name, f.qualname, type(d).__name__.lower() if not isinstance(d, ast.Call) else d.func.id, leak[1]),
                                 expected='%s=None and a new object per call' % p.name, actual='%s=%s' % (p.name, stmt_text(d)[:40]))
    if n == 0:
        rep.holds('R-PURE', 'R-PURE::%s::no-mutable-defaults' % '+'.join(modnames), '%s:1' % repo.module(modnames[0]).relpath,
                  'no function of %s has a mutable default argument' % ', '.join(modnames))
    # the same sharing through the class body: `class C: items = {}` is ONE dict for every instance that does not assign its own in __init__
    nclass = 0
    for mn in modnames:
        m = repo.module(mn)
        for cname, cls in sorted(m.classes.items()):
            for st in cls.node.body:
                if not (isinstance(st, ast.Assign) and len(st.targets) == 1 and isinstance(st.targets[0], ast.Name)):
                    continue
                d = st.value
                if not (isinstance(d, (ast.Dict, ast.List, ast.Set)) or (isinstance(d, ast.Call) and isinstance(d.func, ast.Name) and d.func.id in ('dict', 'list', 'set', 'defaultdict', 'OrderedDict'))):
                    continue
                attr = st.targets[0].id
                nclass += 1
                key = 'R-PURE::%s::%s::class-attribute(%s)' % (m.relpath, cname, attr)
                init = cls.methods.get('__init__')
                own = init is not None and any(isinstance(x, ast.Assign) and any(isinstance(t, ast.Attribute) and t.attr == attr and isinstance(t.value, ast.Name) and t.value.id == 'self'
                                                                                 for t in x.targets) for x in ast.walk(init.node))
                writes = []
                for mn2 in modnames:
                    for g in repo.module(mn2).all_functions():
                        for x in ast.walk(g.node):
                            tg = []
                            if isinstance(x, ast.Assign):
                                tg = x.targets
                            elif isinstance(x, ast.AugAssign):
                                tg = [x.target]
                            for t in tg:
                                if isinstance(t, ast.Subscript) and isinstance(t.value, ast.Attribute) and t.value.attr == attr:
                                    writes.append((g, x))
                            if isinstance(x, ast.Call) and isinstance(x.func, ast.Attribute) and isinstance(x.func.value, ast.Attribute) and x.func.value.attr == attr \
                                    and x.func.attr in ('append', 'extend', 'insert', 'pop', 'remove', 'clear', 'update', 'setdefault', 'add', 'discard', 'popitem'):
                                writes.append((g, x))
                if own or not writes:
                    rep.holds('R-PURE', key, '%s:%d' % (m.relpath, st.lineno), 'class-level container %s.%s is %s' % (cname, attr, 'replaced by an own one in __init__' if own else 'never updated'))
                else:
                    g, x = writes[0]
                    rep.violated('R-PURE', key, where(g, x), '%s.%s is a container created once in the class body and shared by every instance (no `self.%s = ...` in __init__); '
                                 '`%s` in %s updates it through one instance: every other %s sees the entries (a second grid read from file rewrites the first one\'s table)' % (
                                     cname, attr, attr, stmt_text(x)[:60], g.qualname, cname), expected='self.%s = {} in __init__' % attr, actual='%s = %s in the class body' % (attr, stmt_text(d)[:20]))

# Integrated Survey Grid (NSW): zones 54, 55, 56 with sub-zones 1-3 and zone 57 sub-zone 2, written zone*10 + sub-zone
ISG_ZONES = (541, 542, 543, 551, 552, 553, 561, 562, 563, 572)




def division_rule(repo, rep, funcs, ranges, excepted=None, families=()):
    """no division of the property's functions has a denominator that is exactly zero at a point of the domain where the division is
    reached.  Candidate points are the special positions of the input box: one input exactly 0, two inputs exactly 0, two inputs of one
    family equal (lat1 = lat2, east1 = east2, ...), everything else in the middle of its range; the denominator form and the branch
    conditions of the division are evaluated there (a witness search; exact zero of the float value, conditions all true).
    funcs: [(module, qualname)]; ranges: {symbol: (lo, hi)} - a symbol whose range excludes 0 is never set to 0;
    excepted: {(qualname, statement text prefix): reason} for divisions the quantifier itself keeps away from the zero (triaged by reading);
    families: tuples of symbols that may coincide."""
    from ..symval import DIV_EVENTS
    from ..symcheck import _DefaultRanges
    excepted = excepted or {}
    rng = _DefaultRanges()

    def rg(n):
        return ranges[n] if n in ranges else rng[n]
    for mod, q in funcs:
        f = repo.func(mod, q)
        key = 'R-DIV::%s::%s::denominators' % (f.module.relpath, q)
        seen = set()
        found = []
        nsites = 0
        for fn, node, den, path, ev_ in DIV_EVENTS:
            if fn is None or getattr(fn, 'qualname', None) != q or getattr(fn.module, 'name', None) != mod:
                continue
            txt = stmt_text(node)[:80]
            sig = (txt, alg.fmt(den, 1)[:200] if hasattr(alg, 'fmt') else txt)
            if sig in seen:
                continue
            seen.add(sig)
            nsites += 1
            forms = [den] + [c for c in path if isinstance(c, Rat)]
            ids = set()
            for r_ in forms:
                ids |= set(r_.atoms(deep=True))
            syms = sorted((alg.TABLE.atoms[k].name, k) for k in ids if alg.TABLE.atoms[k].kind == 'sym' and alg.TABLE.atoms[k].name != 'pi')
            if any('@L' in n for n, k in syms) or len(syms) > 12:
                continue                # inside an iteration: not decided here
            names = [n for n, k in syms]
            mid = dict((k, (rg(n)[0] + rg(n)[1]) / 2.0 + 0.123 * (rg(n)[1] - rg(n)[0]) * ((j % 3) - 1) / 3.0) for j, (n, k) in enumerate(syms))
            zeroable = [(n, k) for n, k in syms if rg(n)[0] <= 0 <= rg(n)[1]]
            cands = []
            for n, k in zeroable:
                cands.append({k: 0.0})
            for i1 in range(len(zeroable)):
                for i2 in range(i1 + 1, len(zeroable)):
                    cands.append({zeroable[i1][1]: 0.0, zeroable[i2][1]: 0.0})
            byname = dict(syms)
            allfam = {}
            for fam in families:
                present = [n for n in fam if n in byname]
                for i1 in range(len(present)):
                    for i2 in range(i1 + 1, len(present)):
                        cands.append({byname[present[i2]]: mid[byname[present[i1]]]})
                        if byname[present[i2]] not in allfam and byname[present[i1]] not in allfam:
                            allfam[byname[present[i2]]] = mid[byname[present[i1]]]
            if len(allfam) > 1:
                cands.append(dict(allfam))          # every family coincident at once (same zone AND same easting, ...)
                for k_ in list(allfam):
                    for k2_ in list(allfam):
                        if k_ < k2_:
                            cands.append({k_: allfam[k_], k2_: allfam[k2_]})
            for cand in cands:
                env = dict(mid)
                env.update(cand)
                try:
                    v = alg.evalf(den, env)
                    if abs(v) != 0.0:
                        continue
                    if all(abs(alg.evalf(c, env)) != 0.0 for c in path if isinstance(c, Rat)) and not any(getattr(c, 'b', True) is False for c in path):
                        found.append((node, txt, dict((n, env[k]) for n, k in syms)))
                        break
                except Exception:
                    continue
        bad = [(node, txt, pt) for node, txt, pt in found if not any(q == eq and txt.startswith(et) for (eq, et) in excepted)]
        for node, txt, pt in found:
            for (eq, et), why in excepted.items():
                if q == eq and txt.startswith(et):
                    rep.holds('R-DIV', key + '::' + txt[:40], where(f, node), 'excepted: %s' % why)
        if not bad:
            rep.holds('R-DIV', key, where(f, f.node), 'none of the %d division sites of %s has a denominator that is exactly zero at a special point of the domain where it is reached' % (nsites, q))
        for node, txt, pt in bad:
            rep.violated('R-DIV', key + '::' + txt[:40], where(f, node), '`%s` divides by a quantity that is exactly zero inside the domain: at %s the division is reached and raises ZeroDivisionError' % (
                txt, ', '.join('%s=%.6g' % kv for kv in sorted(pt.items())[:8])), expected='a denominator that cannot vanish, or a guard', actual=txt)




def cancellation_rule(repo, rep, funcs):
    """a denominator spelled `1 - X**2` (resolved through local names) is computed by cancellation: where |X| reaches 1 inside the domain it
    is exactly zero (1 - 1.0**2), the division raises, and next to it all digits are lost.  (cos(asin(X))**2 - the other spelling - never
    is exactly zero.)  For every such division of `funcs` met by the evaluator a point of the domain with 1 - X**2 -> 0 is searched
    (multi-start coordinate search on the evaluated form; inside an iteration the carried variables take their entry values)."""
    from ..symval import DIV_EVENTS
    from ..symcheck import edge_points, singular_point, _DefaultRanges
    import ast as _ast

    class _N(object):
        pass
    for mod, q in funcs:
        f = repo.func(mod, q)
        key = 'R-COND::%s::%s::cancelling-denominator' % (f.module.relpath, q)
        hits = []
        seen = set()
        n = 0
        for fn, node, den, path, ev_ in DIV_EVENTS:
            if fn is None or getattr(fn, 'qualname', None) != q or getattr(fn.module, 'name', None) != mod:
                continue
            if not isinstance(node, _ast.BinOp):
                continue
            txt = stmt_text(node)[:80]
            if txt in seen:
                continue
            seen.add(txt)
            probe = _N()
            probe.args = [node.right]
            probe.lineno = node.lineno
            from ..symcheck import _one_minus_square
            if not _one_minus_square(probe, f):
                continue
            n += 1
            # carried variables of an enclosing iteration take their entry values
            d = den
            sub = {}
            for summ in ev_.loops.get(f.key, []):
                for var, presym in summ.pre.items():
                    ids = list(presym.atoms(deep=False))
                    if len(ids) == 1 and ids[0] in d.atoms(deep=True) and isinstance(summ.entry.get(var), Rat):
                        sub[ids[0]] = summ.entry[var]
            if sub:
                d = alg.subst(d, sub)
            names = sorted(alg.TABLE.atoms[k].name for k in d.atoms(deep=True) if alg.TABLE.atoms[k].kind == 'sym' and alg.TABLE.atoms[k].name != 'pi')
            if any('@L' in nm for nm in names):
                continue
            try:
                sp = singular_point(d, 'sqrt', names, edge_points(names), [])
            except Exception:
                sp = None
            if sp is not None:
                hits.append((node, txt, sp[0]))
        if not hits:
            rep.holds('R-COND', key, where(f, f.node), 'no division of %s has a denominator of the cancelling shape 1 - X**2 that reaches zero inside the domain (%d of that shape)' % (q, n))
        for node, txt, pt in hits:
            rep.violated('R-COND', key, where(f, node), '`%s`: the denominator is spelled 1 - X**2 and X reaches 1 inside the domain (e.g. at %s): there it is exactly zero - ZeroDivisionError - '
                         'and next to it it has lost its digits' % (txt, ', '.join('%s=%.6g' % kv for kv in sorted(pt.items())[:6])),
                         expected='cos(alpha)**2 from the angle itself, or a guard for the equatorial line', actual=txt)



def truncation_rule(repo, rep, key_prefix, what):
    """int(<expression>) met during the concrete evaluations of this property whose value in IEEE double arithmetic truncates differently from
    the exact value (the quotient is a whole number only in exact arithmetic: 0.99999999996 -> 0).  One instance; call after the evaluations."""
    from ..symval import TRUNC_EVENTS
    seen = set()
    bad = []
    for fn, node, exact, dbl, consts in TRUNC_EVENTS:
        if fn is None:
            continue
        txt = stmt_text(node)[:80]
        if (fn.qualname, txt) in seen:
            continue
        seen.add((fn.qualname, txt))
        bad.append((fn, node, txt, exact, dbl, consts))
    key = key_prefix + '::int-of-inexact'
    if not bad:
        rep.holds('R-TRUNC', key, '%s:1' % key_prefix.split('::')[1] if '::' in key_prefix else key_prefix, 'no int() met in %s truncates differently in double arithmetic than in exact arithmetic' % what)
    for fn, node, txt, exact, dbl, consts in bad[:4]:
        rep.violated('R-TRUNC', key + '::' + fn.qualname, where(fn, node), '`%s` truncates a value that is the whole number %s only in exact arithmetic: in double arithmetic it is %.17g and '
                     'int() gives %d (%s)' % (txt, exact, dbl, int(dbl), ', '.join('%s=%s' % (k, float(v.as_fraction()) if v.as_fraction().denominator != 1 else int(v.as_fraction()))
                                                                             for k, v in sorted(consts.items())[:5])),
                     expected='round() to the nearest whole number, or integer arithmetic', actual=txt)



PARTIAL_LINALG = {'cholesky': 'needs a positive DEFINITE matrix (raises LinAlgError for a singular one)', 'inv': 'needs a non-singular matrix',
                  'solve': 'needs a non-singular matrix', 'tensorinv': 'needs a non-singular matrix'}


def partial_call_rule(repo, rep, funcs, what):
    """the covariance matrices of the property may be singular (rank-deficient input covariance, parameter uncertainties of zero): functions
    that are only defined for definite / non-singular matrices (numpy.linalg.cholesky, inv, solve) must not be applied to them.
    funcs: [(module, qualname)]"""
    for mod, q in funcs:
        f = repo.func(mod, q)
        key = 'R-DOMAIN::%s::%s::partial-linalg' % (f.module.relpath, q)
        hits = []
        for n in ast.walk(f.node):
            if isinstance(n, ast.Call) and isinstance(n.func, ast.Attribute) and n.func.attr in PARTIAL_LINALG:
                base = stmt_text(n.func.value)
                if base.endswith('linalg') or base in ('np', 'numpy', 'la', 'LA', 'scipy.linalg'):
                    hits.append(n)
            if isinstance(n, ast.Call) and isinstance(n.func, ast.Name) and n.func.id in PARTIAL_LINALG and n.func.id in f.module.imports:
                hits.append(n)
        # a raising test on the SIGN of computed eigenvalues / a determinant without a tolerance: for a singular positive semi-definite
        # matrix (a covariance without an up component, rotated into another frame) the smallest eigenvalue is zero in exact arithmetic and
        # +/-1e-20 in doubles - the test rejects or accepts such inputs by the luck of the rounding
        for g in ast.walk(f.node):
            if isinstance(g, ast.If) and any(isinstance(x, ast.Raise) for x in ast.walk(g)):
                for c in ast.walk(g.test):
                    if isinstance(c, ast.Compare) and len(c.ops) == 1 and isinstance(c.ops[0], (ast.Lt, ast.LtE, ast.Gt, ast.GtE)) and isinstance(c.comparators[0], ast.Constant) \
                            and c.comparators[0].value == 0:
                        spectral = [x for x in ast.walk(c.left) if isinstance(x, ast.Call) and getattr(x.func, 'attr', getattr(x.func, 'id', '')) in ('eigvalsh', 'eigvals', 'eigh', 'eig', 'det', 'slogdet')]
                        if spectral:
                            rep.violated('R-DOMAIN', key + '::sign-test', where(f, g), '`%s`: an exact sign test on computed eigenvalues (no tolerance) in front of a raise - for a valid but '
                                         'rank-deficient covariance (horizontal only, one direction only, a zero variance) the zero eigenvalue comes out as +/-1e-20 after the rotation into '
                                         'the Cartesian frame, and whether the call raises depends on the station' % stmt_text(g.test)[:70],
                                         expected='no rejection of positive semi-definite input (or a tolerance relative to the largest eigenvalue)', actual=stmt_text(g.test)[:80])
        if not hits:
            rep.holds('R-DOMAIN', key, where(f, f.node), '%s applies no function that is undefined for singular matrices to %s' % (q, what))
        for n in hits[:3]:
            name = n.func.attr if isinstance(n.func, ast.Attribute) else n.func.id
            rep.violated('R-DOMAIN', key, where(f, n), '`%s`: numpy.linalg.%s %s, and %s may be singular (a rank-deficient input covariance, parameter uncertainties of zero): '
                         'the call raises LinAlgError where the product J Q J^T is defined' % (stmt_text(n)[:60], name, PARTIAL_LINALG[name], what), expected='matrix products only', actual=stmt_text(n)[:80])



def receiver_rule(repo, rep, modname, method_names, what):
    """a conversion / representation method returns a NEW object and leaves its receiver alone: converting twice, or converting after
    another conversion, gives the same answer.  One instance per method: no store reaches the receiver's state (effect analysis of C09)."""
    from ..purity import Purity
    pur = Purity(repo, LIB_SCOPE)
    m = repo.module(modname)
    for cname, cls in sorted(m.classes.items()):
        for q in method_names:
            f = cls.methods.get(q)
            if f is None:
                continue
            key = 'R-PURE::%s::%s::receiver' % (m.relpath, f.qualname)
            ms = pur.mut_self.get(id(f))
            if ms is None:
                rep.holds('R-PURE', key, where(f, f.node), '%s does not modify the object it is called on' % f.qualname)
            else:
                site, path = ms
                rep.violated('R-PURE', key, site.where, '%s modifies the object it is called on (%s): %s - a second conversion of the same object starts from the changed state' % (
                    f.qualname, site.text[:80], what), expected='a new object, the receiver unchanged', actual=site.text[:120])



def float_run(func, env, on_call=None):
    """straight-line numeric interpreter in IEEE double arithmetic for a function body made of assignments and a return (names, numbers,
    + - * / ** unary minus, subscripts of nested lists, calls of sqrt / atan2 / degrees / radians / sin / cos / abs / max / min / float).
    on_call(name, args, node) is told every call before it is made.  Returns the returned value; raises ValueError('unsupported ...')
    for anything else, and lets math domain errors through.  Used to evaluate a few witness inputs that a symbolic boundary argument
    singles out - not to test the function."""
    import math
    fns = {'sqrt': math.sqrt, 'atan2': math.atan2, 'atan': math.atan, 'degrees': math.degrees, 'radians': math.radians, 'sin': math.sin, 'cos': math.cos,
           'tan': math.tan, 'abs': abs, 'fabs': abs, 'max': max, 'min': min, 'float': float, 'asin': math.asin, 'acos': math.acos, 'hypot': math.hypot}

    def ev(n):
        if isinstance(n, ast.Constant) and isinstance(n.value, (int, float)):
            return n.value
        if isinstance(n, ast.Name):
            if n.id in env:
                return env[n.id]
            raise ValueError('unsupported name %s' % n.id)
        if isinstance(n, ast.UnaryOp) and isinstance(n.op, (ast.USub, ast.UAdd)):
            return -ev(n.operand) if isinstance(n.op, ast.USub) else ev(n.operand)
        if isinstance(n, ast.BinOp):
            a, b = ev(n.left), ev(n.right)
            ops = {ast.Add: lambda: a + b, ast.Sub: lambda: a - b, ast.Mult: lambda: a * b, ast.Div: lambda: a / b, ast.Pow: lambda: a ** b}
            if type(n.op) in ops:
                return ops[type(n.op)]()
            raise ValueError('unsupported operator')
        if isinstance(n, ast.Subscript):
            base = ev(n.value)
            idx = n.slice
            ks = [ev(e_) for e_ in idx.elts] if isinstance(idx, ast.Tuple) else [ev(idx)]
            for k in ks:
                base = base[int(k)]
            return base
        if isinstance(n, ast.Call):
            nm = n.func.id if isinstance(n.func, ast.Name) else (n.func.attr if isinstance(n.func, ast.Attribute) else None)
            if nm in fns and not n.keywords:
                args = [ev(a_) for a_ in n.args]
                if on_call is not None:
                    on_call(nm, args, n)
                return fns[nm](*args)
            raise ValueError('unsupported call %s' % nm)
        if isinstance(n, ast.Tuple):
            return tuple(ev(e_) for e_ in n.elts)
        if isinstance(n, ast.IfExp):
            return ev(n.body) if ev(n.test) else ev(n.orelse)
        if isinstance(n, ast.Compare) and len(n.ops) == 1:
            a, b = ev(n.left), ev(n.comparators[0])
            return {ast.Lt: a < b, ast.LtE: a <= b, ast.Gt: a > b, ast.GtE: a >= b, ast.Eq: a == b, ast.NotEq: a != b}[type(n.ops[0])]
        raise ValueError('unsupported %s' % type(n).__name__)

    def run(stmts):
        for st in stmts:
            if isinstance(st, ast.Expr) and isinstance(st.value, ast.Constant):
                continue
            if isinstance(st, ast.Assign) and len(st.targets) == 1 and isinstance(st.targets[0], ast.Name):
                env[st.targets[0].id] = ev(st.value)
            elif isinstance(st, ast.Assign) and len(st.targets) == 1 and isinstance(st.targets[0], ast.Tuple) and all(isinstance(t, ast.Name) for t in st.targets[0].elts):
                vals = ev(st.value)
                for t, v in zip(st.targets[0].elts, vals):
                    env[t.id] = v
            elif isinstance(st, ast.If):
                r = run(st.body if ev(st.test) else st.orelse)
                if r is not None:
                    return r
            elif isinstance(st, ast.Return):
                return ('ret', ev(st.value) if st.value is not None else None)
            else:
                raise ValueError('unsupported statement %s' % type(st).__name__)
        return None
    r = run(func.node.body)
    return r[1] if r else None


def sqrt_boundary_rule(repo, rep, mod, q, param, witnesses, what):
    """a square root whose argument is non-negative only in exact arithmetic and reaches 0 on the boundary of the domain (a singular
    covariance): in double arithmetic it comes out as -4e-16 and math.sqrt raises.  The function is evaluated in IEEE doubles on a few
    boundary witnesses (rank-one matrices) with every sqrt argument observed."""
    f = repo.func(mod, q)
    key = 'R-DOMAIN::%s::%s::sqrt-at-the-boundary' % (f.module.relpath, q)
    bad = None
    unsupported = None
    for wname, wval in witnesses:
        seen = []

        def on_call(nm, args, node):
            if nm == 'sqrt':
                seen.append((args[0], node))
        try:
            float_run(f, {param: wval}, on_call)
        except ValueError as e:
            neg = [(a, n) for a, n in seen if a < 0]
            if neg:
                bad = (wname, neg[-1][0], neg[-1][1])
                break
            unsupported = str(e)
        except (ZeroDivisionError, OverflowError, TypeError, IndexError) as e:
            unsupported = str(e)
    if bad:
        rep.violated('R-DOMAIN', key, where(f, bad[2]), '`%s` receives %.3g for %s: the argument is a difference that is zero in exact arithmetic for a singular matrix and comes out '
                     'negative in doubles - math.sqrt raises "math domain error" for an input the property covers (%s)' % (stmt_text(bad[2])[:60], bad[1], bad[0], what),
                     expected='the argument clamped at zero (max(..., 0))', actual=stmt_text(bad[2])[:80])
    elif unsupported and not witnesses:
        rep.undecided('R-DOMAIN', key, where(f, f.node), 'not evaluable: %s' % unsupported)
    elif unsupported:
        rep.undecided('R-DOMAIN', key, where(f, f.node), '%s uses a construct outside the straight-line numeric subset: %s' % (q, unsupported))
    else:
        rep.holds('R-DOMAIN', key, where(f, f.node), 'no square root of %s receives a negative argument on the %d singular witnesses' % (q, len(witnesses)))



def float_accuracy_rule(repo, rep, mod, q, param, witnesses, reference, tol, suffix, what):
    """the other boundary: inputs on which an intermediate DIFFERENCE vanishes in exact arithmetic (a circular covariance: equal eigenvalues).
    A formula that is algebraically the reference but forms that difference from two large terms (tr^2 - 4 det instead of (v00 - v11)^2 +
    4 v01^2) loses half of the digits there or takes the root of a negative number.  The function is evaluated in IEEE doubles on witnesses
    that a symbolic argument singles out (the vanishing set of the discriminant, a few ulps off it) and compared with the reference evaluated
    in 60-digit decimals: relative deviation above `tol` in any component is a violation."""
    f = repo.func(mod, q)
    key = 'R-DOMAIN::%s::%s::%s' % (f.module.relpath, q, suffix)
    worst = None
    unsupported = None
    n_ok = 0
    for wname, wval in witnesses:
        try:
            got = float_run(f, {param: wval})
        except ValueError as e:
            if 'unsupported' in str(e):
                unsupported = str(e)
                continue
            worst = (float('inf'), wname, 'raises "%s"' % e, f.node)
            break
        except (ZeroDivisionError, OverflowError, TypeError, IndexError) as e:
            unsupported = str(e)
            continue
        want = reference(wval)
        if not isinstance(got, tuple) or len(got) < len(want):
            unsupported = 'result is not a tuple of %d' % len(want)
            continue
        n_ok += 1
        for i, (g_, w_) in enumerate(zip(got, want)):
            if w_ is None:
                continue
            scale = max(abs(w_), 1e-300)
            dev = abs(g_ - w_) / scale
            if dev > tol and (worst is None or dev > worst[0]):
                worst = (dev, wname, 'component %d is %.17g, the eigenvalue formula gives %.17g (relative deviation %.2g)' % (i, g_, w_, dev), f.node)
    if worst:
        rep.violated('R-DOMAIN', key, where(f, worst[3]), '%s: %s - the formula cancels where the discriminant vanishes (%s)' % (worst[1], worst[2], what),
                     expected='the discriminant formed from (v00 - v11) and v01 directly: accurate to a few ulps', actual=worst[2][:80])
    elif unsupported and not n_ok:
        rep.undecided('R-DOMAIN', key, where(f, f.node), '%s uses a construct outside the straight-line numeric subset: %s' % (q, unsupported))
    else:
        rep.holds('R-DOMAIN', key, where(f, f.node), '%s agrees with the 60-digit reference to %.0e on the %d witnesses next to the vanishing set of the discriminant' % (q, tol, n_ok))


def projection_constants(repo):
    """{name: {field: number}} of the module-level Projection(...) objects of geodepy.constants (constant arguments only)"""
    m = repo.module('geodepy.constants')
    cls = m.classes.get('Projection')
    if cls is None or cls.init() is None:
        raise AnalysisError('anchor vanished: constants.Projection')
    fields = [p.name for p in cls.init().params if p.name != 'self']
    out = {}
    for st in m.tree.body:
        if isinstance(st, ast.Assign) and len(st.targets) == 1 and isinstance(st.targets[0], ast.Name) and isinstance(st.value, ast.Call) \
                and getattr(st.value.func, 'id', '') == 'Projection':
            vals = {}
            for nm, a in list(zip(fields, st.value.args)) + [(k.arg, k.value) for k in st.value.keywords]:
                try:
                    vals[nm] = ast.literal_eval(a)
                except (ValueError, SyntaxError):
                    pass
            out[st.targets[0].id] = vals
    return out


def longitude_range_rule(repo, rep):
    """grid -> geographic hands its longitude to geographic -> grid (the round trip of C02, `CoordTM.geo().tm()`, the psf/convergence pair of
    C10): geo2grid accepts [-180, 180] only.  The longitude returned by grid2geo is `central meridian + degrees(atan(..))`: for the zones
    next to the +/-180 meridian (60 east of its meridian, 1 west of it) the sum leaves that range unless it is folded back.  Forward interval
    analysis of grid2geo (sv/intervals.py) over zones 1..60 of the UTM and the ten ISG zones: the interval of the returned longitude must lie
    inside the interval the forward routine's own validation accepts."""
    from ..intervals import Interp, TOP
    f = repo.func('geodepy.convert', 'grid2geo')
    g = repo.func('geodepy.convert', 'geo2grid')
    key = 'R-RANGE::geodepy/convert.py::grid2geo::longitude-accepted-by-geo2grid'
    # what the forward routine accepts: the raising test on its longitude parameter
    lon_name = g.params[1].name
    lo_ok, hi_ok = None, None
    for n in ast.walk(g.node):
        if isinstance(n, ast.If) and any(isinstance(x, ast.Raise) for x in n.body):
            for c in ast.walk(n.test):
                if isinstance(c, ast.Compare) and len(c.ops) == 1 and isinstance(c.left, ast.Name) and c.left.id == lon_name:
                    try:
                        k = ast.literal_eval(c.comparators[0])
                    except (ValueError, SyntaxError):
                        continue
                    if isinstance(c.ops[0], (ast.Lt, ast.LtE)):
                        lo_ok = k
                    if isinstance(c.ops[0], (ast.Gt, ast.GtE)):
                        hi_ok = k
    if lo_ok is None or hi_ok is None:
        rep.undecided('R-RANGE', key, where(g, g.node), 'the longitude validation of geo2grid was not recognised')
        return
    prj = projection_constants(repo)
    if 'utm' not in prj or 'isg' not in prj:
        raise AnalysisError('anchor vanished: constants.utm / constants.isg')
    isg_zones = []
    for n in ast.walk(f.node):
        if isinstance(n, ast.Compare) and isinstance(n.ops[0], ast.NotIn) and isinstance(n.comparators[0], (ast.Tuple, ast.List, ast.Set)):
            isg_zones = [x.value for x in n.comparators[0].elts if isinstance(x, ast.Constant) and x.value]
    worst = None
    n_cfg = 0
    for pname, zones in (('utm', [(1, 60)]), ('isg', [(z, z) for z in isg_zones])):
        for zr in zones:
            n_cfg += 1
            ip = Interp({'zone': zr}, attrs=dict((('prj', k), (v, v)) for k, v in prj[pname].items() if isinstance(v, (int, float))),
                        tests={'prj == isg': pname == 'isg', 'prj != isg': pname != 'isg'})
            # helpers of the same module are looked into (a central-meridian function shared by both conversions)
            ip.funcs = dict((q_, g_.node) for q_, g_ in f.module.functions.items() if g_ is not f)
            # the validation at the top of the function does not matter to the range; start from the parameters
            body = [st for st in f.node.body if not (isinstance(st, ast.Assign) and len(st.targets) == 1 and isinstance(st.targets[0], ast.Name) and st.targets[0].id == 'zone')]
            ip.run(body, dict(ip.env))
            if not ip.returns:
                rep.undecided('R-RANGE', key, where(f, f.node), 'no return reached by the interval analysis (%s)' % pname)
                return
            for st, val in ip.returns:
                v = val[1] if isinstance(val, tuple) and len(val) > 1 else TOP
                if v is TOP or v[0] == float('-inf') or v[1] == float('inf'):
                    rep.undecided('R-RANGE', key, where(f, st), 'the interval of the returned longitude is not bounded by the analysis (%s, zone %s)' % (pname, zr))
                    return
                if v[0] < lo_ok - 1e-9 or v[1] > hi_ok + 1e-9:
                    if worst is None or (v[1] - v[0]) > (worst[2][1] - worst[2][0]):
                        worst = (pname, zr, v, st)
    if worst:
        pname, zr, v, st = worst
        rep.violated('R-RANGE', key, where(f, st), 'the longitude grid2geo returns ranges over [%.6g, %.6g] for %s zones %s..%s, geo2grid accepts [%s, %s] only: east of the central meridian of '
                     'zone 60 (west of that of zone 1) the sum `cm + long_diff` passes 180 - grid2geo(60, 900000, 6000000) returns 181.44027606766 and '
                     'geo2grid(-36.06236199892, 181.44027606766, 60) raises "Invalid Longitude", so grid -> geographic -> grid does not close there' % (
                         v[0], v[1], pname.upper(), zr[0], zr[1], lo_ok, hi_ok), expected='longitude folded into [%s, %s]' % (lo_ok, hi_ok), actual='[%.6g, %.6g]' % v)
    else:
        rep.holds('R-RANGE', key, where(f, f.node), 'the returned longitude stays inside [%s, %s], the range geo2grid accepts, for zones 1..60 and the %d ISG zones (%d configurations)' % (
            lo_ok, hi_ok, len(isg_zones), n_cfg))


def standalone_longitude_rule(repo, rep):
    """the stand-alone converter returns 'the same latitude and longitude as the library': the same REPRESENTATIVE of the longitude, too.
    The library folds the longitude of zones 60 / 1 into [-180, 180]; a copy that returns cm + long_diff unfolded differs from it by a whole
    turn there (181.2 against -178.8).  Same interval analysis as for the library routine, on the copy's module-level projection table."""
    from ..intervals import Interp, TOP
    m = repo.module('Standalone.mga2gda')
    f = m.functions.get('grid2geo')
    if f is None:
        raise AnalysisError('anchor vanished: Standalone/mga2gda.py grid2geo')
    key = 'R-RANGE::Standalone/mga2gda.py::grid2geo::longitude-representative-of-the-library'
    table = None
    for st in m.tree.body:
        if isinstance(st, ast.Assign) and len(st.targets) == 1 and isinstance(st.targets[0], ast.Name) and st.targets[0].id == 'proj' and isinstance(st.value, (ast.List, ast.Tuple)):
            table = st.value.elts
    if table is None:
        rep.undecided('R-RANGE', key, where(f, f.node), 'module-level projection table `proj` of the stand-alone converter not found')
        return
    attrs = {}
    for i, e in enumerate(table):
        try:
            v = ast.literal_eval(e)
        except (ValueError, SyntaxError):
            v = None
            if isinstance(e, ast.Call) and getattr(e.func, 'id', '') == 'Decimal' and e.args and isinstance(e.args[0], ast.Constant):
                v = float(e.args[0].value)
        if isinstance(v, (int, float)):
            attrs[('proj', i)] = (v, v)
    ip = Interp({f.params[0].name: (1, 60)}, attrs=attrs)
    ip.run(list(f.node.body), dict(ip.env))
    if not ip.returns:
        rep.undecided('R-RANGE', key, where(f, f.node), 'no return reached by the interval analysis')
        return
    for st, val in ip.returns:
        v = val[1] if isinstance(val, tuple) and len(val) > 1 else TOP
        if v is TOP:
            rep.undecided('R-RANGE', key, where(f, st), 'the interval of the returned longitude is not bounded by the analysis')
            return
        if v[0] < -180 - 1e-9 or v[1] > 180 + 1e-9:
            rep.violated('R-RANGE', key, where(f, st), 'the stand-alone grid2geo returns longitudes over [%.6g, %.6g] for zones 1..60; the library folds its longitude into [-180, 180]: east of the '
                         'central meridian of zone 60 (west of that of zone 1) the two differ by a whole turn - stand-alone grid2geo(60, 900000, 6500000) gives 181.21332727704, the library '
                         '-178.78667272296 (the property asks for agreement within 1e-10 degrees)' % v, expected='[-180, 180], as geodepy.convert.grid2geo', actual='[%.6g, %.6g]' % v)
            return
    rep.holds('R-RANGE', key, where(f, f.node), 'the stand-alone grid2geo keeps its longitude inside [-180, 180] for zones 1..60, like the library routine')


def float_result_rule(repo, rep, mod, q, slots):
    """the latitude / longitude a conversion returns are FLOATS on every path: the coordinate classes accept `float` or an angle class and
    nothing else (CoordGeo(lat, 180) raises TypeError), so a branch that substitutes a bare integer literal for a boundary value
    (`if long == -180: long = 180`) returns the right number in a type the object layer refuses.  Structural: every assignment to a
    variable returned in one of `slots` has a float-valued right-hand side (a float literal, arithmetic, a call) - not an int literal."""
    f = repo.func(mod, q)
    key = 'R-TYPE::%s::%s::float-results' % (f.module.relpath, q)
    rets = [r for r in ast.walk(f.node) if isinstance(r, ast.Return) and isinstance(r.value, ast.Tuple)]
    names = {}
    for r in rets:
        for k in slots:
            if k < len(r.value.elts):
                e = r.value.elts[k]
                while isinstance(e, (ast.Call, ast.BinOp, ast.UnaryOp)):
                    # round(x, n), hemisign * round(x, n), -x ...
                    if isinstance(e, ast.Call):
                        if not e.args:
                            break
                        e = e.args[0]
                    elif isinstance(e, ast.BinOp):
                        e = e.right if isinstance(e.right, (ast.Name, ast.Call)) else e.left
                    else:
                        e = e.operand
                if isinstance(e, ast.Name):
                    names[e.id] = k
                elif isinstance(e, ast.Constant) and isinstance(e.value, int) and not isinstance(e.value, bool):
                    rep.violated('R-TYPE', key, where(f, r), '%s returns the integer literal %r in result slot %d' % (q, e.value, k), expected='a float', actual=repr(e.value))
                    return
    bad = None
    for st in ast.walk(f.node):
        tgt = None
        if isinstance(st, ast.Assign) and len(st.targets) == 1 and isinstance(st.targets[0], ast.Name):
            tgt, val = st.targets[0].id, st.value
        elif isinstance(st, ast.AnnAssign) and isinstance(st.target, ast.Name) and st.value is not None:
            tgt, val = st.target.id, st.value
        if tgt in names:
            vals = [val.body, val.orelse] if isinstance(val, ast.IfExp) else [val]
            for v in vals:
                if isinstance(v, ast.UnaryOp):
                    v = v.operand
                if isinstance(v, ast.Constant) and isinstance(v.value, int) and not isinstance(v.value, bool):
                    bad = bad or (st, tgt, v.value)
    if bad:
        st, tgt, lit = bad
        rep.violated('R-TYPE', key, where(f, st), '`%s` hands back the INTEGER %r in result slot %d of %s where every other path returns a float: the coordinate classes accept float or an angle '
                     'class only - CoordCart.geo(notation=float) / CoordTM.geo(notation=float) raise TypeError for exactly that point' % (stmt_text(st)[:50], lit, names[tgt], q),
                     expected='%s.0' % lit, actual=stmt_text(st)[:60])
    elif not names:
        rep.undecided('R-TYPE', key, where(f, f.node), 'returned latitude / longitude variables of %s not identified' % q)
    else:
        rep.holds('R-TYPE', key, where(f, f.node), 'the values %s returns in slots %s are floats on every path (no bare integer literal is substituted)' % (q, list(slots)), work=False)


def validated_copy_rule(repo, rep, funcs):
    """what a guard validates is what the function goes on to use.  `if not 0 <= int(zone) <= 60: raise` checks a COERCED COPY of the
    argument; when the code below keeps working with the argument itself, a value that passes the check in its coerced form (55.9 -> 55,
    '56' -> 56, numpy.uint8(56)) is used unconverted - a zone of 55.9 gives the central meridian of no zone at all.  Per function: for every
    raising test that looks at int(p) / float(p) of a parameter p, either p was rebound to that coercion before (p = int(p): the
    repository's own idiom) or every later use of p goes through the same coercion."""
    for mod, q in funcs:
        f = repo.func(mod, q)
        key = 'R-GUARD::%s::%s::validated-value-is-used-value' % (f.module.relpath, q)
        names = set(p.name for p in f.params)
        bad = None
        n_guard = 0
        for g in ast.walk(f.node):
            if not (isinstance(g, ast.If) and any(isinstance(x, ast.Raise) for x in ast.walk(g))):
                continue
            for c in ast.walk(g.test):
                if isinstance(c, ast.Call) and getattr(c.func, 'id', '') in ('int', 'float') and len(c.args) == 1 and isinstance(c.args[0], ast.Name) and c.args[0].id in names:
                    pn, fn_ = c.args[0].id, c.func.id
                    n_guard += 1
                    rebound = any(isinstance(st, ast.Assign) and len(st.targets) == 1 and isinstance(st.targets[0], ast.Name) and st.targets[0].id == pn and st.lineno <= g.lineno
                                  for st in ast.walk(f.node))
                    if rebound:
                        continue
                    # loads of p after the guard that are not the argument of the same coercion
                    wrapped = set()
                    for c2 in ast.walk(f.node):
                        if isinstance(c2, ast.Call) and getattr(c2.func, 'id', '') in ('int', 'float') and len(c2.args) == 1 and isinstance(c2.args[0], ast.Name) and c2.args[0].id == pn:
                            wrapped.add(id(c2.args[0]))
                    raw = [n for n in ast.walk(f.node) if isinstance(n, ast.Name) and n.id == pn and isinstance(n.ctx, ast.Load) and id(n) not in wrapped
                           and n.lineno > getattr(g, 'end_lineno', g.lineno)]
                    later_rebind = [st for st in ast.walk(f.node) if isinstance(st, ast.Assign) and len(st.targets) == 1 and isinstance(st.targets[0], ast.Name) and st.targets[0].id == pn
                                    and st.lineno > g.lineno]
                    raw = [n for n in raw if not any(st.lineno < n.lineno for st in later_rebind)]
                    if raw and bad is None:
                        bad = (g, c, raw[0], pn, fn_)
        if bad:
            g, c, r0, pn, fn_ = bad
            rep.violated('R-GUARD', key, where(f, r0), 'the guard `%s` validates %s(%s), but line %d goes on to use `%s` itself: a value that passes in its coerced form (55.9 -> 55, a string '
                         'of digits, a narrow numpy integer) is used unconverted - zone 55.9 selects a central meridian 5.4 degrees off instead of being truncated to zone 55 as the validation '
                         'assumes' % (stmt_text(g.test)[:60], fn_, pn, r0.lineno, pn), expected='%s = %s(%s) before the checks' % (pn, fn_, pn), actual=stmt_text(g.test)[:80])
        else:
            rep.holds('R-GUARD', key, where(f, f.node), 'every guard of %s validates the value the function goes on to use%s' % (q, '' if n_guard else ' (no guard looks at a coerced copy)'), work=False)


def numeric_type_rule(repo, rep, funcs, opaque=()):
    """a number is a number: the result of a conversion must not depend on WHICH Python type carries a numeric argument.  A test
    `isinstance(x, (int, float))` / `type(x) == float` on a parameter that holds a height, a coordinate or a parameter value is false for
    numpy integers and 32-bit floats (elements of an array of heights) and for Fractions / Decimals: such values silently take the other
    branch - here, 'no height given'.  The functions are evaluated with plain symbols for their numeric parameters; every branch
    condition met (path conditions of calls, raising tests, conditional values) that tests the TYPE of one of those symbols against the
    builtin number types is reported.  Tests against the repository's own classes (angle classes) are dispatch, not this."""
    from ..symval import Evaluator, NONE
    for mod, q in funcs:
        f = repo.func(mod, q)
        key = 'R-TYPE::%s::%s::numeric-type-test' % (f.module.relpath, q)
        hits = []
        names = [p.name for p in f.params]
        for n in ast.walk(f.node):
            if isinstance(n, ast.Call) and getattr(n.func, 'id', '') == 'isinstance' and len(n.args) == 2 and isinstance(n.args[0], ast.Name) and n.args[0].id in names:
                tys = n.args[1].elts if isinstance(n.args[1], (ast.Tuple, ast.List)) else [n.args[1]]
                if tys and all(isinstance(t, ast.Name) and t.id in ('int', 'float', 'complex') for t in tys):
                    hits.append((n, n.args[0].id))
            if isinstance(n, ast.Compare) and len(n.ops) == 1 and isinstance(n.ops[0], (ast.Eq, ast.NotEq, ast.Is, ast.IsNot, ast.In, ast.NotIn)) and isinstance(n.left, ast.Call) \
                    and getattr(n.left.func, 'id', '') == 'type' and n.left.args and isinstance(n.left.args[0], ast.Name) and n.left.args[0].id in names:
                r_ = n.comparators[0]
                tys = r_.elts if isinstance(r_, (ast.Tuple, ast.List)) else [r_]
                if tys and all(isinstance(t, ast.Name) and t.id in ('int', 'float', 'complex') for t in tys):
                    hits.append((n, n.left.args[0].id))
        # only tests that steer control flow / a value (inside an if / while test, a conditional expression, a boolean assigned and tested)
        if hits:
            n, pn = hits[0]
            rep.violated('R-TYPE', key, where(f, n), '`%s` tests the Python type of the numeric argument `%s` against the builtin number types: a numpy integer or 32-bit float (an element of an '
                         'array of heights), a Fraction or a Decimal is a number and fails the test - it is silently treated like a missing value / takes the other branch' % (stmt_text(n)[:60], pn),
                         expected='the value tested (is None / is False), not its type', actual=stmt_text(n)[:80])
        else:
            rep.holds('R-TYPE', key, where(f, f.node), '%s does not branch on the builtin number type of a numeric argument' % q, work=False)


def identity_compare_rule(repo, rep, modname):
    """`x is <string or number>` asks whether x is THAT OBJECT, not whether it has that value: a string parsed from a request, read from a
    file or built by concatenation equals 'dd' and is another object (CPython interns only some literals), so the test silently takes
    the other branch for the spelled-out value and the default branch only when the default OBJECT itself was handed through.  None,
    True, False, classes and functions are unique objects and may be compared by identity.  One instance per identity comparison whose
    right-hand side is (a name of) a string / number literal."""
    m = repo.module(modname)
    consts = {}
    for st in m.tree.body:
        if isinstance(st, ast.Assign) and len(st.targets) == 1 and isinstance(st.targets[0], ast.Name) and isinstance(st.value, ast.Constant) \
                and isinstance(st.value.value, (str, int, float, bytes)) and not isinstance(st.value.value, bool):
            consts[st.targets[0].id] = st.value.value
    n = 0
    for f in m.all_functions():
        for c in ast.walk(f.node):
            if not (isinstance(c, ast.Compare) and any(isinstance(o, (ast.Is, ast.IsNot)) for o in c.ops)):
                continue
            operands = [c.left] + list(c.comparators)
            for k, o in enumerate(c.ops):
                if not isinstance(o, (ast.Is, ast.IsNot)):
                    continue
                for side in (operands[k], operands[k + 1]):
                    lit = None
                    if isinstance(side, ast.Constant) and isinstance(side.value, (str, int, float, bytes)) and not isinstance(side.value, bool):
                        lit = side.value
                    elif isinstance(side, ast.Name) and side.id in consts and side.id not in [p.name for p in f.params]:
                        lit = consts[side.id]
                    if lit is None:
                        continue
                    n += 1
                    rep.violated('R-TYPE', 'R-TYPE::%s::%s::identity-test::%s' % (m.relpath, f.qualname, stmt_text(c)[:50]), where(f, c), '`%s` compares by IDENTITY with the %s %r: a value '
                                 'that is equal but not that very object (a string taken from the query, a computed number) fails the test - the explicitly spelled value and the '
                                 'omitted default take different branches' % (stmt_text(c)[:70], type(lit).__name__, lit), expected='==', actual=stmt_text(c)[:80])
    if n == 0:
        rep.holds('R-TYPE', 'R-TYPE::%s::identity-tests' % m.relpath, '%s:1' % m.relpath, 'no identity comparison against a string or number in %s' % m.relpath)


def identity_flag_rule(repo, rep, modname):
    """a parameter that the callee tests by IDENTITY (`flag is False`, `flag is None`) must be handed True / False / None themselves: the
    result of a comparison is a bool only for Python numbers - for numpy scalars (an np.float64 taken from an array is a float) it is a
    numpy.bool_, for which `is False` is never true, and the sign of a negative angle is lost.  One instance per call site that passes
    such a parameter."""
    m = repo.module(modname)
    flags = {}            # (class or function name) -> set of identity-tested parameter names
    for f in m.all_functions():
        ps = set(p.name for p in f.params)
        for n in ast.walk(f.node):
            if isinstance(n, ast.Compare) and len(n.ops) == 1 and isinstance(n.ops[0], (ast.Is, ast.IsNot)) and isinstance(n.left, ast.Name) and n.left.id in ps \
                    and isinstance(n.comparators[0], ast.Constant) and n.comparators[0].value in (True, False):
                owner = f.cls.name if f.cls is not None and f.name == '__init__' else f.qualname
                flags.setdefault(owner, {}).setdefault(n.left.id, [p.name for p in f.params if p.name != 'self'])
    n_sites = 0
    ordn = {}
    for g in m.all_functions():
        for c in sorted((x for x in ast.walk(g.node) if isinstance(x, ast.Call)), key=lambda x: (x.lineno, x.col_offset)):
            if not isinstance(c, ast.Call):
                continue
            callee = c.func.id if isinstance(c.func, ast.Name) else (c.func.attr if isinstance(c.func, ast.Attribute) else None)
            if callee not in flags:
                continue
            for pname, order in flags[callee].items():
                arg = None
                for kw in c.keywords:
                    if kw.arg == pname:
                        arg = kw.value
                if arg is None and pname in order and order.index(pname) < len(c.args):
                    arg = c.args[order.index(pname)]
                if arg is None:
                    continue
                n_sites += 1
                ordn[(g.qualname, callee, pname)] = ordn.get((g.qualname, callee, pname), 0) + 1
                key = 'R-TYPE::%s::%s::%s(%s=)#%d' % (m.relpath, g.qualname, callee, pname, ordn[(g.qualname, callee, pname)])
                literal = isinstance(arg, ast.Constant) and (arg.value is None or isinstance(arg.value, bool))
                passed_on = isinstance(arg, ast.Name) or (isinstance(arg, ast.Attribute))
                wrapped = isinstance(arg, ast.Call) and getattr(arg.func, 'id', '') == 'bool'
                negated = isinstance(arg, ast.UnaryOp) and isinstance(arg.op, ast.Not)       # `not x` is always a real bool
                if literal or wrapped or negated or passed_on:
                    rep.holds('R-TYPE', key, where(g, c), '%s receives %s' % (pname, 'a literal' if literal else ('a real bool' if (wrapped or negated) else 'a flag handed on')))
                else:
                    rep.violated('R-TYPE', key, where(g, c), '%s(%s=%s): the callee tests `%s is False`, an identity test; `%s` is a numpy.bool_ when its operands are numpy scalars '
                                 '(np.float64 is a float), and numpy.False_ is not False - the sign of a negative value is lost (DMSAngle(1, 30, 0) * np.float64(-2) gives +3 degrees)' % (
                                     callee, pname, stmt_text(arg)[:30], pname, stmt_text(arg)[:30]), expected='positive=True / positive=False', actual=stmt_text(arg)[:40])
    if n_sites == 0:
        rep.undecided('R-TYPE', 'R-TYPE::%s::identity-flags' % m.relpath, '%s:1' % m.relpath, 'no call site passes an identity-tested flag')



def unclamped_root_rule(repo, rep, mod, q, what):
    """sibling of the boundary rule for functions the straight-line interpreter cannot run (matrix products): a variance obtained by rotating a
    covariance is zero for a singular input and may come out as -2e-20; every root in `q` taken of such a matrix element (`m[i, j] ** 0.5`,
    `sqrt(m[i, j])`) must be clamped at zero, as error_ellipse does.  Structural."""
    f = repo.func(mod, q)
    key = 'R-DOMAIN::%s::%s::root-of-a-rotated-variance' % (f.module.relpath, q)
    roots = []
    for n in ast.walk(f.node):
        arg = None
        if isinstance(n, ast.BinOp) and isinstance(n.op, ast.Pow) and isinstance(n.right, ast.Constant) and n.right.value == 0.5:
            arg = n.left
        if isinstance(n, ast.Call) and (getattr(n.func, 'id', '') == 'sqrt' or getattr(n.func, 'attr', '') == 'sqrt') and n.args:
            arg = n.args[0]
        if arg is not None:
            roots.append((n, arg))
    # local names bound once: looked through (qe = m[0, 0]; spread = sqrt(...))
    binds = {}
    for n in ast.walk(f.node):
        if isinstance(n, ast.Assign) and len(n.targets) == 1:
            t = n.targets[0]
            if isinstance(t, ast.Name):
                binds.setdefault(t.id, []).append(n.value)
            elif isinstance(t, ast.Tuple) and isinstance(n.value, ast.Tuple) and len(t.elts) == len(n.value.elts):
                for tt, vv in zip(t.elts, n.value.elts):
                    if isinstance(tt, ast.Name):
                        binds.setdefault(tt.id, []).append(vv)

    def expand(e, depth=0):
        if isinstance(e, ast.Name) and len(binds.get(e.id, ())) == 1 and depth < 4:
            return expand(binds[e.id][0], depth + 1)
        return e

    def nonneg(e, depth=0):
        e = expand(e)
        if depth > 8:
            return False
        if isinstance(e, ast.Constant) and isinstance(e.value, (int, float)):
            return e.value >= 0
        if isinstance(e, ast.Call):
            nm = getattr(e.func, 'id', '') or getattr(e.func, 'attr', '')
            if nm in ('abs', 'fabs', 'sqrt', 'hypot'):
                return True
            if nm in ('max', 'maximum') and any(isinstance(expand(x), ast.Constant) and isinstance(expand(x).value, (int, float)) and expand(x).value >= 0 for x in e.args):
                return True
            if nm == 'clip' and len(e.args) >= 2 and isinstance(e.args[1], ast.Constant) and isinstance(e.args[1].value, (int, float)) and e.args[1].value >= 0:
                return True
            return False
        if isinstance(e, ast.BinOp):
            if isinstance(e.op, ast.Pow) and isinstance(e.right, ast.Constant) and isinstance(e.right.value, int) and e.right.value % 2 == 0:
                return True
            if isinstance(e.op, ast.Pow) and isinstance(e.right, ast.Constant) and e.right.value == 0.5:
                return True
            if isinstance(e.op, (ast.Add, ast.Mult, ast.Div)):
                return nonneg(e.left, depth + 1) and nonneg(e.right, depth + 1)
        return False

    def from_matrix(e, depth=0):
        e = expand(e)
        if depth > 8:
            return False
        if isinstance(e, ast.Subscript):
            return True
        return any(from_matrix(c, depth + 1) for c in ast.iter_child_nodes(e) if isinstance(c, ast.expr))
    bad = [(n, a) for n, a in roots if isinstance(a, ast.Subscript) or (not nonneg(a) and from_matrix(a))]
    if not roots:
        rep.holds('R-DOMAIN', key, where(f, f.node), '%s takes no root itself' % q)
    elif not bad:
        rep.holds('R-DOMAIN', key, where(f, roots[0][0]), 'every root of a matrix element in %s is taken of a clamped value' % q)
    for n, a in bad[:2]:
        rep.violated('R-DOMAIN', key, where(f, n), '`%s`: the element is a variance obtained by rotating the covariances; for a singular input (%s) it is zero in exact arithmetic and '
                     '-2e-20 in doubles, and the root is nan (relative_error(30, 10, horizontal-only covariance, 0, 0) returns an up error of nan)' % (stmt_text(n)[:50], what),
                     expected='max(%s, 0) ** 0.5' % stmt_text(a)[:30], actual=stmt_text(n)[:60])



def ctor_sign_table(repo, rep):
    """sign inferred by the DMS / DDM constructors when no `positive` flag is given, on the full table of sign patterns of their fields
    (constant arguments fold exactly): negative iff the degrees are negative, or the degrees are zero and the minutes (seconds) are negative.
    A field of exactly ZERO is not negative - abs(), negation and round() rebuild sub-degree angles with seconds 0."""
    from fractions import Fraction as F
    from ..symval import Evaluator, Bool
    m = repo.module('geodepy.angles')
    for cname, fields in (('DMSAngle', ((-1, 0, 1), (-30, 0, 30), (F(-21, 2), 0, F(21, 2)))), ('DDMAngle', ((-1, 0, 1), (F(-61, 2), 0, F(61, 2))))):
        cls = m.classes.get(cname)
        if cls is None or cls.init() is None:
            rep.undecided('R-TABLE', 'R-TABLE::geodepy/angles.py::%s::sign-table' % cname, 'geodepy/angles.py:1', 'class %s not found' % cname)
            continue
        init = cls.init()
        import itertools
        bad = []
        n = 0
        for combo in itertools.product(*fields):
            ev = Evaluator(repo)
            ev.fold_const_types = True
            try:
                o = ev.construct(cls, [C(x) for x in combo], {}, None)
            except Exception:
                o = None
            got = o.fields.get('positive') if o is not None else None
            d = combo[0]
            rest_negative = any(x < 0 for x in combo[1:])
            want = not (d < 0 or (d == 0 and rest_negative))
            n += 1
            if not isinstance(got, Bool):
                bad.append((combo, 'not decided'))
            elif got.b != want:
                bad.append((combo, got.b))
        key = 'R-TABLE::geodepy/angles.py::%s.__init__::sign-table' % cname
        if not bad:
            rep.holds('R-TABLE', key, where(init, init.node), '%s(...) without a sign flag: the sign follows the first non-zero field on all %d sign patterns of the fields (zero is not negative)' % (cname, n))
        else:
            combo, got = bad[0]
            if got == 'not decided':
                rep.undecided('R-TABLE', key, where(init, init.node), '%s%s: inferred sign does not fold to a constant' % (cname, tuple(float(x) for x in combo)))
            else:
                rep.violated('R-TABLE', key, where(init, init.node), '%s%s is built as a %s angle (%d of %d sign patterns are wrong): a field of exactly zero is read as negative / a negative '
                             'field is missed - abs(), negation and round() of an angle below one degree rebuild it this way' % (
                                 cname, tuple(float(x) for x in combo), 'positive' if got else 'negative', len(bad), n),
                             expected='negative iff degrees < 0, or degrees == 0 and a later field < 0', actual='positive=%s' % got)


def tm_division_rules(repo, rep):
    """division rule for the projection routines (geo2grid, grid2geo, psfandgridconv) over the band of the projection, equator and central
    meridian included"""
    from ..symval import Evaluator, DIV_EVENTS
    from ..symcheck import sym_ellipsoid, sym_projection
    del DIV_EVENTS[:]
    m = repo.module('geodepy.convert')
    for q, names in (('psfandgridconv', ['xi1', 'eta1', 'lat', 'lon', 'cm', 'conf_lat']), ('geo2grid', ['lat', 'lon', 'zone']), ('grid2geo', ['zone', 'east', 'north'])):
        f = m.func(q)
        ev = Evaluator(repo, opaque=set(['alpha_coeff', 'beta_coeff', 'rect_radius']) | (set() if q == 'psfandgridconv' else {'psfandgridconv'}))
        args = dict((p.name, Rat.sym(n)) for p, n in zip(f.params, names))
        args['ellipsoid'] = sym_ellipsoid(ev, repo, 'ellipsoid')
        args['prj'] = sym_projection(ev, repo, 'prj')
        try:
            ev.call_function(f, args)
        except RecursionError:
            pass
    division_rule(repo, rep, [('geodepy.convert', 'psfandgridconv'), ('geodepy.convert', 'geo2grid'), ('geodepy.convert', 'grid2geo')],
                  {'lat': (-80.0, 84.0), 'lon': (-180.0, 180.0), 'cm': (-177.0, 177.0), 'zone': (1.0, 60.0), 'east': (100000.0, 900000.0), 'north': (0.0, 10000000.0),
                   'xi1': (-1.4, 1.4), 'eta1': (-0.5, 0.5), 'conf_lat': (-1.4, 1.4), 'ellipsoid.semimaj': (6.3e6, 6.4e6), 'ellipsoid.inversef': (150.0, 400.0),
                   'prj.cmscale': (0.9, 1.1), 'prj.zonewidth': (2.0, 6.0), 'prj.falseeast': (200000.0, 600000.0), 'prj.falsenorth': (1000000.0, 10000000.0),
                   'prj.initialcm': (-177.0, -170.0)},
                  families=(('lon', 'cm'),))


def _strip_ok(prjname, lon, z, cm):
    """automatic zone: any strip whose central meridian is within half a strip width of the longitude (on a boundary both neighbours are)"""
    from fractions import Fraction as F
    if z is None or cm is None or z.denominator != 1:
        return False
    z = int(z)
    if prjname == 'utm':
        return 1 <= z <= 60 and cm == -183 + 6 * z and abs(lon - cm) <= 3
    a, sub = divmod(z, 10)
    return sub in (1, 2, 3) and 1 <= a <= 60 and cm == (a - 1) * 6 - 180 + 2 * sub - 1 and abs(lon - cm) <= 1

def zone_table_rule(repo, rep):
    """zone number and central meridian of geo2grid on a lattice of concrete longitudes and zone arguments, for UTM and ISG - independent of
    how the code is structured: the function is evaluated with constant arguments (integer / rational arithmetic folds exactly), the zone is
    the second result and the central meridian is what psfandgridconv receives.  Expected: automatic zone = the 6 deg (UTM) / 2 deg (ISG)
    strip holding the longitude, numbered 1..60 resp. <AMG zone><sub-zone>; central meridian = the middle of that strip; an explicit zone
    keeps its own central meridian wherever the longitude is."""
    from fractions import Fraction as F
    from ..symval import Evaluator, Tup
    m = repo.module('geodepy.convert')
    mc = repo.module('geodepy.constants')
    f = m.func('geo2grid')
    ps = [p.name for p in f.params]

    CUSTOM = {'gk3': (500000, 0, 1, 3, 3), 'w2.5': (500000, 10000000, F(9996, 10000), F(5, 2), F(-715, 4)),
              # the false origin and central scale of the ISG with another zone layout (it is NOT the ISG), and three-degree strips counted
              # from 180 W (120 zones)
              'isg-origin': (300000, 5000000, F(99994, 100000), 2, 129), 'gk3w': (500000, 10000000, 1, 3, F(-357, 2))}

    def run(lon, zone, prjname):
        ev = Evaluator(repo, opaque={'psfandgridconv', 'alpha_coeff', 'rect_radius'})
        if prjname in CUSTOM:
            # a user-defined projection: Projection(false easting, false northing, central scale, zone width, central meridian of zone 1)
            ev.fold_const_types = True
            prj = ev.construct(mc.classes['Projection'], [C(x_) for x_ in CUSTOM[prjname]], {}, None)
        else:
            prj = ev.global_value(mc, prjname)
        ell = ev.global_value(mc, 'ans' if prjname == 'isg' else 'grs80')
        try:
            val = ev.call_function(f, {ps[0]: C(F(-335, 10)), ps[1]: C(lon), ps[2]: C(zone), 'ellipsoid': ell, 'prj': prj})
        except IndexError as e_:
            # constant folding of the function's own string indexing went out of range: the call raises IndexError
            return 'IndexError', str(e_)
        except Exception:
            return None, None
        if any(d_[2] == 'subscript of Str' for d_ in ev.diagnostics):
            # a character of a constant string is asked for beyond its end (str(zone)[2] of a two-digit zone)
            return 'IndexError', 'string index out of range at %s' % [d_[1] for d_ in ev.diagnostics if d_[2] == 'subscript of Str'][0]
        cm = None
        for caller, callee, b, node in ev.calls:
            if callee == 'psfandgridconv' and caller == 'geo2grid':
                cm = b.get('cm')
        z = val.items[1] if isinstance(val, Tup) and len(val.items) > 1 else None
        return (z.as_fraction() if isinstance(z, Rat) else None), (cm.as_fraction() if isinstance(cm, Rat) else None)

    def utm(lon):
        z = (lon + 180) // 6 + 1
        return z, -183 + 6 * z

    def isg(lon):
        a = (lon + 180) // 6 + 1
        sub = ((lon + 180) % 6) // 2 + 1
        return 10 * a + sub, (a - 1) * 6 - 180 + 2 * sub - 1
    cases = []
    for lon in (F(-180), F(-17999, 100), F(-177), F(-174000001, 10 ** 6), F(-174), F(-171), F(-3), F(-1, 10 ** 6), F(0), F(3), F(6) - F(1, 10 ** 9),
                F(1409, 10), F(141), F(147), F(1506, 10), F(17399, 100), F(174), F(177), F(179999999, 10 ** 6)):
        z, cm = utm(lon)
        cases.append(('utm', lon, 0, z, cm))
    # +180 is what grid2geo and xyz2llh return for the antimeridian: the same meridian as -180, the western edge of zone 1 (not a zone 61,
    # which grid2geo refuses - the chain geographic -> grid -> geographic would not close)
    cases.append(('utm', F(180), 0, F(1), F(-177)))
    for lon, z in ((F(147), 55), (F(1506, 10), 55), (F(-177), 1), (F(-1795, 10), 2), (F(1795, 10), 60), (F(3), 31), (F(3), 30)):
        cases.append(('utm', lon, z, F(z), F(-183 + 6 * z)))
    # 144 and 150 are the first meridians of AMG zones 55 and 56: the fraction of the zone is exactly zero there (sub-zone 1, not a sub-zone 0)
    for lon in (F(140), F(1409, 10), F(141), F(142) - F(1, 10 ** 6), F(142), F(144), F(150), F(1506, 10), F(1531, 10), F(1485, 10)):
        z, cm = isg(lon)
        cases.append(('isg', lon, 0, z, cm))
    for z in ISG_ZONES:
        a, sub = divmod(z, 10)
        cm = (a - 1) * 6 - 180 + 2 * sub - 1
        for dl in (F(6, 10), F(-7, 10), F(17, 10)):
            cases.append(('isg', F(cm) + dl, z, F(z), F(cm)))
    # user-defined projections (odd and fractional zone widths): automatic zone = the strip whose central meridian is within half a zone
    # width of the longitude (longitudes east of zone 1, away from strip boundaries)
    for pn_ in sorted(CUSTOM):
        zw_, icm_ = F(CUSTOM[pn_][3]), F(CUSTOM[pn_][4])
        for off_ in (F(-14, 10), F(-2, 10), F(14, 10)):
            for k_ in (0, 1, 3, 17, 110):
                cm_ = icm_ + k_ * zw_
                lon_ = cm_ + off_ * zw_ / 3
                if -180 <= lon_ < 180:
                    cases.append((pn_, lon_, 0, F(k_ + 1), cm_))
    for prjname, lon, zarg, zwant, cmwant in cases:
        key = 'R-TABLE::geodepy/convert.py::geo2grid::zone-cm(%s,lon=%s,zone=%s)' % (prjname, float(lon), zarg)
        z, cm = run(lon, zarg, prjname)
        w = where(f, f.node)
        if z == 'IndexError':
            rep.violated('R-TABLE', key, w, 'geo2grid(lat, %s, zone=%s, prj=%s) raises IndexError (%s): the zone label is indexed as if it were a three-digit ISG zone - the projection is '
                         'taken for the ISG although it is another one' % (float(lon), zarg, prjname, cm), expected='zone %s, cm %s' % (zwant, cmwant), actual='IndexError')
        elif z is None or cm is None:
            rep.undecided('R-TABLE', key, w, 'zone / central meridian do not fold to numbers for these constant arguments')
        elif (z == zwant and cm == cmwant) or (zarg == 0 and prjname in ('utm', 'isg') and _strip_ok(prjname, lon, z, cm)):
            rep.holds('R-TABLE', key, w, '%s: longitude %s, zone argument %s -> zone %s, central meridian %s' % (prjname, float(lon), zarg, z, cm))
        else:
            rep.violated('R-TABLE', key, w, 'geo2grid(lat, %s, zone=%s, prj=%s) uses zone %s with central meridian %s; the %s the longitude lies in is zone %s with central meridian %s' % (
                float(lon), zarg, prjname, z, float(cm), 'strip' if zarg == 0 else 'requested zone; an explicit zone keeps its own central meridian:', zwant, cmwant),
                expected='zone %s, cm %s' % (zwant, cmwant), actual='zone %s, cm %s' % (z, cm))


def isg_zone_rule(repo, rep, fname, zone_param, allow_zero, bind):
    """with prj = isg the function accepts exactly the ten ISG zones (and 0 = automatic where the function computes the zone) - every zone
    of the table passes every raising test, and numbers next to the table are rejected.  The raising tests are evaluated as predicates at
    each zone value; the other inputs sit in the middle of their ranges."""
    from ..symval import Evaluator
    from .. import guards
    from fractions import Fraction as F
    m = repo.module('geodepy.convert')
    mc = repo.module('geodepy.constants')
    f = m.func(fname)
    ev = Evaluator(repo, opaque={'psfandgridconv', 'beta_coeff', 'alpha_coeff', 'rect_radius'})
    isg, ans = ev.global_value(mc, 'isg'), ev.global_value(mc, 'ans')
    b = dict(bind)
    b[zone_param] = Rat.sym('zone')
    b['prj'] = isg
    b['ellipsoid'] = ans
    ev.call_function(f, b)
    conds = [(c, n) for q, c, n in ev.raise_conds if q == f.qualname]
    zid = alg.TABLE.syms['zone'].id
    base = 'R-GUARD::%s::%s::isg-zone' % (f.module.relpath, fname)

    def fires(z):
        hit, unknown = None, False
        for c, n in conds:
            ids = set(c.atoms(deep=True)) if isinstance(c, Rat) else set()
            others = [i for i in ids if alg.TABLE.atoms[i].kind == 'sym' and i != zid]
            if others:
                continue            # a test on another input
            v = guards.numeval(c, {zid: F(z)})
            if v is None:
                unknown = True
            elif v != 0:
                hit = n
        return hit, unknown
    accept = list(ISG_ZONES) + ([0] if allow_zero else [])
    for z in accept:
        key = '%s(%d)' % (base, z)
        hit, unk = fires(z)
        if hit is not None:
            rep.violated('R-GUARD', key, where(f, hit), '%s(prj=isg) raises for zone %d, one of the ten ISG zones%s: `if %s: raise`' % (
                fname, z, ' (0 = compute the zone)' if z == 0 else '', stmt_text(hit.test)[:120]), expected='accepted', actual='raises')
        elif unk:
            rep.undecided('R-GUARD', key, where(f, f.node), 'a raising test could not be evaluated at zone %d' % z)
        else:
            rep.holds('R-GUARD', key, where(f, f.node), 'ISG zone %d passes every raising test on the zone' % z)
    probes = [z for z in (540, 544, 550, 554, 560, 564, 571, 573, 55, 56) + (() if allow_zero else (0,)) if z not in accept]
    missed = [z for z in probes if fires(z)[0] is None]
    key = base + '(outside)'
    if missed:
        rep.violated('R-GUARD', key, where(f, f.node), '%s(prj=isg) accepts zone(s) %s, which are not ISG zones' % (fname, missed), expected='ValueError', actual='accepted')
    else:
        rep.holds('R-GUARD', key, where(f, f.node), 'numbers next to the ISG zone table (%s) are rejected' % ', '.join(str(z) for z in probes))


ANGLE_CLASSES = ('DMSAngle', 'DDMAngle', 'DECAngle', 'HPAngle', 'GONAngle')


def typecheck_rules(repo, rep):
    """angular_typecheck (frozen as a summary in the formula rules: object -> .dec(), number -> itself) is what it is frozen as, for every
    class and for every value including zero"""
    from ..symval import Evaluator, CallV
    from ..symcheck import check_equal, compare_values, show
    m = repo.module('geodepy.angles')
    f = m.func('angular_typecheck')
    rep.analysed(f)
    w = where(f, f.node)
    for cn in ANGLE_CLASSES:
        ev = Evaluator(repo, opaque={cn + '.dec'})
        ev.summaries.pop('angular_typecheck', None)
        o = ev.symbolic_object(m.classes[cn], 'ang', origin='param:ang')
        got = ev.call_function(f, {f.params[0].name: o})
        want = ev.invoke(m.classes[cn].methods['dec'], [o], {}, None)
        key = 'R-DISPATCH::geodepy/angles.py::angular_typecheck::%s' % cn
        g = got.rat if isinstance(got, CallV) else got
        wv = want.rat if isinstance(want, CallV) else want
        truthy_of_value = False
        if isinstance(g, Rat) and isinstance(wv, Rat):
            wid = set(wv.atoms(deep=False))
            for i in g.atoms(deep=True):
                a = alg.TABLE.atoms[i]
                if a.kind == 'fn' and a.name == 'truthy' and a.args and isinstance(a.args[0], Rat) and wid & set(a.args[0].atoms(deep=True)):
                    truthy_of_value = True
        if truthy_of_value:
            rep.violated('R-DISPATCH', key, w, 'angular_typecheck(%s object) depends on the truthiness of the angle value: an angle of exactly zero takes another path '
                         '(%s)' % (cn, show(got, 3, 160)), expected='obj.dec() for every value', actual=show(got, 3, 200))
        elif compare_values(g, wv) == 'equal':
            rep.holds('R-DISPATCH', key, w, '%s objects are converted by their .dec()' % cn)
        else:
            rep.undecided('R-DISPATCH', key, w, 'angular_typecheck(%s object) = %s' % (cn, show(got, 3, 160)))
    # the function hands back a FLOAT whatever it is given: an object's .dec() or float(angle) - never the argument itself (a numpy
    # float32 or integer handed through keeps its own arithmetic: lon2 - lon1 is then evaluated in single precision)
    key = 'R-DISPATCH::geodepy/angles.py::angular_typecheck::float-contract'
    pn_ = f.params[0].name
    raw_ret = [r_ for r_ in ast.walk(f.node) if isinstance(r_, ast.Return) and isinstance(r_.value, ast.Name) and r_.value.id == pn_]
    if raw_ret:
        rep.violated('R-DISPATCH', key, where(f, raw_ret[0]), 'angular_typecheck returns its argument unconverted on one path (`%s`): a numpy.float32 / integer scalar keeps its own arithmetic in '
                     'vincinv, vincdir, geo2grid and llh2xyz - the longitude difference of two float32 values is formed in single precision (0.05 - 0.3 m in the distance)' % stmt_text(raw_ret[0])[:40],
                     expected='float(%s)' % pn_, actual=stmt_text(raw_ret[0])[:40])
    else:
        rep.holds('R-DISPATCH', key, w, 'every path of angular_typecheck returns obj.dec() or float(angle)', work=False)
    # the summary was confirmed on geodepy.angles.angular_typecheck: every module that calls the name must mean THAT function (a second
    # definition further down a module, or an import from somewhere else, shadows it - last binding wins)
    n_use = 0
    for mod in sorted(repo.modules.values(), key=lambda x_: x_.name):
        if not mod.name.startswith('geodepy') or '.tests' in mod.name:
            continue
        uses = [c for g_ in mod.all_functions() for c in ast.walk(g_.node) if isinstance(c, ast.Call) and isinstance(c.func, ast.Name) and c.func.id == 'angular_typecheck']
        if not uses:
            continue
        n_use += 1
        tgt = repo.resolve_global(mod, 'angular_typecheck')
        key = 'R-DISPATCH::%s::angular_typecheck::binding' % mod.relpath
        if tgt is f:
            rep.holds('R-DISPATCH', key, '%s:1' % mod.relpath, 'the %d calls of angular_typecheck in %s mean geodepy.angles.angular_typecheck' % (len(uses), mod.relpath), work=False)
        else:
            other = getattr(tgt, 'module', None)
            loc = '%s:%d' % (other.relpath, tgt.node.lineno) if other is not None and hasattr(tgt, 'node') else '%s:1' % mod.relpath
            # another function of the same name shadows it (the last binding of a module-level name wins): it is held to the same table
            bad = []
            decided = hasattr(tgt, 'node') and hasattr(tgt, 'params') and bool(tgt.params)
            if decided:
                for cn in ANGLE_CLASSES:
                    if cn == 'DECAngle':
                        continue        # a float subclass: float(obj) is its decimal degrees
                    ev = Evaluator(repo, opaque={cn + '.dec'})
                    ev.summaries.pop('angular_typecheck', None)
                    o = ev.symbolic_object(m.classes[cn], 'ang', origin='param:ang')
                    try:
                        got = ev.call_function(tgt, {tgt.params[0].name: o})
                    except Exception:
                        decided = False
                        break
                    want = ev.invoke(m.classes[cn].methods['dec'], [o], {}, None)
                    g = got.rat if isinstance(got, CallV) else got
                    wv = want.rat if isinstance(want, CallV) else want
                    if compare_values(g, wv) != 'equal':
                        bad.append((cn, show(got, 3, 100)))
            if not decided:
                rep.undecided('R-DISPATCH', key, loc, 'angular_typecheck as called in %s is %s, not geodepy.angles.angular_typecheck, and could not be evaluated' % (mod.relpath, loc))
            elif bad:
                rep.violated('R-DISPATCH', key, loc, 'angular_typecheck as called in %s is not geodepy.angles.angular_typecheck but the function at %s, which shadows it (the last binding of a '
                             'module-level name wins) and does not convert %s objects by their .dec() (%s): every conversion that reduces its arguments with it - vincdir, vincinv, geo2grid, '
                             'llh2xyz - reads such objects as decimal degrees' % (mod.relpath, loc, ', '.join(b[0] for b in bad), bad[0][1]),
                             expected='geodepy/angles.py::angular_typecheck (obj.dec() for all five classes)', actual='%s: %s' % (loc, bad[0][1]))
            else:
                rep.holds('R-DISPATCH', key, loc, 'the calls of angular_typecheck in %s mean the function at %s, which converts every angle class by its .dec() as well' % (mod.relpath, loc), work=False)
    ev = Evaluator(repo)
    ev.summaries.pop('angular_typecheck', None)
    ev.fold_const_types = True
    x = Rat.sym('x')
    got = ev.call_function(f, {f.params[0].name: x})
    key = 'R-DISPATCH::geodepy/angles.py::angular_typecheck::number'
    if isinstance(got, Rat):
        # under "x is a plain number": every type test against an angle class is false
        g = got
        for i in list(g.atoms(deep=True)):
            a = alg.TABLE.atoms[i]
        r = alg.decide_equal(strip_type_tests(got), x)
        if r == 'equal':
            rep.holds('R-DISPATCH', key, w, 'a plain number passes through float() unchanged')
        elif r == 'different':
            rep.violated('R-DISPATCH', key, w, 'angular_typecheck(number) is not the number: %s' % show(got, 3, 160), expected='x', actual=show(got, 3, 200))
        else:
            rep.undecided('R-DISPATCH', key, w, 'angular_typecheck(number) = %s' % show(got, 3, 160))
    else:
        rep.undecided('R-DISPATCH', key, w, 'angular_typecheck(number) = %s' % show(got, 3, 160))


def strip_type_tests(r):
    """replace ite(<type test of a plain number against a repo class>, a, b) by b"""
    from ..symval import _single_atom
    a = _single_atom(r) if isinstance(r, Rat) else None
    if a is not None and a.kind == 'fn' and a.name == 'ite' and isinstance(a.args[0], Rat):
        txt = alg.fmt(a.args[0], 6)
        if 'type(' in txt and 'geodepy/angles.py::' in txt:
            return strip_type_tests(a.args[2])
    return r


LIB_SCOPE = ['geodepy.constants', 'geodepy.transform', 'geodepy.survey', 'geodepy.statistics', 'geodepy.convert', 'geodepy.geodesy', 'geodepy.angles',
             'geodepy.coord', 'geodepy.ntv2reader']


def _names(e):
    return [n for n in ast.walk(e) if isinstance(n, ast.Name) and isinstance(n.ctx, ast.Load)]


def memo_verdict(repo, site):
    """a store G[key] = value into a module-level dict: ('memo', text) when the key contains everything the value is computed from,
    ('lossy', text) when some input of the value is missing from the key, ('unknown', text) otherwise"""
    from ..resolve import Resolver
    h = site.func
    node = site.node
    if not (isinstance(node, ast.Assign) and len(node.targets) == 1 and isinstance(node.targets[0], ast.Subscript) and isinstance(node.targets[0].value, ast.Name)):
        return 'unknown', 'not a keyed store'
    key_e, val_e = node.targets[0].slice, node.value
    params = [p.name for p in h.params]
    # single assignments of locals, for expanding key and value down to the parameters
    assigns = {}
    for st in ast.walk(h.node):
        if isinstance(st, ast.Assign) and len(st.targets) == 1 and isinstance(st.targets[0], ast.Name):
            assigns.setdefault(st.targets[0].id, []).append(st.value)

    def expand(e, depth=0):
        """expressions the value of e is built from, locals replaced by their (unique) definitions"""
        out = [e]
        if depth > 4:
            return out
        for n in _names(e):
            if n.id not in params and len(assigns.get(n.id, [])) == 1:
                out.extend(expand(assigns[n.id][0], depth + 1))
        return out
    key_parts = expand(key_e)
    val_parts = expand(val_e)
    bare_in_key = set()
    by_address = set()
    attrs_in_key = {}
    for part in key_parts:
        for n in ast.walk(part):
            if isinstance(n, ast.Attribute) and isinstance(n.value, ast.Name) and n.value.id in params:
                attrs_in_key.setdefault(n.value.id, set()).add(n.attr)
        # bare occurrences: a Name that is not the base of an attribute access - and not the argument of id(): an address is not a value
        bases = set(id(n.value) for n in ast.walk(part) if isinstance(n, ast.Attribute))
        in_id = set()
        for n in ast.walk(part):
            if isinstance(n, ast.Call) and isinstance(n.func, ast.Name) and n.func.id == 'id':
                for a_ in n.args:
                    for x_ in ast.walk(a_):
                        in_id.add(id(x_))
                        if isinstance(x_, ast.Name) and x_.id in params:
                            by_address.add(x_.id)
        for n in _names(part):
            if n.id in params and id(n) not in bases and id(n) not in in_id:
                bare_in_key.add(n.id)
    rs = Resolver(repo)
    used = {}       # param -> set of attributes read, or {'*'} when used whole and the reads are not known
    for part in val_parts:
        bases = set(id(n.value) for n in ast.walk(part) if isinstance(n, ast.Attribute))
        for n in ast.walk(part):
            if isinstance(n, ast.Attribute) and isinstance(n.value, ast.Name) and n.value.id in params:
                used.setdefault(n.value.id, set()).add(n.attr)
        for n in _names(part):
            if n.id in params and id(n) not in bases:
                used.setdefault(n.id, set())
                # whole-object use: which attributes does the receiving code read?
                reads = whole_object_reads(repo, rs, h, part, n)
                used[n.id] |= reads
    missing = []
    unknown = []
    for p_, attrs in sorted(used.items()):
        if p_ in bare_in_key:
            continue
        if not attrs:
            # a plain value (number, string, date) used in the value but absent from the key
            if p_ not in attrs_in_key:
                missing.append(p_)
            continue
        if '*' in attrs:
            if p_ not in attrs_in_key:
                missing.append(p_)
            else:
                unknown.append(p_)
            continue
        lack = attrs - attrs_in_key.get(p_, set())
        if lack:
            missing.append('%s.%s' % (p_, '/'.join(sorted(lack)[:4])))
    addr = sorted(p_ for p_ in by_address if p_ in used and p_ not in bare_in_key)
    if addr:
        return 'lossy', 'the key identifies %s by id(): the address of an object, which a different or a modified object can have later, not its value' % ', '.join(addr)
    if missing:
        return 'lossy', 'the stored value is computed from %s, which the key %s does not contain' % (', '.join(missing), ast.unparse(key_e)[:80])
    if unknown:
        return 'unknown', 'cannot tell which attributes of %s the stored value depends on' % ', '.join(unknown)
    return 'memo', 'the key %s contains every input of the stored value' % ast.unparse(key_e)[:80]


def whole_object_reads(repo, rs, h, part, name_node):
    """attributes of the object `name_node` that the code receiving it reads: for an argument of a resolved call the attribute loads on the
    corresponding parameter (one level), for the left operand of + - * / the loads on self in the operator method; {'*'} when not resolvable;
    empty set for non-objects cannot be told apart here, so a resolved callee without attribute loads gives the empty set"""
    from ..model import Func
    for c in ast.walk(part):
        if isinstance(c, ast.Call):
            for i_, a in enumerate(c.args):
                if a is name_node:
                    t = rs.callee(h, c)
                    if isinstance(t, Func):
                        ps = [p.name for p in t.params]
                        if i_ < len(ps):
                            return set(n.attr for n in ast.walk(t.node) if isinstance(n, ast.Attribute) and isinstance(n.value, ast.Name) and n.value.id == ps[i_]) or set()
                    return {'*'}
            for kw in c.keywords:
                if kw.value is name_node:
                    t = rs.callee(h, c)
                    if isinstance(t, Func):
                        return set(n.attr for n in ast.walk(t.node) if isinstance(n, ast.Attribute) and isinstance(n.value, ast.Name) and n.value.id == kw.arg) or set()
                    return {'*'}
        if isinstance(c, ast.BinOp) and c.left is name_node:
            mname = {ast.Add: '__add__', ast.Sub: '__sub__', ast.Mult: '__mul__', ast.Div: '__truediv__'}.get(type(c.op))
            cls = rs.expr_class(h, c.left) if hasattr(rs, 'expr_class') else None
            if cls is not None and mname in cls.methods:
                m = cls.methods[mname]
                return set(n.attr for n in ast.walk(m.node) if isinstance(n, ast.Attribute) and isinstance(n.value, ast.Name) and n.value.id == 'self') or set()
            # class not known: every Transformation-like object of the repository defining this operator
            need = set(n.attr for n in ast.walk(h.node) if isinstance(n, ast.Attribute) and isinstance(n.value, ast.Name) and n.value.id == name_node.id)

            def fields_of(k):
                init = k.methods.get('__init__')
                return set(n.attr for n in ast.walk(init.node) if isinstance(n, ast.Attribute) and isinstance(n.value, ast.Name) and n.value.id == 'self') if init else set()
            cands = [k.methods[mname] for mod in repo.modules.values() for k in mod.classes.values() if mname in k.methods and need <= (fields_of(k) | set(k.methods))]
            if len(cands) == 1:
                m = cands[0]
                return set(n.attr for n in ast.walk(m.node) if isinstance(n, ast.Attribute) and isinstance(n.value, ast.Name) and n.value.id == 'self') or set()
            return {'*'}
        if isinstance(c, ast.UnaryOp) and c.operand is name_node:
            return {'*'}
    return set()


def state_rule(repo, rep, funcs, scope=None):
    """a conversion keeps no state between calls: neither it nor anything it calls writes a module-level object - except a memo whose key
    contains every input of the stored value (then the result still depends on the arguments only).
    funcs: [(module, qualname)]"""
    from ..purity import Purity
    pur = Purity(repo, scope or LIB_SCOPE)
    for mod, q in funcs:
        g = repo.func(mod, q)
        key = 'R-PURE::%s::%s::state' % (g.module.relpath, q)
        sites = list(pur.mut_global[id(g)])
        # a mutable default argument written by the function is state kept between calls as well
        seen_f = set()
        todo = [g]
        from ..model import Func
        while todo:
            h_ = todo.pop()
            if id(h_) in seen_f:
                continue
            seen_f.add(id(h_))
            for pn, (site, path) in pur.mut_params.get(id(h_), {}).items():
                prm = [p_ for p_ in h_.params if p_.name == pn]
                if prm and isinstance(prm[0].default, (ast.Dict, ast.List, ast.Set)) or (prm and isinstance(prm[0].default, ast.Call) and getattr(prm[0].default.func, 'id', '') in ('dict', 'list', 'set')):
                    if site.func is h_:
                        sites.append((site, [h_.qualname] if h_ is not g else []))
            for c in ast.walk(h_.node):
                if isinstance(c, ast.Call):
                    t = pur.rs.callee(h_, c)
                    if isinstance(t, Func) and id(t) in pur.mut_params:
                        todo.append(t)
        if not sites:
            rep.holds('R-PURE', key, where(g, g.node), '%s and its callees keep no state between calls' % q)
            continue
        for site, path in sites[:3]:
            verdict, txt = memo_verdict(repo, site)
            via = (' via ' + ' -> '.join(path)) if path else ''
            k2 = key + '::' + site.target
            if verdict == 'memo':
                rep.holds('R-PURE', k2, site.where, '%s%s keeps a memo (%s): %s' % (q, via, site.text[:60], txt))
            elif verdict == 'lossy':
                rep.violated('R-PURE', k2, site.where, '%s%s keeps module-level state (%s) under a lossy key: %s - a later call with another value of it gets the earlier result' % (
                    q, via, site.text[:80], txt), expected='a key holding every input of the stored value, or no state', actual=site.text[:200])
            elif verdict == 'unknown' and txt != 'not a keyed store':
                rep.undecided('R-PURE', k2, site.where, '%s%s keeps module-level state (%s): %s' % (q, via, site.text[:80], txt))
            else:
                rep.violated('R-PURE', k2, site.where, '%s%s writes module-level state (%s): its result then depends on earlier calls, not only on its arguments' % (
                    q, via, site.text[:100]), expected='no state kept between calls', actual=site.text[:200])


def domain_guards(repo, rep, mod, q, symnames, domain, what, integer=(), opaque=(), suffix=''):
    """the function's own raising tests, decided as predicates over the input box of the property (none may fire inside)"""
    from .. import guards
    from ..symval import Evaluator
    f = repo.func(mod, q)
    ev = Evaluator(repo, opaque=set(opaque))
    ps = [p.name for p in f.params]
    args = dict((ps[i], Rat.sym(symnames[i])) for i in range(min(len(symnames), len(ps))) if symnames[i])
    try:
        ev.call_function(f, args)
    except RecursionError:
        pass
    n = guards.guard_rule(rep, 'R-GUARD', f, ev.raise_conds, domain, what, lambda nd: where(f, nd), integer=integer, suffix=suffix)
    if n == 0:
        rep.holds('R-GUARD', 'R-GUARD::%s::%s::no-own-tests%s' % (f.module.relpath, q, suffix), where(f, f.node), '%s has no raising input test of its own' % q)


_ITER_EXAMPLE = '''
def pick(grids, lat):
    found = (g for g in grids if g.s_lat <= lat < g.n_lat)
    first = next(found, None)
    if first is None:
        return None
    return min(found, key=lambda g: g.lat_inc, default=first)
'''


def _iterator_reuse(fnode):
    """names of fnode bound ONCE to a one-shot iterator (generator expression, map / filter / zip / iter / reversed / enumerate, itertools) and
    read at two places that one execution can both reach -> [(name, binding, first use, second use)]"""
    from ..purity import _one_shot
    binds = {}
    for n in ast.walk(fnode):
        if isinstance(n, ast.Assign) and len(n.targets) == 1 and isinstance(n.targets[0], ast.Name):
            binds.setdefault(n.targets[0].id, []).append(n)
        elif isinstance(n, (ast.AugAssign, ast.AnnAssign)) and isinstance(n.target, ast.Name):
            binds.setdefault(n.target.id, []).append(n)
        elif isinstance(n, (ast.For, ast.comprehension)):
            for t in ast.walk(n.target):
                if isinstance(t, ast.Name):
                    binds.setdefault(t.id, []).append(n)
    # exclusive arms: (If node id) -> sets of node ids in body / orelse
    arms = []
    for n in ast.walk(fnode):
        if isinstance(n, ast.If):
            b = set(id(x) for s in n.body for x in ast.walk(s))
            o = set(id(x) for s in n.orelse for x in ast.walk(s))
            arms.append((b, o))
    out = []
    for name, bs in sorted(binds.items()):
        if len(bs) != 1 or not isinstance(bs[0], ast.Assign) or not _one_shot(bs[0].value):
            continue
        uses = sorted((n for n in ast.walk(fnode) if isinstance(n, ast.Name) and n.id == name and isinstance(n.ctx, ast.Load)),
                      key=lambda n: (n.lineno, n.col_offset))
        for i in range(len(uses)):
            for j in range(i + 1, len(uses)):
                a, b = uses[i], uses[j]
                if any((id(a) in x and id(b) in y) or (id(a) in y and id(b) in x) for x, y in arms):
                    continue
                out.append((name, bs[0], a, b))
                break
            else:
                continue
            break
    return out


def iterator_reuse_rule(repo, rep, modnames):
    """a generator expression / map / filter / zip object can be walked ONCE: a probe (`next(it, None)`, `any(it)`, a first loop) takes elements
    away from whatever reads it afterwards - the selection that follows no longer sees every candidate.  One instance per function of the
    listed modules; the detector is run on a built-in example on every run (the expected count on the repository is zero)."""
    ex = ast.parse(_ITER_EXAMPLE).body[0]
    if len(_iterator_reuse(ex)) != 1:
        raise AnalysisError('iterator-reuse detector does not fire on its built-in example')
    for mn in modnames:
        m = repo.module(mn)
        for f in m.all_functions():
            key = 'R-STATE::%s::%s::one-shot-iterator' % (m.relpath, f.qualname)
            hits = _iterator_reuse(f.node)
            if hits:
                name, b, u1, u2 = hits[0]
                rep.violated('R-STATE', key, where(f, u2), '`%s` is a one-shot iterator (`%s`) and is read twice on one path (line %d: `%s`, line %d): what the first use takes '
                             'out of it is missing for the second - a probe for "empty" removes the first candidate from the selection that follows'
                             % (name, stmt_text(b)[:70], u1.lineno, name, u2.lineno), expected='a list / tuple, or one single pass', actual=stmt_text(b)[:100])
            else:
                rep.holds('R-STATE', key, where(f, f.node), 'no one-shot iterator is read twice', work=False)


def antimeridian_symmetry_rule(repo, rep):
    """an explicit zone next to the antimeridian is asked for longitudes on its other side (zone 60 for 179.25 W, zone 1 for 179.5 E): the raw
    difference lon - cm is then beyond +/-180 degrees and only its sine and cosine may matter.  The Transverse Mercator image is mirror-
    symmetric about the central meridian: geo2grid is evaluated with constant arguments at a point across the antimeridian and at its
    mirror image on the near side of the central meridian - eastings must be opposite about the false easting, northings equal."""
    from fractions import Fraction as F
    from ..symval import Evaluator, Tup
    m = repo.module('geodepy.convert')
    mc = repo.module('geodepy.constants')
    f = m.func('geo2grid')
    ps = [p.name for p in f.params]

    def run(lat, lon, zone):
        ev = Evaluator(repo, opaque={'psfandgridconv'})
        try:
            val = ev.call_function(f, {ps[0]: C(lat), ps[1]: C(lon), ps[2]: C(zone), 'ellipsoid': ev.global_value(mc, 'grs80'), 'prj': ev.global_value(mc, 'utm')})
            if not isinstance(val, Tup) or len(val.items) < 4:
                return None
            return alg.evalf(val.items[2], {}).real, alg.evalf(val.items[3], {}).real
        except Exception:
            return None
    for lat, lon_far, lon_near, zone in ((F(-67, 2), F(-717, 4), F(693, 4), 60), (F(45), F(359, 2), F(-347, 2), 1), (F(-67, 2), F(-359, 2), F(347, 2), 60)):
        key = 'R-TABLE::geodepy/convert.py::geo2grid::antimeridian-mirror(zone=%d,lon=%s)' % (zone, float(lon_far))
        a, b = run(lat, lon_far, zone), run(lat, lon_near, zone)
        w = where(f, f.node)
        if a is None or b is None:
            rep.undecided('R-TABLE', key, w, 'geo2grid does not fold to numbers at the two mirror points')
        elif abs((a[0] - 500000) + (b[0] - 500000)) < 1e-3 and abs(a[1] - b[1]) < 1e-3:
            rep.holds('R-TABLE', key, w, 'zone %d: longitude %s (across the antimeridian) and its mirror image %s give eastings %.4f / %.4f (opposite about 500 000) and equal northings' % (
                zone, float(lon_far), float(lon_near), a[0], b[0]))
        else:
            rep.violated('R-TABLE', key, w, 'geo2grid(%s, %s, zone=%d) gives E %.4f N %.4f; the mirror image about the central meridian, longitude %s, gives E %.4f N %.4f - the two must be opposite '
                         'about the false easting with equal northings: something other than the sine / cosine of lon - cm (here %s degrees) enters the result'
                         % (float(lat), float(lon_far), zone, a[0], a[1], float(lon_near), b[0], b[1], float(lon_far) - (-183 + 6 * zone)),
                         expected='E = %.4f' % (1000000 - b[0]), actual='E = %.4f' % a[0])


_LATE_EXAMPLES = '''
def table(pairs):
    return {k: (lambda v: getattr(v, name)()) for k, name in pairs}

def handler(args):
    kind = args['from']
    vals = (conv[kind](args[k]) for k in ('a', 'b'))
    kind = args['to']
    return run(*vals)
'''


def _late_bindings(scope_node):
    """late-binding hazards inside one function (or module) body:
    (a) a lambda / nested def created inside a loop or comprehension that reads the loop variable as a FREE variable (not through a default
        argument): every closure sees the value of the LAST iteration;
    (b) a generator expression bound to a name whose element expression reads a local that is re-bound before the generator is consumed
        (only the outermost iterable of a generator expression is evaluated when it is created).
    -> [(kind, node, variable name, detail)]"""
    out = []

    def free_names(fn):
        if isinstance(fn, ast.Lambda):
            params = set(a.arg for a in fn.args.args + fn.args.kwonlyargs) | ({fn.args.vararg.arg} if fn.args.vararg else set()) | ({fn.args.kwarg.arg} if fn.args.kwarg else set())
            body_nodes = list(ast.walk(fn.body))
        else:
            params = set(a.arg for a in fn.args.args + fn.args.kwonlyargs)
            body_nodes = [x for st in fn.body for x in ast.walk(st)]
        assigned = set(x.id for x in body_nodes if isinstance(x, ast.Name) and isinstance(x.ctx, ast.Store))
        return set(x.id for x in body_nodes if isinstance(x, ast.Name) and isinstance(x.ctx, ast.Load)) - params - assigned

    # (a)
    for n in ast.walk(scope_node):
        loopvars = set()
        bodies = []
        if isinstance(n, (ast.ListComp, ast.SetComp, ast.GeneratorExp)):
            bodies = [n.elt]
        elif isinstance(n, ast.DictComp):
            bodies = [n.key, n.value]
        elif isinstance(n, ast.For):
            bodies = list(n.body)
        if not bodies:
            continue
        gens = n.generators if not isinstance(n, ast.For) else []
        targets = [g.target for g in gens] if gens else [n.target]
        for t in targets:
            loopvars |= set(x.id for x in ast.walk(t) if isinstance(x, ast.Name))
        for b in bodies:
            for fn in ast.walk(b):
                if isinstance(fn, (ast.Lambda, ast.FunctionDef)):
                    hit = sorted(free_names(fn) & loopvars)
                    # called on the spot (an immediately applied lambda) is no hazard; neither is a key= function consumed inside the iteration
                    parent_call = any(isinstance(c, ast.Call) and (c.func is fn or any(k.value is fn for k in c.keywords) or any(a is fn for a in c.args)) for c in ast.walk(b))
                    if hit and not parent_call:
                        out.append(('closure', fn, hit[0], 'created once per iteration, reads the loop variable when CALLED'))
    # (b)
    body = scope_node.body if hasattr(scope_node, 'body') and isinstance(scope_node.body, list) else []
    flat = []
    for st in body:
        flat.append(st)
    for i, st in enumerate(flat):
        if isinstance(st, ast.Assign) and len(st.targets) == 1 and isinstance(st.targets[0], ast.Name) and isinstance(st.value, ast.GeneratorExp):
            g = st.value
            own = set(x.id for gen in g.generators for x in ast.walk(gen.target) if isinstance(x, ast.Name))
            inner = [g.elt] + [c for gen in g.generators for c in gen.ifs] + [gen.iter for gen in g.generators[1:]]
            reads = set(x.id for e in inner for x in ast.walk(e) if isinstance(x, ast.Name) and isinstance(x.ctx, ast.Load)) - own
            gname = st.targets[0].id
            for j in range(i + 1, len(flat)):
                later = flat[j]
                uses = any(isinstance(x, ast.Name) and x.id == gname and isinstance(x.ctx, ast.Load) for x in ast.walk(later))
                rebinds = sorted(set(x.id for x in ast.walk(later) if isinstance(x, ast.Name) and isinstance(x.ctx, ast.Store)) & reads)
                if rebinds and any(any(isinstance(x, ast.Name) and x.id == gname and isinstance(x.ctx, ast.Load) for x in ast.walk(l2)) for l2 in flat[j:] if l2 is not later or not uses):
                    out.append(('generator', st, rebinds[0], 're-bound at line %d before the generator is consumed' % later.lineno))
                    break
                if uses:
                    break
    return out


def late_binding_rule(repo, rep, modnames):
    """closures and generator expressions read their free variables when they RUN, not when they are written: a table of lambdas built in a
    comprehension calls the LAST entry's method for every key; a lazily converted tuple of inputs is converted with whatever a re-used local
    holds by then.  One instance per function (and one per module body) of the listed modules; the detector must fire on its built-in
    examples on every run."""
    ex = ast.parse(_LATE_EXAMPLES)
    got = [k for fn in ex.body for k, _, _, _ in _late_bindings(fn)]
    if sorted(got) != ['closure', 'generator']:
        raise AnalysisError('late-binding detector does not fire on its built-in examples: %s' % got)
    for mn in modnames:
        m = repo.module(mn)
        scopes = [(f.qualname, f.node, f) for f in m.all_functions()] + [('<module>', m.tree, None)]
        for q, node, f in scopes:
            key = 'R-STATE::%s::%s::late-binding' % (m.relpath, q)
            if f is None:
                # module level: only the statements outside function and class bodies
                class _M(object):
                    pass
                top = ast.Module(body=[st for st in node.body if not isinstance(st, (ast.FunctionDef, ast.ClassDef))], type_ignores=[])
                hits = _late_bindings(top)
            else:
                hits = _late_bindings(node)
            wh = (lambda nd: where(f, nd)) if f is not None else (lambda nd: '%s:%d' % (m.relpath, getattr(nd, 'lineno', 1)))
            if hits:
                kind, nd, var, detail = hits[0]
                if kind == 'closure':
                    rep.violated('R-STATE', key, wh(nd), '`%s` reads the loop variable `%s` as a free variable: it is looked up when the closure is CALLED, after the loop - every entry '
                                 'built this way behaves like the last one (a dispatch table whose every notation calls the last conversion)' % (stmt_text(nd)[:60], var),
                                 expected='bind it per iteration (lambda x, %s=%s: ...)' % (var, var), actual=stmt_text(nd)[:100])
                else:
                    rep.violated('R-STATE', key, wh(nd), '`%s` is a generator expression: its element expression reads `%s` when the generator is CONSUMED, and `%s` is %s - the values are '
                                 'computed with the later binding' % (stmt_text(nd)[:70], var, var, detail), expected='a list / tuple built on the spot', actual=stmt_text(nd)[:100])
            else:
                rep.holds('R-STATE', key, wh(node) if f is not None else '%s:1' % m.relpath, 'no closure or lazy generator reads a variable that changes before it runs', work=False)


def chained_index_rule(repo, rep, funcs, params=('vcv', 'vcv_local', 'vcv_cart', 'var1', 'var2', 'cov12')):
    """`m[i][j]` and `m[i, j]` are the same element of an ndarray, not of a numpy.matrix: there `m[i]` is still a 1 x n MATRIX and `[j]` indexes
    its rows again (IndexError for j > 0, the wrong element never).  A covariance handed in as numpy.matrix - "any 3x3 matrix" - is read
    correctly by tuple indexing only.  One instance per listed function: element reads of its covariance parameters."""
    for mod, q in funcs:
        f = repo.func(mod, q)
        names = set(p.name for p in f.params) & set(params)
        key = 'R-TYPE::%s::%s::element-access' % (f.module.relpath, q)
        if not names:
            continue
        bad = None
        for n in ast.walk(f.node):
            if isinstance(n, ast.Subscript) and isinstance(n.value, ast.Subscript) and isinstance(n.value.value, ast.Name) and n.value.value.id in names \
                    and not isinstance(n.value.slice, (ast.Tuple, ast.Slice)) and not isinstance(n.slice, (ast.Tuple, ast.Slice)) and isinstance(n.ctx, ast.Load):
                bad = bad or n
        if bad is not None:
            rep.violated('R-TYPE', key, where(f, bad), '`%s` reads an element of the caller\'s matrix by chained indexing: for a numpy.matrix the first index returns a 1 x n matrix and the second '
                         'indexes rows again - IndexError (or a shape error in the store) where `%s[i, j]` reads the element; an ndarray hides it' % (stmt_text(bad), bad.value.value.id),
                         expected='%s[i, j]' % bad.value.value.id, actual=stmt_text(bad))
        else:
            rep.holds('R-TYPE', key, where(f, f.node), 'elements of the covariance arguments are read with one index tuple', work=False)
