"""C04 - Vincenty direct (geodesy.vincdir): named necessary conditions only."""
import ast
from fractions import Fraction as F
from .. import alg
from ..alg import Rat, C
from ..model import AnalysisError
from ..symval import Evaluator, Tup
from ..symcheck import Oracle, sym_ellipsoid, check_equal, leaves, show, compare_values
from ..rules import ThreadRule, where
from ..mutate import replace_in_function, substitute
from . import common, vincenty as V

META = {
    'level': 'other',
    'rule_text': 'rule instances: A(u^2), B(u^2) tables (tolerance-aware, A also derived from first principles), setup quantities '
                 '(u1, sigma1, alpha, sigma0), the iteration map of sigma, the three result formulas, provenance, iteration cap and '
                 'threshold, rounding granularity, angle-argument conversion; angular_typecheck dispatch per angle class (no dependence on the truthiness of the angle value); statelessness with memo-key analysis',
    'explanation': 'Static: vincdir is abstractly evaluated (loop summarised into its transfer function) and compared with the equations '
                   'of the GDA2020 technical manual. Decides the named necessary conditions: every constant comes from the ellipsoid of '
                   'the call, the series tables are Vincenty\'s, the iteration map and the closing formulas are the published ones, the '
                   'iteration has a cap and a threshold below 0.1 mm. It does NOT decide that Vincenty\'s truncated method reaches 1 mm '
                   'against the exact geodesic - a numerical fact about the method that no static argument here can bound.',
}


def run(repo, rep):
    alg.reset()
    # sample points of the numeric witnesses over the property's box: distances up to the antipode (sigma beyond a quarter turn), every azimuth
    from .. import symcheck as _sc
    _sc.set_ranges({'s': (1.0e3, 1.9e7), 'az': (1.0, 359.0), 'lat1': (-85.0, 85.0), 'lon1': (-175.0, 175.0)})
    common.state_rule(repo, rep, [('geodepy.geodesy', 'vincdir')])
    # 'any ellipsoid': the class keeps the defining constants it is given and derives the rest from them
    common.ellipsoid_rules(repo, rep, projections=False)
    common.typecheck_rules(repo, rep)
    common.domain_guards(repo, rep, 'geodepy.geodesy', 'vincdir', ['lat1', 'lon1', 'az', 'dist'],
                         {'lat1': (-90, 90), 'lon1': (-180, 180), 'az': (0, 360), 'dist': (0, 20000000)}, 'latitudes -90..90, longitudes -180..180, azimuths 0..360, distances 0..20 000 km')
    rep.trust('sv/alg.py exact normal forms; generator independence modulo the rewrite rules applied')
    rep.trust('reference equations: GDA2020 technical manual v1.x eq. 88-102 (Vincenty 1975)')
    f = repo.func('geodepy.geodesy', 'vincdir')
    rep.analysed(f)
    w = where(f, f.node)
    tr = ThreadRule(repo, rep)
    tr.check_const(f)
    tr.check_function(f)       # helpers that take an ellipsoid must receive the caller's
    Ac, Bc = V.series_tables(repo, rep, f, '')
    ev = Evaluator(repo)
    E = sym_ellipsoid(ev, repo, 'ellipsoid')
    ps = [p.name for p in f.params]
    val = ev.call_function(f, {ps[0]: Rat.sym('lat1'), ps[1]: Rat.sym('lon1'), ps[2]: Rat.sym('az'), ps[3]: Rat.sym('s'), ps[4]: E})
    base = 'R-FORMULA::geodepy/geodesy.py::vincdir::'
    loops = ev.loops.get(f.key, [])
    if not isinstance(val, Tup) or len(val.items) != 3 or len(loops) != 1:
        rep.undecided('R-FORMULA', base + 'shape', w, 'vincdir is not a triple-returning routine with one iteration loop')
        return
    L = loops[0]
    orc = Oracle(V.ORACLE)
    a, b, fl = E.fields['semimaj'], E.fields['semimin'], E.fields['f']
    setup = orc.call('direct_setup', lat1=Rat.sym('lat1'), az_deg=Rat.sym('az'), s=Rat.sym('s'), a=a, b=b, f=fl, Ac=Ac, Bc=Bc)
    u1, sigma1, alpha, A, B, sigma0 = setup.items
    # identify the carried variables by their transfer functions
    S = None
    M = None
    for v in L.carried:
        if v not in L.post:
            continue
        tsm_ref, new_ref = orc.call('direct_step', sigma=L.pre[v], sigma1=sigma1, A=A, B=B, s=Rat.sym('s'), b=b).items
        if compare_values(L.post[v], new_ref) == 'equal':
            S = v
            for m in L.carried:
                if m in L.post and compare_values(L.post[m], tsm_ref) == 'equal':
                    M = m
    wl = where(f, L.node)
    if S is None:
        # report against the variable whose entry value is sigma0
        cand = [v for v in L.carried if v in L.entry and compare_values(L.entry[v], sigma0) == 'equal' and v in L.post]
        if cand:
            v = cand[0]
            tsm_ref, new_ref = orc.call('direct_step', sigma=L.pre[v], sigma1=sigma1, A=A, B=B, s=Rat.sym('s'), b=b).items
            check_equal(rep, 'R-FORMULA', base + 'iteration', wl, L.post[v], new_ref,
                        'sigma <- s/(bA) + delta_sigma(B, sigma, cos(2 sigma1 + sigma))')
        else:
            # the setup itself differs: compare entry values of all carried variables that have one
            hit = False
            for v in L.carried:
                if v in L.entry and isinstance(L.entry[v], Rat) and not L.entry[v].is_const():
                    check_equal(rep, 'R-FORMULA', base + 'sigma0', wl, L.entry[v], sigma0, 'initial sigma = s/(b A) with u1, alpha, u^2, A from the call\'s ellipsoid')
                    hit = True
                    break
            if not hit:
                rep.undecided('R-FORMULA', base + 'iteration', wl, 'no loop-carried variable follows the sigma iteration')
            # ... and the quantities the iteration starts from, where the routine keeps them under their textbook names (Eq. 88 - 90)
            envl = ev.last_env or {}
            for nm_, ref_, txt_ in (('u1', u1, 'reduced latitude u1 = atan((1 - f) tan(lat1)) (Eq. 88), for every latitude - both poles included'),
                                    ('sigma1', sigma1, 'sigma1 = atan2(tan u1, cos az) (Eq. 89)')):
                if isinstance(envl.get(nm_), Rat):
                    check_equal(rep, 'R-FORMULA', base + 'setup::' + nm_, w, envl[nm_], ref_, txt_)
        return
    rep.holds('R-FORMULA', base + 'iteration', wl, '%s <- s/(bA) + delta_sigma(B, %s, cos(2 sigma1 + %s)) (nested form of eq. 96)' % (S, S, S))
    check_equal(rep, 'R-FORMULA', base + 'sigma0', wl, L.entry.get(S), sigma0, 'initial sigma = s/(b A) with u1, alpha, u^2, A from the call\'s ellipsoid')
    if M is None:
        # no variable of the loop carries 2 sigma_m out of it (the update may live in a nested function whose assignment is local): the
        # final formulas (Eq. 98 - 102) need 2 sigma_m = 2 sigma1 + sigma at the CONVERGED sigma - they are compared with exactly that
        rep.holds('R-FORMULA', base + 'two_sigma_m', wl, 'no carried variable holds 2 sigma1 + %s: the result formulas are compared with 2 sigma1 + the converged %s' % (S, S), work=False)
        tsm_final = C(2) * sigma1 + Rat.sym('%s@L%d' % (S, L.index))
    else:
        rep.holds('R-FORMULA', base + 'two_sigma_m', wl, '%s <- 2 sigma1 + %s' % (M, S))
        tsm_final = Rat.sym('%s@L%d' % (M, L.index))
    fin = orc.call('direct_finish', lon1=Rat.sym('lon1'), az_deg=Rat.sym('az'), u1=u1, alpha=alpha,
                   sigma=Rat.sym('%s@L%d' % (S, L.index)), tsm=tsm_final, f=fl)
    names = ['lat2', 'lon2', 'azimuth2to1']
    texts = ['lat2 = atan2(sin u1 cos s + cos u1 sin s cos az, (1-f) sqrt(sin^2 alpha + (...)^2))',
             'lon2 = lon1 + degrees(lambda - (1-C) f sin alpha (sigma + C sin sigma (cos 2sm + C cos sigma (-1 + 2 cos^2 2sm))))',
             'azimuth2to1 = degrees(atan2(sin alpha, -sin u1 sin sigma + cos u1 cos sigma cos az)) + 180']
    from ..symcheck import strip_turn_folds, prune_infeasible
    for i in range(3):
        # a re-mapping of an argument under a test that no point of the domain satisfies (`if lon1 > 180: lon1 -= 360`) is the identity
        got_i = prune_infeasible(val.items[i], {'lat1': (-90, 90), 'lon1': (-180, 180), 'az': (0, 360)})
        if i == 1 and LON_MODULO_TURN[0]:
            # the property compares the longitude modulo 360 degrees: a wrap of the result (or of lon1, which enters linearly) into a
            # principal range changes the representative, not the longitude
            got_i = strip_turn_folds(got_i)
        check_equal(rep, 'R-FORMULA', base + names[i], w, got_i, fin.items[i], texts[i] + (' (modulo a full turn)' if i == 1 else ''))
    rep.floor('R-FORMULA', 5, 'iteration, sigma0, three results')
    # provenance
    bad = []
    vals = list(val.items) + list(L.post.values()) + list(L.entry.values())
    for v in vals:
        for leaf in sorted(leaves(v)):
            if leaf.startswith('arg:'):
                if 'const:' in leaf:
                    bad.append(leaf)
            elif '@L' in leaf:
                continue
            elif not leaf.startswith(('lat1', 'lon1', 'az', 's', 'pi', 'ellipsoid.')):
                bad.append(leaf)
    key = 'R-LEAVES::geodepy/geodesy.py::vincdir::results'
    if bad:
        rep.violated('R-LEAVES', key, w, 'vincdir uses values that do not come from its arguments or its own ellipsoid: %s' % sorted(set(bad))[:6])
    else:
        rep.holds('R-LEAVES', key, w, 'f, a, b in every formula and in the iteration come from the ellipsoid parameter')
    # bound and threshold
    key = 'R-BOUND::geodepy/geodesy.py::vincdir::iteration'
    V.module_consts(f.module)
    cap = V.loop_cap(L.node)
    thr = V.loop_break_threshold(L.node)
    if cap is None:
        rep.violated('R-BOUND', key, wl, 'the sigma iteration has no syntactic cap', expected='for i in range(N)', actual='unbounded loop')
    elif thr is None or thr > 1e-11:
        rep.violated('R-BOUND', key, wl, 'the sigma iteration stops at |d sigma| < %s: times b = 6.4e6 m this is looser than 0.1 mm' % thr,
                     expected='threshold <= 1e-11', actual=str(thr))
    elif cap < 20:
        # the sigma iteration contracts by about e'^2 / 4 = 2e-3 per pass: five or six passes reach 1e-12; a cap below a few times that
        # leaves no room (a cap of 3 returns unconverged values for long lines)
        rep.violated('R-BOUND', key, wl, 'the sigma iteration is capped at %s passes: reaching |d sigma| < %s takes five or six, and the loop has no other exit' % (cap, thr),
                     expected='a cap of 20 or more', actual=str(cap))
    else:
        rep.holds('R-BOUND', key, wl, 'iteration cap %s, threshold %s rad (%.2g m on the ellipsoid)' % (cap, thr, thr * 6.4e6))
    # rounding
    need = {0: 10, 1: 10, 2: 9}
    for fn, digits, value, line in ev.roundings:
        if fn != 'vincdir':
            continue
        for i in range(3):
            if isinstance(value, Rat) and isinstance(val.items[i], Rat) and value.num == val.items[i].num and value.den == val.items[i].den:
                key = 'R-ROUND::geodepy/geodesy.py::vincdir::%s' % names[i]
                if digits is None or digits < need[i]:
                    rep.violated('R-ROUND', key, '%s:%d' % (f.module.relpath, line), '%s rounded to %s decimals (needs >= %d)' % (names[i], digits, need[i]),
                                 expected='d >= %d' % need[i], actual='d = %s' % digits)
                else:
                    rep.holds('R-ROUND', key, '%s:%d' % (f.module.relpath, line), '%s rounded to %d decimals' % (names[i], digits))
    for p in f.params[:3]:
        common.angle_param_rule(rep, f, p.name)
    rep.floor('R-UNITS', 3, 'three angle arguments')


LON_MODULO_TURN = [True]     # C04 compares the end point's longitude modulo 360; a caller that hands lon2 on to geo2grid (C14) needs the representative


def controls(repo):
    out = []
    src = repo.sources['geodepy/geodesy.py']

    def semimaj_for_min(fn):
        # sigma = ell_dist / (ellipsoid.semimaj * a)
        def pred(n):
            return isinstance(n, ast.Assign) and isinstance(n.targets[0], ast.Name) and n.targets[0].id == 'sigma' \
                and isinstance(n.value, ast.BinOp) and isinstance(n.value.op, ast.Div)

        def make(n):
            for c in ast.walk(n.value):
                if isinstance(c, ast.Attribute) and c.attr == 'semimin':
                    c.attr = 'semimaj'
            return n
        substitute(fn, pred, make, limit=1, expect=1)
    out.append(('sigma0-semimajor', repo.variant({'geodepy/geodesy.py': replace_in_function(src, 'vincdir', semimaj_for_min)}), 'vincdir::sigma0'))

    def b_coef(fn):
        def pred(n):
            return isinstance(n, ast.Constant) and n.value == 74

        def make(n):
            return ast.Constant(value=47)
        substitute(fn, pred, make, limit=1, expect=1)
    out.append(('B-table', repo.variant({'geodepy/geodesy.py': replace_in_function(src, 'vincdir', b_coef)}), 'vincdir::B'))
    return out
