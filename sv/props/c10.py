"""C10 - point scale factor and grid convergence (convert.psfandgridconv and its two callers)."""
import ast
from fractions import Fraction as F
from .. import alg
from ..alg import Rat, C
from ..model import AnalysisError, stmt_text
from ..symval import Evaluator, Tup, CallV, _single_atom
from ..symcheck import Oracle, sym_ellipsoid, sym_projection, check_equal, leaves, show, compare_values
from ..rules import ThreadRule, where
from . import common
from ..signtable import sign_source, negation_parity, Undecidable
from ..mutate import replace_in_function, substitute
from .c01 import alpha_items

META = {
    'level': 'other',
    'rule_text': 'rule instances: parameter threading at the two call sites of the helper (ellipsoid and projection), provenance of '
                 'every leaf of (psf, grid_conv), argument wiring of both callers, the psf / |grid_conv| formulas, p and q as term-wise '
                 'derivatives of the forward series, the 9-entry sign table over sign(lon-cm) x sign(lat), result wiring of both callers; statelessness of psfandgridconv / geo2grid / grid2geo with memo-key analysis',
    'explanation': 'Static: call-site binding (R-THREAD), abstract evaluation of psfandgridconv to exact normal forms compared with '
                   'Karney-Krueger eq. 26-28, exact differentiation of the forward series, and enumeration of the finite set of '
                   'orderings that the sign rule depends on. Decides that the two quantities are computed from the ellipsoid and '
                   'projection of the call, by the right formulas, with the right sign in every quadrant, and that forward and inverse '
                   'hand corresponding arguments to the same helper. Does not decide the 2e-8 / 1e-9 deg figures (floating point).',
}

ORACLE = '''
from math import sin, cos, tan, atan, sinh, cosh, sqrt, radians, degrees

def series(xi1, eta1, alpha):
    xi = xi1
    eta = eta1
    for r in range(1, 9):
        xi = xi + alpha[r - 1] * sin(2 * r * xi1) * cosh(2 * r * eta1)
        eta = eta + alpha[r - 1] * cos(2 * r * xi1) * sinh(2 * r * eta1)
    return xi, eta

def pq(xi1, eta1, alpha):
    p = 1
    q = 0
    for r in range(1, 9):
        p = p + 2 * r * alpha[r - 1] * cos(2 * r * xi1) * cosh(2 * r * eta1)
        q = q + 2 * r * alpha[r - 1] * sin(2 * r * xi1) * sinh(2 * r * eta1)
    return p, -q

def psf_conv(xi1, eta1, lat, lon, cm, conf_lat, alpha, A, a, ecc1sq, k0):
    p, q = pq(xi1, eta1, alpha)
    phi = radians(lat)
    omega = radians(lon - cm)
    psf = k0 * (A / a) * sqrt(q ** 2 + p ** 2) * ((sqrt(1 + tan(phi) ** 2) * sqrt(1 - ecc1sq * sin(phi) ** 2))
                                                 / sqrt(tan(conf_lat) ** 2 + cos(omega) ** 2))
    conv = degrees(atan(abs(q / p)) + atan(abs(tan(conf_lat) * tan(omega)) / sqrt(1 + tan(conf_lat) ** 2)))
    return psf, conv
'''


def ite_leaves(v, out=None, depth=0):
    """leaf values of a nest of ite atoms"""
    out = [] if out is None else out
    a = _single_atom(v) if isinstance(v, Rat) else None
    if a is not None and a.kind == 'fn' and a.name == 'ite' and depth < 8:
        ite_leaves(a.args[1], out, depth + 1)
        ite_leaves(a.args[2], out, depth + 1)
    else:
        # -1 * ite(...) etc.
        out.append(v)
    return out


def helper_rules(repo, rep):
    f = repo.func('geodepy.convert', 'psfandgridconv')
    rep.analysed(f)
    w = where(f, f.node)
    ev = Evaluator(repo, opaque={'alpha_coeff', 'rect_radius'})
    E = sym_ellipsoid(ev, repo, 'ellipsoid')
    P = sym_projection(ev, repo, 'prj')
    ps = [p.name for p in f.params]
    if len(ps) < 8:
        raise AnalysisError('anchor changed: psfandgridconv has %d parameters' % len(ps))
    syms = ['xi1', 'eta1', 'lat', 'lon', 'cm', 'conf_lat']
    args = dict((ps[i], Rat.sym(syms[i])) for i in range(6))
    args[ps[6]] = E
    args[ps[7]] = P
    val = ev.call_function(f, args)
    base = 'R-FORMULA::geodepy/convert.py::psfandgridconv::'
    if not isinstance(val, Tup) or len(val.items) != 2:
        rep.undecided('R-FORMULA', base + 'shape', w, 'psfandgridconv does not evaluate to a pair')
        return
    psf, conv = val.items
    orc = Oracle(ORACLE)
    Ekey = 'obj<param:ellipsoid>'
    A = alg.opaque('call:rect_radius', (Ekey,))
    al = alpha_items(Ekey)
    ref = orc.call('psf_conv', xi1=Rat.sym('xi1'), eta1=Rat.sym('eta1'), lat=Rat.sym('lat'), lon=Rat.sym('lon'), cm=Rat.sym('cm'),
                   conf_lat=Rat.sym('conf_lat'), alpha=al, A=A, a=E.fields['semimaj'], ecc1sq=E.fields['ecc1sq'], k0=P.fields['cmscale'])
    rpsf, rconv = ref.items
    check_equal(rep, 'R-FORMULA', base + 'psf', w, psf, rpsf,
                'psf = k0 (A/a) sqrt(p^2+q^2) sqrt(1+tan^2 phi) sqrt(1-e^2 sin^2 phi) / sqrt(tan^2 chi + cos^2 dl)')
    # magnitude of the convergence: every leaf of the guarded result is +G or -G
    lv = ite_leaves(conv)
    ok = 'equal'
    for x in lv:
        r1 = compare_values(x, rconv)
        r2 = compare_values(x, -rconv) if isinstance(rconv, Rat) else 'unknown'
        if r1 == 'equal' or r2 == 'equal':
            continue
        if r1 == 'different' and r2 == 'different':
            ok = 'different'
            bad = x
            break
        ok = 'unknown'
    key = base + 'grid_conv-magnitude'
    if ok == 'equal':
        rep.holds('R-FORMULA', key, w, '|grid_conv| = degrees(atan|q/p| + atan(|tan chi tan dl| / sqrt(1 + tan^2 chi))) in all %d branches' % len(lv))
    elif ok == 'different':
        rep.violated('R-FORMULA', key, w, 'the grid convergence magnitude differs from the reference formula', expected=show(rconv), actual=show(bad))
    else:
        rep.undecided('R-FORMULA', key, w, 'grid convergence magnitude: forms differ but not definitely')
    # p, q are the term-wise derivatives of the forward series (checked on the reference series shared with C01)
    sx = orc.call('series', xi1=Rat.sym('xi1'), eta1=Rat.sym('eta1'), alpha=al)
    pq = orc.call('pq', xi1=Rat.sym('xi1'), eta1=Rat.sym('eta1'), alpha=al)
    xi_id = alg.TABLE.sym('xi1').id
    xs = alg.unfold_all(sx.items[0], 4000)
    es = alg.unfold_all(sx.items[1], 4000)
    pp = alg.unfold_all(pq.items[0], 4000)
    qq = alg.unfold_all(pq.items[1], 4000)
    key = 'R-SIBLING::geodepy/convert.py::psfandgridconv::pq-derivatives'
    if None in (xs, es, pp, qq):
        rep.undecided('R-SIBLING', key, w, 'series too large to differentiate')
    else:
        r1 = alg.decide_equal(alg.diff(xs, xi_id), pp)
        r2 = alg.decide_equal(alg.diff(es, xi_id), qq)
        if r1 == 'equal' and r2 == 'equal':
            rep.holds('R-SIBLING', key, w, 'p = d xi/d xi\', q = d eta/d xi\' of the series summed by geo2grid (exact differentiation)')
        else:
            raise AnalysisError('reference p/q are not the derivatives of the reference series (%s, %s)' % (r1, r2))
    # provenance
    allowed = ('xi1', 'eta1', 'lat', 'lon', 'cm', 'conf_lat', 'pi', 'ellipsoid.', 'prj.')
    bad = []
    for slot, v in (('psf', psf), ('grid_conv', conv)):
        for leaf in sorted(leaves(v)):
            if leaf.startswith('arg:'):
                if 'const:' in leaf:
                    bad.append((slot, leaf))
                continue
            if not leaf.startswith(allowed):
                bad.append((slot, leaf))
    key = 'R-LEAVES::geodepy/convert.py::psfandgridconv::psf,grid_conv'
    if bad:
        rep.violated('R-LEAVES', key, w, 'psf / grid_conv depend on values that are not the helper\'s own arguments: %s' % (
            ', '.join('%s<-%s' % b for b in bad[:6])), expected='leaves: the six numeric arguments, ellipsoid.*, prj.*', actual=str(bad[:6]))
    else:
        rep.holds('R-LEAVES', key, w, 'every leaf of (psf, grid_conv) is an argument or an attribute of the helper\'s own ellipsoid / prj')
    sign_table(repo, rep, f)


def sign_table(repo, rep, f):
    """C10.4: the convergence is negated exactly when sign(lon - cm) * sign(lat) > 0"""
    w = where(f, f.node)
    key = 'R-SIGN::geodepy/convert.py::psfandgridconv::grid_conv'
    ret = None
    for st in f.node.body:
        if isinstance(st, ast.Return):
            ret = st
    if ret is None or not isinstance(ret.value, ast.Tuple) or len(ret.value.elts) != 2 or not isinstance(ret.value.elts[1], ast.Name):
        rep.undecided('R-SIGN', key, w, 'return is not a pair ending in a variable')
        return
    var = ret.value.elts[1].id
    # statements after the last plain (non-negating) top-level assignment of var
    last = None
    for i, st in enumerate(f.node.body):
        if isinstance(st, ast.Assign) and any(isinstance(t, ast.Name) and t.id == var for t in st.targets):
            last = i
    if last is None:
        rep.undecided('R-SIGN', key, w, 'no assignment of %s' % var)
        return
    # plain assignments to other names right after the magnitude (`sin_diff = sin(long_diff)`) still belong to the straight-line prefix
    while last + 1 < len(f.node.body) and isinstance(f.node.body[last + 1], ast.Assign) and len(f.node.body[last + 1].targets) == 1 \
            and isinstance(f.node.body[last + 1].targets[0], ast.Name) and f.node.body[last + 1].targets[0].id != var:
        last += 1
    tail = [st for st in f.node.body[last + 1:] if not isinstance(st, ast.Return)]
    ps = [p.name for p in f.params]
    p_lat, p_lon, p_cm = ps[2], ps[3], ps[4]
    names = set()
    for st in tail:
        callees = set(id(n.func) for n in ast.walk(st) if isinstance(n, ast.Call))
        for n in ast.walk(st):
            if isinstance(n, ast.Name) and isinstance(n.ctx, ast.Load) and n.id != var and id(n) not in callees:
                names.add(n.id)
    from ..signtable import straight_line_values

    def parity(lon_v, cm_v, lat_v):
        # the straight-line prefix evaluated on representative numbers (degrees): every name the sign rule tests gets its value
        vals = straight_line_values(f, last + 1, {p_lon: lon_v, p_cm: cm_v, p_lat: lat_v})
        missing = sorted(n for n in names if n not in vals)
        if missing:
            raise Undecidable('the sign rule tests %s, whose value is not an arithmetic image of lat, lon and cm' % ', '.join(missing))
        return negation_parity(tail, var, vals)
    table = {}
    try:
        for a in (-1, 0, 1):
            for b in (-1, 0, 1):
                table[(a, b)] = parity(147.0 + 2.0 * a, 147.0, 30.0 * b)
    except Undecidable as e:
        rep.undecided('R-SIGN', key, w, 'sign rule not decidable on representative values: %s' % e)
        return
    # across the antimeridian the side of the central meridian is the sign of the WRAPPED difference: zone 1 (cm -177) holds the points
    # of longitude 179 (3 deg west of it), zone 60 (cm 177) those of longitude -179 (4 deg east of it)
    for lon_v, cm_v, side in ((179.0, -177.0, -1), (-179.0, 177.0, 1), (179.9, -177.0, -1), (-180.0, 177.0, 1)):
        for b in (-1, 1):
            k = key + '::antimeridian(lon=%g,cm=%g),lat%+d' % (lon_v, cm_v, b)
            try:
                got = parity(lon_v, cm_v, 30.0 * b)
            except Undecidable as e:
                rep.undecided('R-SIGN', k, w, 'sign rule not decidable: %s' % e)
                continue
            want = -side * b
            if got == want:
                rep.holds('R-SIGN', k, w, 'longitude %g is %s of the central meridian %g (wrapped difference): convergence sign %+d' % (
                    lon_v, 'east' if side > 0 else 'west', cm_v, got))
            else:
                rep.violated('R-SIGN', k, w, 'wrong sign of the grid convergence across the antimeridian: longitude %g lies %s of the central meridian %g of its zone '
                             '(wrapped difference %+g deg) but the rule compares the raw numbers - geo2grid(-30, 179.9, 1) reports +1.55115247 where grid2geo of the same '
                             'point reports -1.55115247' % (lon_v, 'east' if side > 0 else 'west', cm_v, ((lon_v - cm_v + 180.0) % 360.0) - 180.0),
                             expected='%+d' % want, actual='%+d' % got)
    bad = []
    for (a, b), got in sorted(table.items()):
        if a == 0 or b == 0:
            continue     # the magnitude is zero on the axes
        want = -a * b    # grid bearing = azimuth + convergence: negative east of the central meridian in the north
        if got != want:
            bad.append('sign(lon-cm)=%+d sign(lat)=%+d: convergence sign %+d, expected %+d' % (a, b, got, want))
    for (a, b), got in sorted(table.items()):
        k = key + '::lon-cm%+d,lat%+d' % (a, b)
        if a == 0 or b == 0:
            rep.holds('R-SIGN', k, w, 'on an axis (magnitude zero): sign %+d' % got)
        elif got == -a * b:
            rep.holds('R-SIGN', k, w, 'convergence sign %+d = -sign(lon-cm)*sign(lat)' % got)
        else:
            rep.violated('R-SIGN', k, w, 'wrong sign of the grid convergence for sign(lon-cm)=%+d, sign(lat)=%+d: got %+d, convention '
                         '(grid bearing = azimuth + convergence) needs %+d' % (a, b, got, -a * b), expected='%+d' % (-a * b), actual='%+d' % got)
    rep.floor('R-SIGN', 17, 'nine orderings and eight positions across the antimeridian')


def caller_rules(repo, rep):
    helper = repo.func('geodepy.convert', 'psfandgridconv')
    ps = [p.name for p in helper.params]
    for fname in ('geo2grid', 'grid2geo'):
        f = repo.func('geodepy.convert', fname)
        rep.analysed(f)
        w = where(f, f.node)
        ev = Evaluator(repo, opaque={'alpha_coeff', 'beta_coeff', 'rect_radius', 'psfandgridconv'})
        E = sym_ellipsoid(ev, repo, 'ellipsoid')
        P = sym_projection(ev, repo, 'prj')
        names = [p.name for p in f.params]
        if fname == 'geo2grid':
            args = {names[0]: Rat.sym('lat'), names[1]: Rat.sym('lon'), names[2]: Rat.sym('zone'), names[3]: E, names[4]: P}
        else:
            args = {names[0]: Rat.sym('zone'), names[1]: Rat.sym('east'), names[2]: Rat.sym('north'), names[3]: Rat.sym('hemisphere'), names[4]: E, names[5]: P}
        val = ev.call_function(f, args)
        bound = None
        node = None
        for caller, callee, b, nd in ev.calls:
            if caller == fname and callee == 'psfandgridconv':
                bound, node = b, nd
        base = 'R-WIRE::geodepy/convert.py::%s::psfandgridconv::' % fname
        if bound is None:
            rep.violated('R-WIRE', base + 'call', w, '%s does not obtain point scale factor and convergence from psfandgridconv' % fname)
            continue
        wn = where(f, node)
        if fname == 'geo2grid':
            check_equal(rep, 'R-WIRE', base + 'lat', wn, bound.get(ps[2]), Rat.sym('lat'), 'latitude argument is the input latitude in degrees')
            check_equal(rep, 'R-WIRE', base + 'lon', wn, bound.get(ps[3]), Rat.sym('lon'), 'longitude argument is the input longitude in degrees')
            slots = (4, 5)
            # the central meridian handed to the helper is that of the zone for the projection of the call (any zone width, any first central meridian)
            if isinstance(val, Tup) and len(val.items) > 1 and isinstance(bound.get(ps[4]), Rat):
                for sub, verdict, msg, exp, act in common.zone_midpoint_check(val.items[1], bound.get(ps[4]), P):
                    k_ = base + 'cm::' + sub
                    if verdict == 'holds':
                        rep.holds('R-WIRE', k_, wn, msg)
                    elif verdict == 'violated':
                        rep.violated('R-WIRE', k_, wn, msg, expected=exp, actual=act)
                    else:
                        rep.undecided('R-WIRE', k_, wn, msg)
        else:
            lat_arg = bound.get(ps[2])
            a = _single_atom(lat_arg * alg.pi() / C(180)) if isinstance(lat_arg, Rat) else None
            k = base + 'lat'
            if a is not None and a.kind == 'fn' and a.name == 'atan':
                rep.holds('R-WIRE', k, wn, 'latitude argument is degrees(atan(t)) of the iterated t (degrees)')
            else:
                rep.undecided('R-WIRE', k, wn, 'latitude argument is not degrees(atan(.)): %s' % show(lat_arg, 2, 200))
            lon_res = val.items[1] if isinstance(val, Tup) and len(val.items) == 4 else None
            if lon_res is not None:
                check_equal(rep, 'R-WIRE', base + 'lon', wn, bound.get(ps[3]), lon_res, 'longitude argument is the computed longitude in degrees')
            slots = (2, 3)
        # results: the two returned numbers are the helper's two results
        if isinstance(val, Tup) and len(val.items) > max(slots):
            keys = tuple(_argkey(bound.get(p.name)) for p in helper.params)
            call = alg.opaque('call:psfandgridconv', keys)
            want_psf = alg.opaque('item', (call, C(0)))
            want_gc = alg.opaque('item', (call, C(1)))
            got_psf = val.items[slots[0]]
            got_gc = val.items[slots[1]]
            check_equal(rep, 'R-WIRE', base + 'psf-result', w, got_psf, want_psf, 'returned point scale factor is the helper\'s first result')
            if fname == 'geo2grid':
                check_equal(rep, 'R-WIRE', base + 'conv-result', w, got_gc, want_gc, 'returned convergence is the helper\'s second result')
            else:
                gr = got_gc.rat if isinstance(got_gc, CallV) else got_gc
                lv = ite_leaves(gr)
                # hemisign * helper result: leaves are +/- the helper's result, negative exactly for the northern hemisphere
                ok = all(compare_values(x, want_gc) == 'equal' or compare_values(x, -want_gc) == 'equal' for x in lv) if isinstance(gr, Rat) else False
                facs = None
                if isinstance(gr, Rat):
                    q = gr / want_gc
                    lv2 = ite_leaves(q)
                    facs = [x.as_fraction() for x in lv2]
                k = base + 'conv-result'
                if facs is not None and sorted(f_ for f_ in facs if f_ is not None) == [-1, 1] and len(facs) == 2:
                    rep.holds('R-WIRE', k, w, 'returned convergence is hemisign * (helper\'s second result)')
                    # ... and it is negated exactly when the latitude is: both signs are restored for the same hemisphere argument, however it is spelt
                    same_hemisphere_rule(rep, base, w, gr, want_gc, val.items[0])
                elif ok:
                    rep.holds('R-WIRE', k, w, 'returned convergence is +/- the helper\'s second result')
                    same_hemisphere_rule(rep, base, w, gr, want_gc, val.items[0])
                else:
                    rep.undecided('R-WIRE', k, w, 'returned convergence: %s' % show(gr, 2, 200))
        # rounding of the scale factor
        for fn, digits, value, line in ev.roundings:
            if fn == fname and isinstance(value, Rat) and compare_values(value, alg.opaque('item', (alg.opaque('call:psfandgridconv', tuple(_argkey(bound.get(p.name)) for p in helper.params)), C(0)))) == 'equal':
                k = 'R-ROUND::geodepy/convert.py::%s::psf' % fname
                if digits is None or digits < 8:
                    rep.violated('R-ROUND', k, '%s:%d' % (f.module.relpath, line), ('point scale factor rounded to %s decimals: coarser than 2e-8' % digits) if digits is not None else
                                 'point scale factor rounded to a number of SIGNIFICANT digits (or a non-constant number of decimals): for psf >= 1 eight significant digits are seven decimals, coarser than 2e-8',
                                 expected='d >= 8', actual='d = %s' % digits)
                else:
                    rep.holds('R-ROUND', k, '%s:%d' % (f.module.relpath, line), 'point scale factor rounded to %d decimals' % digits)


def same_hemisphere_rule(rep, base, w, conv, want_gc, lat_res):
    """the two results that are mirrored for the northern hemisphere (latitude, convergence) flip under the same condition: the conditions are
    evaluated for every spelling of the hemisphere argument that passes the function's own validation"""
    from ..symcheck import split_ite, truth_under
    k = base + 'conv-hemisphere'
    a1 = split_ite(conv)
    if a1:
        # each arm is + or - the helper's result
        a1 = [(conds, C(1) if compare_values(v, want_gc) == 'equal' else (C(-1) if compare_values(v, -want_gc) == 'equal' else None)) for conds, v in a1]
        if any(v is None for conds, v in a1):
            a1 = None
    a2 = split_ite(lat_res)
    if not a1 or not a2 or len(a1) != 2 or len(a2) != 2:
        rep.undecided('R-WIRE', k, w, 'sign conditions of latitude / convergence not isolated')
        return
    g = Rat.sym('hemisphere')

    def negated(arms, sval):
        for conds, v in arms:
            ts = [truth_under(c, [(g, sval)]) for c, tv in conds]
            if any(t is None for t in ts):
                return None
            if all(t == tv for t, (c, tv) in zip(ts, conds)):
                return conds, v
        return None
    bad = None
    for sval in ('north', 'North', 'NORTH', 'south', 'South', 'SOUTH'):
        r1, r2 = negated(a1, sval), negated(a2, sval)
        if r1 is None or r2 is None:
            rep.undecided('R-WIRE', k, w, 'sign conditions not evaluable for hemisphere=%r' % sval)
            return
        f1 = r1[1].as_fraction() if isinstance(r1[1], Rat) else None
        if f1 is None:
            rep.undecided('R-WIRE', k, w, 'convergence sign not constant in an arm')
            return
        # the latitude arm that is selected: is it the negated one?  (the arms differ by the sign only)
        other = [v for conds, v in a2 if v is not r2[1]]
        lat_neg = isinstance(r2[1], Rat) and other and isinstance(other[0], Rat) and _leading_negative(r2[1]) and not _leading_negative(other[0])
        if (f1 < 0) != bool(lat_neg) and bad is None:
            bad = (sval, f1 < 0, bool(lat_neg))
    if bad:
        rep.violated('R-WIRE', k, w, 'for hemisphere=%r the latitude is %s but the grid convergence is %s: the two signs are restored under different tests of the hemisphere argument '
                     '(one is case-insensitive, the other is not)' % (bad[0], 'negated' if bad[2] else 'not negated', 'negated' if bad[1] else 'not negated'),
                     expected='one test for both', actual='different tests')
    else:
        rep.holds('R-WIRE', k, w, 'latitude and convergence are negated for the same spellings of the hemisphere argument (north / North / NORTH)')


def _leading_negative(r):
    lm = r.num.lead()
    c = r.num.t[lm]
    return c.re < 0


def _argkey(v):
    from ..symval import argkey, NONE
    return argkey(v if v is not None else NONE)


def run(repo, rep):
    alg.reset()
    common.state_rule(repo, rep, [('geodepy.convert', 'psfandgridconv'), ('geodepy.convert', 'geo2grid'), ('geodepy.convert', 'grid2geo')])
    rep.trust('sv/alg.py exact normal forms; generator independence modulo the rewrite rules applied')
    common.tm_division_rules(repo, rep)
    # "in either direction": the position the inverse direction reports must be one the forward direction accepts
    common.longitude_range_rule(repo, rep)
    # psfandgridconv is an observation point of its own: its latitude / longitude go through angular_typecheck (every angle class)
    fh_ = repo.func('geodepy.convert', 'psfandgridconv')
    for pn_ in (fh_.params[2].name, fh_.params[3].name):
        common.angle_param_rule(rep, fh_, pn_)
    common.typecheck_rules(repo, rep)
    rep.trust('reference formulas: Karney-Krueger equations 26-28 (Deakin), sign convention grid bearing = azimuth + convergence')
    tr = ThreadRule(repo, _Only(rep, 'psfandgridconv'))
    for fname in ('geo2grid', 'grid2geo'):
        tr.check_function(repo.func('geodepy.convert', fname))
    rep.floor('R-THREAD', 4, 'ellipsoid and projection at both call sites')
    tr2 = ThreadRule(repo, rep)
    tr2.check_const(repo.func('geodepy.convert', 'psfandgridconv'))
    tr2.check_function(repo.func('geodepy.convert', 'psfandgridconv'))
    helper_rules(repo, rep)
    caller_rules(repo, rep)
    # the two values are derivatives of the series C01 / C02 decide: the coefficient tables (alpha forward, beta inverse) and the objects
    # that carry the projection and ellipsoid definitions ("of the projection and ellipsoid requested in the call") are part of this check
    from . import c01, c02
    common.ellipsoid_rules(repo, rep, projections=True)
    c01.table_rules(repo, rep)
    c02.table_rules(repo, rep)
    guard_rules(repo, rep)
    # ... and the central meridian the two values are computed about: the zone / central-meridian lattice (UTM, ISG, user-defined layouts)
    common.zone_table_rule(repo, rep)


def guard_rules(repo, rep):
    """psfandgridconv refuses nothing the two conversions hand it: its raising tests are decided over the positions of the domain, with the
    longitude as the inverse direction supplies it (folded into [-180, 180]) next to a central meridian on the other side of the
    antimeridian (zone 60 just east of 180, zone 1 just west of it)"""
    from .. import guards
    f = repo.func('geodepy.convert', 'psfandgridconv')
    ps = [p.name for p in f.params]
    ev = Evaluator(repo, opaque={'alpha_coeff', 'beta_coeff', 'rect_radius'})
    args = dict((ps[i], Rat.sym(n_)) for i, n_ in enumerate(['xi1', 'eta1', 'lat', 'lon', 'cm', 'conf_lat']))
    from ..symcheck import sym_ellipsoid, sym_projection
    args['ellipsoid'] = sym_ellipsoid(ev, repo, 'ellipsoid')
    args['prj'] = sym_projection(ev, repo, 'prj')
    try:
        ev.call_function(f, args)
    except RecursionError:
        pass
    domain = {'xi1': (F(-3, 2), F(3, 2)), 'eta1': (F(-1, 2), F(1, 2)), 'lat': (-80, 84), 'lon': (-180, 180), 'cm': (-177, 177), 'conf_lat': (F(-3, 2), F(3, 2))}

    def near(pt):
        if 'lon' in pt and 'cm' in pt:
            d_ = abs(pt['lon'] - pt['cm']) % 360
            return min(d_, 360 - d_) <= 30
        return True
    n = guards.guard_rule(rep, 'R-GUARD', f, ev.raise_conds, domain, 'the band of the projection: |lon - cm| up to 30 degrees measured on the circle (a longitude of -179.5 belongs to the meridian 177)',
                          lambda nd: where(f, nd), constraint=near, extra_points={'lon': (-179.5, -177, -150, 150, 177, 179.5), 'cm': (-177, -171, 171, 177)})
    if n == 0:
        rep.holds('R-GUARD', 'R-GUARD::geodepy/convert.py::psfandgridconv::no-raising-test', where(f, f.node), 'psfandgridconv has no raising test of its own')


class _Only(object):
    def __init__(self, rep, needle):
        object.__setattr__(self, '_rep', rep)
        object.__setattr__(self, '_needle', needle)

    def __getattr__(self, name):
        return getattr(self._rep, name)

    def __setattr__(self, name, value):
        setattr(self._rep, name, value)

    def _ok(self, key):
        return self._needle in key

    def holds(self, rule, key, *a, **k):
        if self._ok(key):
            return self._rep.holds(rule, key, *a, **k)

    def violated(self, rule, key, *a, **k):
        if self._ok(key):
            return self._rep.violated(rule, key, *a, **k)

    def undecided(self, rule, key, *a, **k):
        if self._ok(key):
            return self._rep.undecided(rule, key, *a, **k)

    def info(self, rule, key, *a, **k):
        if self._ok(key):
            return self._rep.info(rule, key, *a, **k)


def controls(repo):
    out = []
    src = repo.sources['geodepy/convert.py']

    def flip(fn):
        # 'elif cm < lon and lat > 0' -> 'lat < 0'
        def pred(n):
            return isinstance(n, ast.Compare) and isinstance(n.left, ast.Name) and n.left.id == 'lat' and isinstance(n.ops[0], ast.Gt)

        def make(n):
            n.ops = [ast.Lt()]
            return n
        substitute(fn, pred, make, limit=1, expect=1)
    out.append(('sign-quadrant', repo.variant({'geodepy/convert.py': replace_in_function(src, 'psfandgridconv', flip)}), 'R-SIGN'))

    def const_leaf(fn):
        def pred(n):
            return isinstance(n, ast.Attribute) and n.attr == 'ecc1sq' and isinstance(n.value, ast.Name) and n.value.id == 'ellipsoid'

        def make(n):
            n.value.id = 'grs80'
            return n
        substitute(fn, pred, make, limit=1, expect=1)
    out.append(('default-ellipsoid-leaf', repo.variant({'geodepy/convert.py': replace_in_function(src, 'psfandgridconv', const_leaf)}), 'psfandgridconv'))
    return out
