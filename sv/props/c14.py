"""C14 - grid-based geodesic computations (geodesy.vincdir_utm, vincinv_utm, line_sf, rho, nu)."""
import ast
from .. import alg
from ..alg import Rat, C
from ..model import AnalysisError, stmt_text
from ..symval import Evaluator, Tup, Obj, CallV, Str
from ..symcheck import Oracle, sym_ellipsoid, sym_projection, check_equal, compare_values, show
from ..rules import ThreadRule, where, mentions
from . import common
from ..mutate import replace_in_function, substitute

META = {
    'level': 'other',
    'rule_text': 'rule instances: hemisphere and ellipsoid threading at every call the three routines make (grid2geo, geo2grid, vincdir, '
                 'vincinv, line_sf, rho, nu); the inverse as a composition of opaque call atoms; the direct routine\'s set-up, loop body and '
                 'closing step as compositions; line_sf incl. the cross-zone re-projection and Deakin (2010) eq. 13; rho and nu closed '
                 'forms; the refinement threshold; own input tests of vincinv_utm decided over zones 2..59 x neighbour offset -1..1; statelessness with memo-key analysis; angular_typecheck dispatch',
    'explanation': 'Static: call-site binding for the role parameters, and abstract evaluation of the three routines with their callees kept '
                   'as opaque call atoms, compared with reference compositions written in the checker. Decides that the grid routines are '
                   'the stated compositions of the ellipsoidal ones (distance * line scale factor, bearing = azimuth + convergence of each '
                   'point in its own zone, direct undoing exactly what the inverse does, re-projection into the first point\'s zone) with the '
                   'hemisphere and ellipsoid of the call. The 1 mm closure and the 3e-7 / 5e-7 line-scale-factor bounds are numerical and not decided.',
}

OPQ = {'grid2geo', 'geo2grid', 'vincdir', 'vincinv', 'line_sf', 'radiations'}

ORACLE = '''
from math import sin, sqrt, radians
from geodepy.constants import utm
from geodepy.convert import grid2geo, geo2grid
from geodepy.geodesy import vincdir, vincinv, line_sf, rho, nu
from geodepy.survey import radiations

def inverse(zone1, east1, north1, zone2, east2, north2, hemisphere, ellipsoid):
    p1 = grid2geo(zone1, east1, north1, hemisphere, ellipsoid)
    p2 = grid2geo(zone2, east2, north2, hemisphere, ellipsoid)
    v = vincinv(p1[0], p1[1], p2[0], p2[1], ellipsoid)
    lsf = line_sf(zone1, east1, north1, zone2, east2, north2, hemisphere, ellipsoid)
    return v[0] * lsf, v[1] + p1[3], v[2] + p2[3], lsf

def direct_body(lsf, zone1, east1, north1, grid1to2, grid_dist, hemisphere, ellipsoid):
    p1 = grid2geo(zone1, east1, north1, hemisphere, ellipsoid)
    az = grid1to2 - p1[3]
    d = vincdir(p1[0], p1[1], az, grid_dist / lsf, ellipsoid)
    # vincdir returns lon1 + difference: across the 180 degree meridian that is beyond +/-180, where geo2grid raises
    lon2 = d[1]
    if lon2 > 180:
        lon2 = lon2 - 360
    elif lon2 < -180:
        lon2 = lon2 + 360
    g = geo2grid(d[0], lon2, zone1, ellipsoid)
    north2 = g[3]
    # the second point is handed on in the northing convention of the line's hemisphere: geo2grid labels a point on the equator (or an
    # estimate a few centimetres beyond it) with the other hemisphere and the other false northing
    if g[0].lower() != hemisphere.lower():
        if hemisphere.lower() == 'south':
            north2 = min(north2 + utm.falsenorth, float(utm.falsenorth))
        else:
            north2 = max(north2 - utm.falsenorth, 0.0)
    new = line_sf(zone1, east1, north1, g[1], g[2], north2, hemisphere, ellipsoid)
    return g[1], g[2], north2, d[2], new

def direct_close(zone2, east2, north2, az2to1, hemisphere, ellipsoid):
    p2 = grid2geo(zone2, east2, north2, hemisphere, ellipsoid)
    return az2to1 + p2[3]

def lsf(zone1, east1, north1, zone2, east2, north2, hemisphere, ellipsoid, cmscale, falseeast, falsenorth):
    if zone1 != zone2:
        s = grid2geo(zone2, east2, north2, hemisphere, ellipsoid)
        t = geo2grid(s[0], s[1], zone1, ellipsoid)
        zone2 = t[1]
        east2 = t[2]
        north2 = t[3]
        # a station on the equator is labelled with the other hemisphere by geo2grid: its northing in the convention of the line
        if t[0].lower() != hemisphere.lower():
            if hemisphere.lower() == 'south':
                north2 = min(north2 + falsenorth, float(falsenorth))
            else:
                north2 = max(north2 - falsenorth, 0.0)
    e1 = east1 - falseeast
    e2 = east2 - falseeast
    lat1 = grid2geo(zone1, east1, north1, hemisphere, ellipsoid)[0]
    lat2 = grid2geo(zone2, east2, north2, hemisphere, ellipsoid)[0]
    lm = (lat1 + lat2) / 2
    r2 = rho(lm, ellipsoid) * nu(lm, ellipsoid) * cmscale ** 2
    k1 = (e1 ** 2 + e1 * e2 + e2 ** 2) / (6 * r2)
    k2 = (e1 ** 2 + e1 * e2 + e2 ** 2) / (36 * r2)
    return cmscale * (1 + k1 * (1 + k2))

def rho_ref(lat, a, e2):
    return (a * (1 - e2)) / (1 - e2 * sin(radians(lat)) ** 2) ** 1.5

def nu_ref(lat, a, e2):
    return a / sqrt(1 - e2 * sin(radians(lat)) ** 2)
'''


def initial_guess_exception(func, call):
    """The un-threaded first estimate of an iterated quantity is harmless iff: it is assigned to a name v, no statement
    between it and a following while-loop reads v, the loop is entered at least once (its control variable is set to a
    literal that satisfies the test just before), and the loop body re-assigns v from a call to the same callee."""
    body = func.node.body
    idx = None
    for i, st in enumerate(body):
        if isinstance(st, ast.Assign) and st.value is call and len(st.targets) == 1 and isinstance(st.targets[0], ast.Name):
            idx = i
            v = st.targets[0].id
    if idx is None:
        return False
    callee = stmt_text(call.func)
    loop_i = None
    for j in range(idx + 1, len(body)):
        st = body[j]
        if isinstance(st, ast.While):
            loop_i = j
            break
        if any(isinstance(n, ast.Name) and n.id == v and isinstance(n.ctx, ast.Load) for n in ast.walk(st)):
            return False
    if loop_i is None:
        return False
    loop = body[loop_i]
    # entered at least once: 'x = <literal>' before, test 'x > <literal>' true
    t = loop.test
    if not (isinstance(t, ast.Compare) and isinstance(t.left, ast.Name) and len(t.ops) == 1 and isinstance(t.comparators[0], ast.Constant)):
        return False
    ctrl = t.left.id
    init = None
    for st in body[idx + 1:loop_i]:
        if isinstance(st, ast.Assign) and len(st.targets) == 1 and isinstance(st.targets[0], ast.Name) and st.targets[0].id == ctrl \
                and isinstance(st.value, ast.Constant):
            init = st.value.value
    if init is None:
        return False
    thr = t.comparators[0].value
    ok = {ast.Gt: init > thr, ast.GtE: init >= thr, ast.Lt: init < thr, ast.LtE: init <= thr}.get(type(t.ops[0]))
    if not ok:
        return False
    # the loop re-assigns v from the same callee
    for st in loop.body:
        if isinstance(st, ast.Assign) and any(isinstance(x, ast.Name) and x.id == v for x in st.targets) and isinstance(st.value, ast.Call) \
                and stmt_text(st.value.func) == callee:
            return True
    return False


def thread_rules(repo, rep):
    reason = 'initial guess of the iterated line scale factor: re-computed with all arguments inside the loop, which runs at least once'
    exc = {('vincdir_utm', 'line_sf', 'hemisphere'): (reason, initial_guess_exception),
           ('vincdir_utm', 'line_sf', 'ellipsoid'): (reason, initial_guess_exception)}
    info = {('line_sf', 'grid2geo', 'projection'): 'C14 quantifies over UTM only; line_sf does not forward its projection to the conversions',
            ('line_sf', 'geo2grid', 'projection'): 'C14 quantifies over UTM only; line_sf does not forward its projection to the conversions'}
    tr = ThreadRule(repo, rep, exceptions=exc, info=info)
    n = 0
    for q in ('vincdir_utm', 'vincinv_utm', 'line_sf', 'rho', 'nu'):
        f = repo.func('geodepy.geodesy', q)
        n += tr.check_function(f)
        tr.check_const(f)
    rep.floor('R-THREAD', 16, 'role-parameter call sites of the three routines')


def inverse_rules(repo, rep):
    f = repo.func('geodepy.geodesy', 'vincinv_utm')
    rep.analysed(f)
    ev = Evaluator(repo, opaque=OPQ)
    E = sym_ellipsoid(ev, repo, 'ellipsoid')
    ps = [p.name for p in f.params]
    syms = ['zone1', 'east1', 'north1', 'zone2', 'east2', 'north2', 'hemisphere']
    args = dict((ps[i], Rat.sym(syms[i])) for i in range(7))
    args[ps[7]] = E
    val = ev.call_function(f, args)
    orc = Oracle(ORACLE, base=repo, opaque=OPQ)
    Eo = sym_ellipsoid(orc.ev, orc.repo, 'ellipsoid')
    kw = dict((s, Rat.sym(s)) for s in syms)
    ref = orc.call('inverse', ellipsoid=Eo, **kw)
    names = ['grid_dist', 'grid1to2', 'grid2to1', 'lsf']
    texts = ['grid distance = ellipsoidal distance * line scale factor', 'grid bearing 1->2 = azimuth + convergence at point 1 (own zone)',
             'grid bearing 2->1 = reverse azimuth + convergence at point 2 (own zone)', 'line scale factor of the two grid points']
    w = where(f, f.node)
    # input tests of vincinv_utm itself: the second point may lie in the same zone or in either neighbouring zone
    from .. import guards
    evg = Evaluator(repo, opaque=OPQ)
    Eg = sym_ellipsoid(evg, repo, 'ellipsoid')
    gargs = dict(args)
    gargs[ps[3]] = Rat.sym('zone1') + Rat.sym('dzone')
    gargs[ps[7]] = Eg
    evg.call_function(f, gargs)
    dom = {'zone1': (2, 59), 'dzone': (-1, 1), 'east1': (100000, 900000), 'east2': (-400000, 1400000), 'north1': (0, 10000000), 'north2': (0, 10000000)}
    n_g = guards.guard_rule(rep, 'R-GUARD', f, evg.raise_conds, dom, 'zones 2..59 with the second point in the same or an adjacent zone', lambda nd: where(f, nd),
                            integer=('zone1', 'dzone'))
    if n_g == 0:
        rep.holds('R-GUARD', 'R-GUARD::geodepy/geodesy.py::vincinv_utm::no-own-tests', w, 'vincinv_utm has no raising input test of its own (validation is left to grid2geo)')
    if not isinstance(val, Tup) or len(val.items) != 4:
        rep.undecided('R-WIRE', 'R-WIRE::geodepy/geodesy.py::vincinv_utm::shape', w, 'vincinv_utm does not evaluate to a 4-tuple')
        return
    for i in range(4):
        check_equal(rep, 'R-WIRE', 'R-WIRE::geodepy/geodesy.py::vincinv_utm::%s' % names[i], w, val.items[i], ref.items[i], texts[i])


def hemisphere_of_point2_rule(repo, rep):
    """geo2grid chooses the false northing from the sign of the computed latitude and says which hemisphere it chose; the direct computation
    returns that northing to a caller who gave - and gets back no - hemisphere label.  The label must therefore be looked at: a second point
    ON the equator (latitude +0.0 or 1e-10 on the other side) comes back with the other hemisphere's northing (0 instead of 10 000 000)."""
    f = repo.func('geodepy.geodesy', 'vincdir_utm')
    key = 'R-WIRE::geodepy/geodesy.py::vincdir_utm::hemisphere-of-point-2'
    labels = []
    for n in ast.walk(f.node):
        if isinstance(n, ast.Assign) and isinstance(n.value, ast.Call) and getattr(n.value.func, 'id', '') == 'geo2grid' and isinstance(n.targets[0], ast.Tuple) \
                and n.targets[0].elts and isinstance(n.targets[0].elts[0], ast.Name):
            labels.append((n, n.targets[0].elts[0].id))
    if not labels:
        rep.undecided('R-WIRE', key, where(f, f.node), 'no unpacking of a geo2grid result found in vincdir_utm')
        return
    for st, name in labels:
        reads = [x for x in ast.walk(f.node) if isinstance(x, ast.Name) and x.id == name and isinstance(x.ctx, ast.Load)]
        if reads:
            rep.holds('R-WIRE', key, where(f, reads[0]), 'the hemisphere label returned by geo2grid (`%s`) is looked at' % name)
        else:
            rep.violated('R-WIRE', key, where(f, st), 'vincdir_utm binds the hemisphere label geo2grid returns to `%s` and never reads it: the northing of point 2 is handed back in whatever '
                         'hemisphere convention geo2grid chose - for a second point on the equator the other one' % name,
                         expected='the northing expressed in the hemisphere of point 1', actual='%s unused' % name)


def signature_rule(repo, rep):
    """the direct and the inverse routine are one pair: after their observations both take (hemisphere, ellipsoid), in that order, as their
    first optional parameters - `vincdir_utm(z, e, n, brg, dist, 'north')` and `vincinv_utm(z1, e1, n1, z2, e2, n2, 'north')` are the
    documented positional forms.  An optional parameter slipped in FRONT of them in one of the two silently binds the hemisphere string
    to it and computes in the default hemisphere."""
    fd = repo.func('geodepy.geodesy', 'vincdir_utm')
    fi = repo.func('geodepy.geodesy', 'vincinv_utm')
    key = 'R-SIBLING::geodepy/geodesy.py::vincdir_utm::optional-parameters'
    od = [p.name for p in fd.params if p.default is not None]
    oi = [p.name for p in fi.params if p.default is not None]
    n = min(len(od), len(oi))
    if od[:n] == oi[:n] and od[:2] == ['hemisphere', 'ellipsoid']:
        rep.holds('R-SIBLING', key, where(fd, fd.node), 'vincdir_utm and vincinv_utm take (hemisphere, ellipsoid) as their first optional parameters, in that order')
    else:
        rep.violated('R-SIBLING', key, where(fd, fd.node), 'the optional parameters of vincdir_utm are %s, those of its sibling vincinv_utm %s: the hemisphere is no longer the first optional '
                     'argument of both - a positional call vincdir_utm(z, e, n, brg, dist, \'north\') binds the string to `%s` and the line is computed in the southern hemisphere' % (
                         od, oi, od[0] if od else '?'), expected="['hemisphere', 'ellipsoid', ...] in both", actual='%s / %s' % (od, oi))


def first_estimate_rule(repo, rep, clamped=False):
    """the plane first estimate of point 2 is radiations(east1, north1, grid bearing in DEGREES, grid distance): the iteration forgets a poor
    seed, but the seed itself goes through grid2geo inside line_sf - a bearing handed over in another unit sends it grid_dist due north,
    and for a southern point closer to the equator than the line is long the seed northing passes 10 000 000 and the routine raises for
    a valid line"""
    f = repo.func('geodepy.geodesy', 'vincdir_utm')
    ps = [p.name for p in f.params]
    key = 'R-UNITS::geodepy/geodesy.py::vincdir_utm::first-estimate'
    calls = [c for c in ast.walk(f.node) if isinstance(c, ast.Call) and getattr(c.func, 'id', '') == 'radiations']
    if not calls:
        rep.holds('R-UNITS', key, where(f, f.node), 'vincdir_utm takes no plane first estimate through radiations', work=False)
        return
    for c in calls[:1]:
        want = ps[1:5]
        got = [stmt_text(a) for a in c.args[:4]]
        if got == want:
            rep.holds('R-UNITS', key, where(f, c), 'the first estimate is radiations(%s): easting, northing, grid bearing (degrees) and grid distance as given' % ', '.join(got))
        elif clamped:
            rep.info('R-UNITS', key, where(f, c), 'the plane first estimate is `%s`, not radiations(%s); its northing is clamped onto the grid before line_sf sees it and the iteration '
                     'forgets its seed (an error of 1e-3 in the scale factor is 1e-8 after one pass): information only' % (stmt_text(c)[:70], ', '.join(want)))
        else:
            rep.violated('R-UNITS', key, where(f, c), 'the plane first estimate is `%s`: radiations / polar2rect take the bearing in decimal degrees and the arguments as given - with `%s` the '
                         'seed lies %s away from where the line goes, and where that is beyond the equator (a southern point 1 nearer to it than the line is long) grid2geo rejects the seed '
                         'northing: vincdir_utm raises for a valid line' % (stmt_text(c)[:70], [g_ for g_, w_ in zip(got, want) if g_ != w_][0] if any(g_ != w_ for g_, w_ in zip(got, want)) else '?', 'grid_dist'),
                         expected='radiations(%s)' % ', '.join(want), actual=stmt_text(c)[:80])


def seed_range_rule(repo, rep):
    """the plane first estimate of point 2 seeds the iteration through line_sf, whose grid2geo accepts northings in [0, 10 000 000] only.
    The estimate differs from the true point by the arc-to-chord correction (tens of metres on long lines far from the central meridian):
    for a second point closer to the equator than that it leaves the grid and the routine raises for a valid line.  Interval analysis of
    vincdir_utm up to the first line_sf call: the northing handed over is bounded by [0, false northing]."""
    from ..intervals import Interp, TOP
    f = repo.func('geodepy.geodesy', 'vincdir_utm')
    key = 'R-RANGE::geodepy/geodesy.py::vincdir_utm::seed-northing-on-the-grid'
    prj = common.projection_constants(repo).get('utm', {})
    attrs = dict((('utm', k), (v, v)) for k, v in prj.items() if isinstance(v, (int, float)))
    ip = Interp({}, attrs=attrs)
    env = {}
    target = None
    for st in f.node.body:
        calls = [c for c in ast.walk(st) if isinstance(c, ast.Call) and getattr(c.func, 'id', '') == 'line_sf']
        if calls and not isinstance(st, (ast.While, ast.For)):
            target = calls[0]
            break
        if isinstance(st, (ast.While, ast.For)):
            break
        nxt = ip.run([st], env)
        env = nxt if nxt is not None else env
    if target is None or len(target.args) < 6:
        rep.holds('R-RANGE', key, where(f, f.node), 'no line_sf call on a plane estimate before the iteration', work=False)
        return True
    v = ip.ev(target.args[5], env)
    fn = prj.get('falsenorth', 10000000)
    if v is not TOP and v[0] >= 0 and v[1] <= fn:
        rep.holds('R-RANGE', key, where(f, target), 'the seed northing handed to line_sf is kept inside [0, %s]' % fn)
        return True
    else:
        rep.violated('R-RANGE', key, where(f, target), '`%s` hands line_sf the northing of the PLANE estimate as it comes: for a second point nearer to the equator than the arc-to-chord correction '
                     '(tens of metres) it lies outside [0, %s] and grid2geo raises - vincdir_utm(55, 880000, 9930000, 319.4125211181888, 92187.85126330961) raises "Invalid Northing" for the '
                     'line that vincinv_utm computed to (820000, 9999990)' % (stmt_text(target)[:60], fn), expected='the estimate clamped onto the grid', actual='unbounded')


def reprojection_hemisphere_rule(repo, rep):
    """line_sf re-projects a station given in another zone with geo2grid, which labels a point ON the equator 'North' with northing 0: read with
    the line's hemisphere 'south' that northing is a point near the pole.  The hemisphere label of the re-projected station (element 0 of
    the geo2grid result) has to be looked at, as vincdir_utm does for its second point."""
    f = repo.func('geodepy.geodesy', 'line_sf')
    key = 'R-WIRE::geodepy/geodesy.py::line_sf::hemisphere-of-the-reprojected-station'
    names = [st.targets[0].id for st in ast.walk(f.node) if isinstance(st, ast.Assign) and len(st.targets) == 1 and isinstance(st.targets[0], ast.Name)
             and isinstance(st.value, ast.Call) and getattr(st.value.func, 'id', '') == 'geo2grid']
    unpacked = [st for st in ast.walk(f.node) if isinstance(st, ast.Assign) and isinstance(st.targets[0], ast.Tuple) and isinstance(st.value, ast.Call)
                and getattr(st.value.func, 'id', '') == 'geo2grid']
    if not names and not unpacked:
        rep.holds('R-WIRE', key, where(f, f.node), 'line_sf does not re-project through geo2grid', work=False)
        return
    looked = False
    for nm in names:
        for n in ast.walk(f.node):
            if isinstance(n, ast.Subscript) and isinstance(n.value, ast.Name) and n.value.id == nm and isinstance(n.slice, ast.Constant) and n.slice.value == 0:
                looked = True
    for st in unpacked:
        first = st.targets[0].elts[0]
        if isinstance(first, ast.Name) and any(isinstance(n, ast.Name) and n.id == first.id and isinstance(n.ctx, ast.Load) for n in ast.walk(f.node)):
            looked = True
    if looked:
        rep.holds('R-WIRE', key, where(f, f.node), 'the hemisphere label geo2grid returns for the re-projected station is looked at')
    else:
        rep.violated('R-WIRE', key, where(f, f.node), 'line_sf takes zone, easting and northing of the re-projected station from geo2grid and never its hemisphere label: a station exactly on the '
                     'equator comes back as (\'North\', northing 0) and is then read in the southern convention - line_sf(55, 820000, 9960000, 56, 180000, 10000000) gives 1.0009730720 instead of '
                     '1.0009818661 (8.8e-6 off; vincinv_utm 0.43 m short over 48.8 km)', expected='the northing brought into the convention of the line\'s hemisphere', actual='label ignored')


def direct_longitude_rule(repo, rep):
    """vincdir returns lon1 + (difference of longitude): for a line that crosses the 180 degree meridian (zones 60 and 1 are neighbours) that is
    beyond +/-180, and geo2grid refuses longitudes outside [-180, 180].  Dataflow in vincdir_utm: a longitude that comes out of vincdir
    reaches geo2grid only through a fold by a whole turn."""
    f = repo.func('geodepy.geodesy', 'vincdir_utm')
    key = 'R-RANGE::geodepy/geodesy.py::vincdir_utm::longitude-handed-to-geo2grid'
    found = 0
    bad = None
    for blk in [n for n in ast.walk(f.node) if isinstance(getattr(n, 'body', None), list)]:
        body = blk.body
        for i, st in enumerate(body):
            if not (isinstance(st, ast.Assign) and isinstance(st.value, ast.Call) and getattr(st.value.func, 'id', '') == 'vincdir'
                    and isinstance(st.targets[0], ast.Tuple) and len(st.targets[0].elts) >= 2 and isinstance(st.targets[0].elts[1], ast.Name)):
                continue
            lon = st.targets[0].elts[1].id
            folded = False
            for later in body[i + 1:]:
                mentions_turn = any(isinstance(c, ast.Constant) and c.value == 360 for c in ast.walk(later))
                writes_lon = any(isinstance(t, ast.Name) and t.id == lon and isinstance(t.ctx, ast.Store) for t in ast.walk(later))
                if mentions_turn and writes_lon:
                    folded = True
                uses = [c for c in ast.walk(later) if isinstance(c, ast.Call) and getattr(c.func, 'id', '') == 'geo2grid' and len(c.args) >= 2
                        and isinstance(c.args[1], ast.Name) and c.args[1].id == lon]
                if uses:
                    found += 1
                    if not folded:
                        bad = bad or uses[0]
                    break
    if found == 0:
        rep.undecided('R-RANGE', key, where(f, f.node), 'no longitude from vincdir is handed to geo2grid in vincdir_utm')
    elif bad is not None:
        rep.violated('R-RANGE', key, where(f, bad), '`%s` hands geo2grid the longitude as vincdir returns it (lon1 + difference): for a line across the 180 degree meridian it is beyond +/-180 '
                     'and geo2grid raises "Invalid Longitude" - vincdir_utm(60, 779758.4451, 6677672.775, 112.49082347893605, 31003.066934673465), the line vincinv_utm computes '
                     'to zone 1 E 230163.8816 N 6666825.4605' % stmt_text(bad)[:60], expected='the longitude folded by a whole turn into [-180, 180]', actual='unfolded')
    else:
        rep.holds('R-RANGE', key, where(f, f.node), 'the longitude from vincdir is folded by a whole turn before geo2grid sees it')
        return True
    return False


def direct_rules(repo, rep):
    hemisphere_of_point2_rule(repo, rep)
    clamped = seed_range_rule(repo, rep)
    first_estimate_rule(repo, rep, clamped=bool(clamped))
    reprojection_hemisphere_rule(repo, rep)
    f = repo.func('geodepy.geodesy', 'vincdir_utm')
    rep.analysed(f)
    w = where(f, f.node)
    ev = Evaluator(repo, opaque=OPQ)
    E = sym_ellipsoid(ev, repo, 'ellipsoid')
    ps = [p.name for p in f.params]
    syms = ['zone1', 'east1', 'north1', 'grid1to2', 'grid_dist', 'hemisphere']
    # the five observations by position, hemisphere and ellipsoid by NAME (their position is the business of the signature rule below)
    args = dict((ps[i], Rat.sym(syms[i])) for i in range(5))
    args['hemisphere' if 'hemisphere' in ps else ps[5]] = Rat.sym('hemisphere')
    args['ellipsoid' if 'ellipsoid' in ps else ps[6]] = E
    signature_rule(repo, rep)
    val = ev.call_function(f, args)
    loops = ev.loops.get(f.key, [])
    base = 'R-WIRE::geodepy/geodesy.py::vincdir_utm::'
    if not isinstance(val, Tup) or len(val.items) != 5 or len(loops) != 1:
        rep.undecided('R-WIRE', base + 'shape', w, 'vincdir_utm is not a 5-tuple routine with one refinement loop')
        return
    L = loops[0]
    wl = where(f, L.node)
    orc = Oracle(ORACLE, base=repo, opaque=OPQ)
    Eo = sym_ellipsoid(orc.ev, orc.repo, 'ellipsoid')
    kw = dict((s, Rat.sym(s)) for s in syms)
    # which carried variable is the line scale factor: the one whose update is the reference body applied to its own pre-value
    found = {}
    LSF = None
    for v in L.carried:
        if v not in L.post:
            continue
        body = orc.call('direct_body', lsf=L.pre[v], ellipsoid=Eo, **kw)
        if compare_values(L.post[v], body.items[4]) == 'equal':
            LSF = v
            for nm, refv in zip(('zone2', 'east2', 'north2', 'az2to1'), body.items[:4]):
                for m in L.carried:
                    if m in L.post and compare_values(L.post[m], refv) == 'equal':
                        found[nm] = m
            break
    if LSF is None:
        # report the most plausible candidate (a variable re-assigned from line_sf)
        cand = [v for v in L.carried if v in L.post and isinstance(L.post[v], CallV) and 'line_sf' in alg.fmt(L.post[v].rat, 1)]
        if cand:
            v = cand[0]
            body = orc.call('direct_body', lsf=L.pre[v], ellipsoid=Eo, **kw)
            check_equal(rep, 'R-WIRE', base + 'loop-body', wl, L.post[v], body.items[4],
                        'refinement: point 2 = geo2grid(vincdir(point 1, bearing - convergence, grid_dist/lsf), zone 1); lsf = line_sf(point 1, point 2)')
        else:
            # the line scale factor is the carried variable the ellipsoidal distance is divided by: grid_dist / v in the vincdir call
            lsfv = None
            for v in L.carried:
                if v not in L.pre or not isinstance(L.pre[v], Rat):
                    continue
                want_arg = Rat.sym('grid_dist') / L.pre[v]
                for m in L.carried:
                    pm = L.post.get(m)
                    pm = pm.rat if isinstance(pm, CallV) else pm
                    if not isinstance(pm, Rat):
                        continue
                    for k in pm.atoms(deep=True):
                        at = alg.TABLE.atoms[k]
                        if at.kind == 'fn' and at.name == 'call:vincdir' and any(isinstance(x, Rat) and x.equals(want_arg) for x in at.args):
                            lsfv = v
            if lsfv is not None and lsfv in L.post:
                body = orc.call('direct_body', lsf=L.pre[lsfv], ellipsoid=Eo, **kw)
                check_equal(rep, 'R-WIRE', base + 'loop-body', wl, L.post[lsfv], body.items[4],
                            'refinement: point 2 = geo2grid(vincdir(point 1, bearing - convergence, grid_dist/%s), zone 1); %s = line_sf(point 1, point 2, hemisphere, ellipsoid) - the same '
                            'line scale factor the inverse routine reports' % (lsfv, lsfv))
            else:
                rep.undecided('R-WIRE', base + 'loop-body', wl, 'no loop-carried line scale factor found')
        return
    rep.holds('R-WIRE', base + 'loop-body', wl, 'refinement: az = bearing - convergence(point 1); point 2 = geo2grid(vincdir(point 1, az, grid_dist/%s), zone 1, ellipsoid); %s = line_sf(point 1, point 2, hemisphere, ellipsoid)' % (LSF, LSF))
    if len(found) != 4:
        rep.undecided('R-WIRE', base + 'loop-outputs', wl, 'loop outputs not all identified: %s' % sorted(found))
        return
    rep.holds('R-WIRE', base + 'loop-outputs', wl, 'loop produces zone/east/north of point 2 in zone 1 and the reverse azimuth')
    sym = lambda v: Rat.sym('%s@L%d' % (v, L.index))
    close = orc.call('direct_close', zone2=sym(found['zone2']), east2=sym(found['east2']), north2=sym(found['north2']),
                     az2to1=sym(found['az2to1']), hemisphere=Rat.sym('hemisphere'), ellipsoid=Eo)
    want = [sym(found['zone2']), sym(found['east2']), sym(found['north2']), close, sym(LSF)]
    names = ['zone2', 'east2', 'north2', 'grid2to1', 'lsf']
    for i in range(5):
        check_equal(rep, 'R-WIRE', base + names[i], w, val.items[i], want[i],
                    'returned %s' % (names[i] if i != 3 else 'grid2to1 = reverse azimuth + convergence from a final grid2geo of point 2 (hemisphere, ellipsoid of the call)'))
    # threshold
    key = 'R-BOUND::geodepy/geodesy.py::vincdir_utm::lsf-refinement'
    thr = None
    if isinstance(L.node, ast.While):
        for c in ast.walk(L.node.test):
            if isinstance(c, ast.Compare) and isinstance(c.comparators[0], ast.Constant) and isinstance(c.ops[0], (ast.Gt, ast.GtE)):
                thr = c.comparators[0].value
    if thr is None:
        rep.undecided('R-BOUND', key, wl, 'no literal threshold on the refinement loop')
    elif thr > 1e-9:
        rep.violated('R-BOUND', key, wl, 'line scale factor refinement stops at %s: over 100 km this is more than 0.1 mm' % thr, expected='<= 1e-9', actual=str(thr))
    else:
        rep.holds('R-BOUND', key, wl, 'refinement stops when the line scale factor changes by <= %s (0.1 mm over 100 km)' % thr)


def lsf_rules(repo, rep):
    f = repo.func('geodepy.geodesy', 'line_sf')
    rep.analysed(f)
    w = where(f, f.node)
    opq = {'grid2geo', 'geo2grid', 'rho', 'nu'}
    ev = Evaluator(repo, opaque=opq)
    E = sym_ellipsoid(ev, repo, 'ellipsoid')
    P = sym_projection(ev, repo, 'projection')
    ps = [p.name for p in f.params]
    syms = ['zone1', 'east1', 'north1', 'zone2', 'east2', 'north2', 'hemisphere']
    args = dict((ps[i], Rat.sym(syms[i])) for i in range(7))
    args[ps[7]] = E
    args[ps[8]] = P
    val = ev.call_function(f, args)
    orc = Oracle(ORACLE, base=repo, opaque=opq)
    Eo = sym_ellipsoid(orc.ev, orc.repo, 'ellipsoid')
    kw = dict((s, Rat.sym(s)) for s in syms)
    ref = orc.call('lsf', ellipsoid=Eo, cmscale=P.fields['cmscale'], falseeast=P.fields['falseeast'], falsenorth=P.fields['falsenorth'], **kw)
    check_equal(rep, 'R-FORMULA', 'R-FORMULA::geodepy/geodesy.py::line_sf::lsf', w, val, ref,
                'line scale factor = k0 (1 + K1 (1 + K2)), K1 = (E1^2+E1E2+E2^2)/(6 rho nu k0^2), K2 = (...)/(36 rho nu k0^2) at the mean latitude; '
                'a second point given in another zone is first re-projected into zone 1')
    # the ordinary case on its own: both stations in ONE zone (no re-projection, the eastings enter as they are) - a shortcut taken for
    # special positions of a station (on the central meridian) is decided here, where its condition is a test of the inputs themselves
    ev_s = Evaluator(repo, opaque=opq)
    Es = sym_ellipsoid(ev_s, repo, 'ellipsoid')
    Ps = sym_projection(ev_s, repo, 'projection')
    args_s = dict(args)
    args_s[ps[3]] = Rat.sym('zone1')
    args_s[ps[7]] = Es
    args_s[ps[8]] = Ps
    val_s = ev_s.call_function(f, args_s)
    orc_s = Oracle(ORACLE, base=repo, opaque=opq)
    Eos = sym_ellipsoid(orc_s.ev, orc_s.repo, 'ellipsoid')
    kw_s = dict(kw)
    kw_s['zone2'] = Rat.sym('zone1')
    ref_s = orc_s.call('lsf', ellipsoid=Eos, cmscale=Ps.fields['cmscale'], falseeast=Ps.fields['falseeast'], falsenorth=Ps.fields['falsenorth'], **kw_s)
    check_equal(rep, 'R-FORMULA', 'R-FORMULA::geodepy/geodesy.py::line_sf::lsf[same zone]', w, val_s, ref_s,
                'line scale factor of two stations in one zone = k0 (1 + K1 (1 + K2)) for EVERY pair of eastings (a station on the central meridian included)')
    for q, oname, txt in (('rho', 'rho_ref', 'rho = a(1-e^2)/(1-e^2 sin^2 lat)^1.5'), ('nu', 'nu_ref', 'nu = a/sqrt(1-e^2 sin^2 lat)')):
        g = repo.func('geodepy.geodesy', q)
        rep.analysed(g)
        ev2 = Evaluator(repo)
        E2 = sym_ellipsoid(ev2, repo, 'ellipsoid')
        gp = [p.name for p in g.params]
        v = ev2.call_function(g, {gp[0]: Rat.sym('lat'), gp[1]: E2})
        orc2 = Oracle(ORACLE, base=repo)
        r = orc2.call(oname, lat=Rat.sym('lat'), a=E2.fields['semimaj'], e2=E2.fields['ecc1sq'])
        check_equal(rep, 'R-FORMULA', 'R-FORMULA::geodepy/geodesy.py::%s::value' % q, where(g, g.node), v, r, txt)


def run(repo, rep):
    # the grid computations ARE the ellipsoidal geodesic routines and the projection, wired together: the rules of the components the grid
    # functions call (Vincenty inverse / direct formulas, the accepted band of the projection in both directions) are part of this property
    from . import c04, c05, c01, c02
    c05.run(repo, rep)
    # vincdir_utm hands lon2 to geo2grid, which accepts [-180, 180] only.  While vincdir_utm folds the longitude by a whole turn first (the
    # dataflow rule below) any representative vincdir returns will do and the longitude is compared modulo a turn, as in C04; without the
    # fold it is compared as a number
    folded = direct_longitude_rule(repo, rep)
    c04.LON_MODULO_TURN[0] = bool(folded)
    try:
        c04.run(repo, rep)
    finally:
        c04.LON_MODULO_TURN[0] = True
    alg.reset()
    c01.guard_rules(repo, rep)
    c02.guard_rules(repo, rep)
    alg.reset()
    # ... and the projection formulas themselves in both directions (series, Newton iteration with its derivative): the grid routines
    # convert every point with them
    c01.formula_rules(repo, rep)
    alg.reset()
    c02.formula_rules(repo, rep)
    alg.reset()
    common.typecheck_rules(repo, rep)
    common.state_rule(repo, rep, [('geodepy.geodesy', 'vincdir_utm'), ('geodepy.geodesy', 'vincinv_utm'), ('geodepy.geodesy', 'line_sf')])
    rep.trust('opaque call atoms carry every formal parameter of the callee (defaults explicit); sv/alg.py normal forms')
    rep.trust('reference: Deakin (2010) Traverse computations on the ellipsoid and on the UTM projection, eq. 13')
    thread_rules(repo, rep)
    inverse_rules(repo, rep)
    direct_rules(repo, rep)
    from ..symval import DIV_EVENTS
    del DIV_EVENTS[:]
    lsf_rules(repo, rep)
    # no denominator of line_sf vanishes inside the domain: two points of equal easting (a grid-north line), an end on the central meridian
    common.division_rule(repo, rep, [('geodepy.geodesy', 'line_sf')],
                         {'east1': (100000.0, 900000.0), 'east2': (100000.0, 900000.0), 'north1': (1000000.0, 9000000.0), 'north2': (1000000.0, 9000000.0),
                          'zone1': (1.0, 60.0), 'zone2': (1.0, 60.0), 'projection.falseeast': (500000.0, 500000.0), 'projection.cmscale': (0.9996, 0.9996),
                          'ellipsoid.semimaj': (6378137.0, 6378137.0), 'ellipsoid.inversef': (298.257, 298.257)},
                         families=(('east1', 'east2'), ('north1', 'north2'), ('zone1', 'zone2')))
    rep.floor('R-WIRE', 9, 'four inverse results, loop body and five direct results')


def controls(repo):
    out = []
    src = repo.sources['geodepy/geodesy.py']

    def drop_hemi(fn):
        # the final grid2geo of vincdir_utm forgets hemisphere and ellipsoid
        calls = [n for n in ast.walk(fn) if isinstance(n, ast.Call) and getattr(n.func, 'id', '') == 'grid2geo']
        calls[-1].args = calls[-1].args[:3]
    out.append(('final-grid2geo-default-hemisphere', repo.variant({'geodepy/geodesy.py': replace_in_function(src, 'vincdir_utm', drop_hemi)}), 'vincdir_utm::grid2geo(hemisphere)'))

    def wrong_conv(fn):
        # grid2to1 uses the convergence of point 1
        def pred(n):
            return isinstance(n, ast.Assign) and isinstance(n.targets[0], ast.Name) and n.targets[0].id == 'grid2to1'

        def make(n):
            n.value.right.value.id = 'pt1'
            return n
        substitute(fn, pred, make, limit=1, expect=1)
    def drop_seed_clamp(fn):
        # the plane estimate goes to line_sf as it comes
        for i, st in enumerate(fn.body):
            if isinstance(st, (ast.While, ast.For)):
                break
            if (isinstance(st, ast.Assign) and isinstance(st.targets[0], ast.Name) and st.targets[0].id == 'north2'
                    and isinstance(st.value, ast.Call) and getattr(st.value.func, 'id', '') in ('min', 'max')):
                del fn.body[i]
                return
        raise AnalysisError('control: no clamp of the seed northing in vincdir_utm')
    out.append(('seed-northing-unclamped', repo.variant({'geodepy/geodesy.py': replace_in_function(src, 'vincdir_utm', drop_seed_clamp)}), 'vincdir_utm::seed-northing-on-the-grid'))

    def drop_label_test(fn):
        # line_sf forgets the hemisphere label of the re-projected station
        done = 0
        for parent in ast.walk(fn):
            body = getattr(parent, 'body', None)
            if not isinstance(body, list):
                continue
            for i, st in enumerate(list(body)):
                if isinstance(st, ast.If) and any(isinstance(n, ast.Subscript) and isinstance(n.slice, ast.Constant) and n.slice.value == 0
                                                  and isinstance(n.value, ast.Name) and n.value.id.startswith('stn2') for n in ast.walk(st.test)):
                    body[i] = ast.Pass()
                    done += 1
        if done != 1:
            raise AnalysisError('control: %d tests of the re-projected hemisphere label in line_sf' % done)
    out.append(('reprojected-label-ignored', repo.variant({'geodepy/geodesy.py': replace_in_function(src, 'line_sf', drop_label_test)}), 'line_sf::hemisphere-of-the-reprojected-station'))

    def drop_fold(fn):
        # the longitude from vincdir goes to geo2grid unfolded
        for parent in ast.walk(fn):
            body = getattr(parent, 'body', None)
            if not isinstance(body, list):
                continue
            for i, st in enumerate(list(body)):
                if isinstance(st, ast.If) and any(isinstance(c, ast.Constant) and c.value == 360 for c in ast.walk(st)) and 'lon2' in stmt_text(st.test):
                    body[i] = ast.Pass()
                    return
        raise AnalysisError('control: no longitude fold in vincdir_utm')
    out.append(('longitude-unfolded', repo.variant({'geodepy/geodesy.py': replace_in_function(src, 'vincdir_utm', drop_fold)}), 'vincdir_utm::longitude-handed-to-geo2grid'))

    out.append(('convergence-of-wrong-point', repo.variant({'geodepy/geodesy.py': replace_in_function(src, 'vincinv_utm', wrong_conv)}), 'vincinv_utm::grid2to1'))
    return out
