"""C02 - inverse grid conversion (convert.grid2geo, beta_coeff, Standalone/mga2gda.py)."""
import ast
from fractions import Fraction as F
import math
from .. import alg, tables
from ..alg import Rat, C
from ..model import AnalysisError, stmt_text
from ..symval import Evaluator, Tup, Str, IteV, CallV, Obj, _ModuleScope, _single_atom, Closure
from ..symcheck import (Oracle, n_ellipsoid, sym_ellipsoid, sym_projection, check_equal, leaves, poly_in,
                        compare_values, show)
from ..rules import ThreadRule, where
from ..mutate import replace_in_function, substitute, text_variant
from . import common
from .c01 import N_MIN, N_MAX, A_MIN, A_MAX, ETA_MAX, TOL, _Filter

META = {
    'level': 'other',
    'rule_text': 'rule instances: 8 beta rows (library) + 8 beta rows, rectifying radius, ellipsoid and projection numbers of the '
                 'stand-alone copy, each against the exact series reversion of the Krueger alpha series; result slots of grid2geo '
                 'against the reference inverse equations; Newton residual = forward conformal-latitude map minus target; '
                 'hemisphere mirror identities; input guards; iteration bound; rounding; provenance. Non-trivial = two normal '
                 'forms built and compared or a table row bounded.; input-domain guards decided as predicates over the grid box (zones 0..60, eastings -2 830 000..3 830 000, northings 0..10 000 000; rejection just outside); ellipsoid / projection tables; CoordTM.geo threading; statelessness with memo-key analysis',
    'explanation': 'Static: grid2geo, beta_coeff and the module-level tables of Standalone/mga2gda.py are abstractly evaluated to exact '
                   'normal forms / exact rationals and compared with the inverse Karney-Krueger equations and with the series '
                   'reversion of the alpha table (derived on every run). Decides the named necessary conditions of C02 (tables, '
                   'series pairing, conformal-latitude equation solved by the iteration, mirror-image hemisphere handling, central '
                   'meridian, validation guards, agreement of the stand-alone copy). It does not decide convergence of the Newton '
                   'iteration or the numerical round-trip figures.',
}

ORACLE = '''
from math import sin, cos, tan, atan, sinh, cosh, sqrt, atanh, asinh, radians, degrees

def tm_inverse(east, north, hemisphere, cm, A, b, k0, FE, FN):
    x = (east - FE) / k0
    if hemisphere.lower() == 'north':
        y = -(north / k0)
        hemisign = -1
    else:
        y = (north - FN) / k0
        hemisign = 1
    xi = y / A
    eta = x / A
    xi1 = xi
    eta1 = eta
    for r in range(1, 9):
        eta1 = eta1 + b[r - 1] * cos(2 * r * xi) * sinh(2 * r * eta)
        xi1 = xi1 + b[r - 1] * sin(2 * r * xi) * cosh(2 * r * eta)
    t1 = sin(xi1) / sqrt(sinh(eta1) ** 2 + cos(xi1) ** 2)
    conf = atan(t1)
    lon = cm + degrees(atan(sinh(eta1) / cos(xi1)))
    return xi1, eta1, conf, lon, hemisign, t1

def newton_residual(t, t1, ecc1):
    sigma = sinh(ecc1 * atanh(ecc1 * t / sqrt(1 + t ** 2)))
    return t * sqrt(1 + sigma ** 2) - sigma * sqrt(1 + t ** 2) - t1

def newton_derivative(t, ecc1, ecc1sq):
    sigma = sinh(ecc1 * atanh(ecc1 * t / sqrt(1 + t ** 2)))
    return ((sqrt(1 + sigma ** 2) * sqrt(1 + t ** 2) - sigma * t)
            * (((1 - ecc1sq) * sqrt(1 + t ** 2)) / (1 + (1 - ecc1sq) * t ** 2)))
'''


def beta_oracle(rep):
    beta, ok = tables.revert(tables.ALPHA)
    if not ok:
        raise AnalysisError('series reversion of the alpha oracle did not produce a pure sine series')
    for r in beta:
        if tables.deviation(beta[r], tables.BETA[r]):
            raise AnalysisError('frozen beta table disagrees with the exact reversion of alpha (row %d)' % r)
    return beta


def table_rules(repo, rep):
    beta = beta_oracle(rep)
    ev = Evaluator(repo)
    E = n_ellipsoid(ev, repo)
    fb = repo.func('geodepy.convert', 'beta_coeff')
    rep.analysed(fb)
    val = ev.call_function(fb, {fb.params[0].name: E})
    if not isinstance(val, Tup) or len(val.items) != 8:
        rep.undecided('R-TABLE', 'R-TABLE::geodepy/convert.py::beta_coeff::shape', where(fb, fb.node), 'beta_coeff does not evaluate to an 8-tuple')
    else:
        for r, item in enumerate(val.items, 1):
            code = poly_in(item, 'n') if isinstance(item, Rat) else None
            oracle = dict((k, -v) for k, v in beta[r].items())     # the library stores b_r = -beta_r and adds
            amp_hi = A_MAX * tables.frac_up(math.cosh(2 * r * ETA_MAX))
            tables.table_rule(rep, 'R-TABLE', 'R-TABLE::geodepy/convert.py::beta_coeff::b%d' % (2 * r), where(fb, fb.node),
                              code, oracle, N_MIN, N_MAX, A_MIN, amp_hi, TOL, 'b_%d(n) = -beta_%d(n)' % (2 * r, r))
    return beta


def standalone_rules(repo, rep, beta):
    """the stand-alone copy: constant folding of its module-level tables (exact rationals)"""
    m = repo.module('Standalone.mga2gda')
    ev = Evaluator(repo)
    env = {}
    scope = _ModuleScope(m)
    ev._stack.append(scope)
    try:
        ev.exec_block(m.tree.body, env, scope)
    finally:
        ev._stack.pop()
    w = m.relpath + ':1'
    g = ev.global_value(repo.module('geodepy.constants'), 'grs80')
    u = ev.global_value(repo.module('geodepy.constants'), 'utm')

    def num(name):
        v = env.get(name)
        return v.as_fraction() if isinstance(v, Rat) else None
    n = num('n')
    base = 'R-SIBLING::Standalone/mga2gda.py::<module>::'
    gn = g.fields['n'].as_fraction()
    if n is None or gn is None:
        rep.undecided('R-SIBLING', base + 'n', w, 'third flattening of the stand-alone copy is not a foldable constant')
        return
    # ellipsoid numbers: relative change of n moves latitude by about 2*dn radians at most
    dn = abs(n - gn)
    eff_deg = float(dn) * 4 * 180 / math.pi
    if eff_deg < 1e-11:
        rep.holds('R-SIBLING', base + 'ellipsoid', w, 'stand-alone n differs from grs80.n by %.3g (effect < %.3g deg)' % (float(dn), eff_deg))
    elif eff_deg > 1e-10:
        rep.violated('R-SIBLING', base + 'ellipsoid', w, 'stand-alone ellipsoid is not GRS80: n differs by %.3g (about %.3g deg)' % (float(dn), eff_deg),
                     expected='n = %s' % float(gn), actual='n = %s' % float(n))
    else:
        rep.undecided('R-SIBLING', base + 'ellipsoid', w, 'stand-alone n differs from grs80.n by %.3g' % float(dn))
    # rectifying radius and beta rows evaluated exactly at the copy's own n
    A = num('A')
    a = None
    proj = env.get('proj')
    if isinstance(proj, Tup) and len(proj.items) >= 7:
        vals = [x.as_fraction() if isinstance(x, Rat) else None for x in proj.items]
        a = vals[0]
        want = [g.fields['semimaj'].as_fraction(), None, u.fields['falseeast'].as_fraction(), u.fields['falsenorth'].as_fraction(),
                u.fields['cmscale'].as_fraction(), u.fields['zonewidth'].as_fraction(), u.fields['initialcm'].as_fraction()]
        names = ['semi-major axis', 'inverse flattening', 'false easting', 'false northing', 'central scale', 'zone width', 'initial central meridian']
        for i, (have, wv) in enumerate(zip(vals, want)):
            if wv is None:
                continue
            k = base + 'proj[%d]' % i
            if have is None:
                rep.undecided('R-SIBLING', k, w, '%s of the stand-alone copy is not a constant' % names[i])
            elif have == wv:
                rep.holds('R-SIBLING', k, w, '%s equals the library constant (%s)' % (names[i], float(wv)))
            else:
                rep.violated('R-SIBLING', k, w, '%s of the stand-alone copy (%s) differs from the library\'s GRS80/UTM value (%s)' % (names[i], float(have), float(wv)),
                             expected=str(wv), actual=str(have))
    if A is not None and a is not None:
        oracle = a / (1 + n) * sum(c * n ** k for k, c in tables.RECT.items())
        dev = abs(A - oracle)
        eff = float(dev) * math.pi / 2
        k = base + 'A'
        if dev == 0:
            rep.holds('R-TABLE', k, w, 'rectifying radius of the stand-alone copy equals a/(1+n)(1+n^2/4+...) exactly')
        elif eff > float(TOL):
            rep.violated('R-TABLE', k, w, 'rectifying radius of the stand-alone copy deviates by %.3g m' % float(dev), expected=str(float(oracle)), actual=str(float(A)))
        elif eff < float(TOL) / 10:
            rep.subtol('R-TABLE', k, w, 'rectifying radius deviates by %.3g m (below tolerance)' % float(dev))
        else:
            rep.undecided('R-TABLE', k, w, 'rectifying radius deviates by %.3g m' % float(dev))
    else:
        rep.undecided('R-TABLE', base + 'A', w, 'rectifying radius of the stand-alone copy is not a foldable constant')
    amax = float(A_MAX)
    for r in range(1, 9):
        name = 'b%d' % (2 * r)
        have = num(name)
        k = 'R-TABLE::Standalone/mga2gda.py::<module>::' + name
        if have is None:
            rep.undecided('R-TABLE', k, w, '%s is not a foldable constant' % name)
            continue
        oracle = -sum(c * n ** p for p, c in beta[r].items())
        dev = abs(have - oracle)
        eff_hi = float(dev) * amax * math.cosh(2 * r * ETA_MAX) * 1.0000001
        eff_lo = float(dev) * float(A_MIN) * 0.9999999
        msg = '%s = -beta_%d(n) at the copy\'s n: deviation %.3g, effect between %.3g and %.3g m' % (name, r, float(dev), eff_lo, eff_hi)
        if dev == 0:
            rep.holds('R-TABLE', k, w, '%s equals -beta_%d(n) exactly at the copy\'s n' % (name, r))
        elif eff_lo > float(TOL):
            rep.violated('R-TABLE', k, w, msg, expected=str(float(oracle)), actual=str(float(have)))
        elif eff_hi < float(TOL) / 10:
            rep.subtol('R-TABLE', k, w, msg)
        else:
            rep.undecided('R-TABLE', k, w, msg)
    # the stand-alone grid2geo: explicit series terms paired with the right multiplier, same equations
    f = m.functions.get('grid2geo')
    if f is None:
        raise AnalysisError('anchor vanished: Standalone/mga2gda.py grid2geo')
    rep.analysed(f)
    ev2 = Evaluator(repo)
    env2 = dict(env)
    # symbolic tables so that the pairing b_2k <-> multiplier 2k is visible
    bsyms = {}
    for r in range(1, 9):
        bsyms['b%d' % (2 * r)] = Rat.sym('b%d' % (2 * r))
    names = [p.name for p in f.params]
    fenv = dict(env)
    fenv.update(bsyms)
    fenv['A'] = Rat.sym('A')
    fenv['ecc1'] = Rat.sym('ecc1')
    fenv['ecc1sq'] = Rat.sym('ecc1')* Rat.sym('ecc1')
    fenv[names[0]] = Rat.sym('zone')
    fenv[names[1]] = Rat.sym('east')
    fenv[names[2]] = Rat.sym('north')
    ev2._stack.append(f)
    try:
        out = ev2.exec_block(f.node.body, fenv, f)
        val = ev2._fold_returns(out.returns)
    finally:
        ev2._stack.pop()
    orc = Oracle(ORACLE)
    proj_items = proj.items if isinstance(proj, Tup) else None
    if proj_items is None or not isinstance(val, Tup) or len(val.items) != 2:
        rep.undecided('R-SIBLING', base + 'grid2geo', where(f, f.node), 'stand-alone grid2geo not in the expected shape')
        return
    cm = Rat.sym('zone') * proj_items[5] + proj_items[6] - proj_items[5]
    ref = orc.call('tm_inverse', east=Rat.sym('east'), north=Rat.sym('north'), hemisphere=Str('south'), cm=cm, A=Rat.sym('A'),
                   b=Tup([bsyms['b%d' % (2 * r)] for r in range(1, 9)]), k0=proj_items[4], FE=proj_items[2], FN=proj_items[3])
    rxi1, reta1, rconf, rlon, rsign, rt1 = ref.items
    from ..symcheck import strip_turn_folds
    check_equal(rep, 'R-SIBLING', base + 'grid2geo::lon', where(f, f.node), strip_turn_folds(val.items[1]), rlon,
                'stand-alone longitude = cm + atan(sinh eta\'/cos xi\') with eta\', xi\' from the b_2k series (each b_2k paired with 2k)')
    # latitude: three explicit Newton steps on the same residual
    lat = val.items[0]
    t = Rat.sym('t')
    res_ref = orc.call('newton_residual', t=t, t1=rt1, ecc1=Rat.sym('ecc1'))
    clo = fenv.get('ftn')
    if isinstance(clo, Closure):
        ev2._stack.append(f)
        try:
            res_code = ev2.apply(clo, [t], {}, f.node, fenv)
        finally:
            ev2._stack.pop()
        check_equal(rep, 'R-SIBLING', base + 'grid2geo::residual', where(f, f.node), res_code, res_ref,
                    'stand-alone Newton residual = forward conformal-latitude map minus target')
        clo2 = fenv.get('f1tn')
        if isinstance(clo2, Closure):
            ev2._stack.append(f)
            try:
                der_code = ev2.apply(clo2, [t], {}, f.node, fenv)
            finally:
                ev2._stack.pop()
            der_ref = orc.call('newton_derivative', t=t, ecc1=Rat.sym('ecc1'), ecc1sq=Rat.sym('ecc1') * Rat.sym('ecc1'))
            check_equal(rep, 'R-SIBLING', base + 'grid2geo::derivative', where(f, f.node), der_code, der_ref,
                        'stand-alone Newton derivative = closed-form derivative of the residual')
    else:
        rep.undecided('R-SIBLING', base + 'grid2geo::residual', where(f, f.node), 'no nested residual function found')


def find_newton(func):
    """(while node, updated variable, numerator Call node) for 'v = v - (f(...) / g(...))' inside a while loop"""
    for n in ast.walk(func.node):
        if isinstance(n, ast.While):
            for st in ast.walk(n):
                if isinstance(st, ast.Assign) and len(st.targets) == 1 and isinstance(st.targets[0], ast.Name) \
                        and isinstance(st.value, ast.BinOp) and isinstance(st.value.op, ast.Sub) \
                        and isinstance(st.value.left, ast.Name) and st.value.left.id == st.targets[0].id:
                    rhs = st.value.right
                    if isinstance(rhs, ast.BinOp) and isinstance(rhs.op, ast.Div) and isinstance(rhs.left, ast.Call):
                        return n, st.targets[0].id, rhs.left, rhs.right
    return None


def formula_rules(repo, rep):
    f = repo.func('geodepy.convert', 'grid2geo')
    rep.analysed(f)
    ev = Evaluator(repo, opaque={'beta_coeff', 'rect_radius', 'psfandgridconv'})
    E = sym_ellipsoid(ev, repo, 'ellipsoid')
    P = sym_projection(ev, repo, 'prj')
    names = [p.name for p in f.params]
    args = {names[0]: Rat.sym('zone'), names[1]: Rat.sym('east'), names[2]: Rat.sym('north'), names[3]: Rat.sym('hemisphere'),
            names[4]: E, names[5]: P}
    val = ev.call_function(f, args)
    w = where(f, f.node)
    base = 'R-FORMULA::geodepy/convert.py::grid2geo::'
    if not isinstance(val, Tup) or len(val.items) != 4:
        rep.undecided('R-FORMULA', base + 'shape', w, 'grid2geo does not evaluate to a 4-tuple')
        return None
    lat, lon, psf, gconv = val.items
    bound = None
    for caller, callee, b, node in ev.calls:
        if caller == 'grid2geo' and callee == 'psfandgridconv':
            bound = b
    if bound is None:
        rep.undecided('R-FORMULA', base + 'cm', w, 'no call of psfandgridconv: cannot identify the central meridian')
        return None
    ps = [p.name for p in repo.func('geodepy.convert', 'psfandgridconv').params]
    xi1_c, eta1_c, lat_c, lon_c, cm, conf_c = [bound.get(ps[i]) for i in range(6)]
    orc = Oracle(ORACLE)
    Ekey = 'obj<param:ellipsoid>'
    A = alg.opaque('call:rect_radius', (Ekey,))
    call = alg.opaque('call:beta_coeff', (Ekey,))
    bt = Tup([alg.opaque('item', (call, C(k))) for k in range(8)])
    ref = orc.call('tm_inverse', east=Rat.sym('east'), north=Rat.sym('north'), hemisphere=Rat.sym('hemisphere'), cm=cm, A=A, b=bt,
                   k0=P.fields['cmscale'], FE=P.fields['falseeast'], FN=P.fields['falsenorth'])
    rxi1, reta1, rconf, rlon, rsign, rt1 = ref.items
    check_equal(rep, 'R-FORMULA', base + 'xi1', w, xi1_c, rxi1, 'xi\' = xi + sum b_r sin(2r xi) cosh(2r eta), xi = y/A')
    check_equal(rep, 'R-FORMULA', base + 'eta1', w, eta1_c, reta1, 'eta\' = eta + sum b_r cos(2r xi) sinh(2r eta), eta = x/A')
    check_equal(rep, 'R-FORMULA', base + 'conf_lat', w, conf_c, rconf, 'conformal latitude atan(sin xi\' / sqrt(sinh^2 eta\' + cos^2 xi\'))')
    # the longitude is compared as an angle: a fold into [-180, 180] (zones 1 and 60 reach across the +/-180 meridian) picks another
    # representative of the same angle; the representative is the business of the range rule (common.longitude_range_rule)
    from ..symcheck import strip_turn_folds
    lon = strip_turn_folds(lon)
    check_equal(rep, 'R-FORMULA', base + 'lon', w, lon, rlon, 'longitude = cm + degrees(atan(sinh eta\' / cos xi\')) (modulo a full turn)')
    rep.floor('R-FORMULA', 4, 'xi1, eta1, conf_lat, lon')
    # Newton residual
    nw = find_newton(f)
    key = 'R-SIBLING::geodepy/convert.py::grid2geo::newton-residual'
    loops = ev.loops.get(f.key, [])
    if nw is None or not loops:
        rep.undecided('R-SIBLING', key, w, 'no Newton update of the form v = v - f(v)/g(v) inside a while loop')
        tsym = None
    else:
        loop_node, var, numer, denom = nw
        summ = [s for s in loops if s.node is loop_node]
        if not summ:
            rep.undecided('R-SIBLING', key, w, 'Newton loop was not summarised')
            tsym = None
        else:
            summ = summ[0]
            ev._stack.append(f)
            try:
                res_code = ev.eval(numer, summ.env_pre, f)
            finally:
                ev._stack.pop()
            tsym = summ.pre[var]
            res_ref = orc.call('newton_residual', t=tsym, t1=rt1, ecc1=E.fields['ecc1'])
            check_equal(rep, 'R-SIBLING', key, where(f, loop_node), res_code, res_ref,
                        'the Newton iteration solves the forward conformal-latitude equation tau\'(t) = t1')
            # the derivative decides whether the capped iteration converges: it must be the derivative of that residual
            # (Karney-Krueger closed form); a wrong derivative stalls the iteration at high latitude before the cap
            ev._stack.append(f)
            try:
                der_code = ev.eval(denom, summ.env_pre, f)
            finally:
                ev._stack.pop()
            der_ref = orc.call('newton_derivative', t=tsym, ecc1=E.fields['ecc1'], ecc1sq=E.fields['ecc1sq'])
            check_equal(rep, 'R-FORMULA', base + 'newton-derivative', where(f, loop_node), der_code, der_ref,
                        'Newton derivative = (sqrt(1+s^2) sqrt(1+t^2) - s t) (1-e^2) sqrt(1+t^2) / (1 + (1-e^2) t^2)')
            # the returned latitude is hemisign * degrees(atan(t_final))
            lat_ref = rsign * alg.degrees(alg.atan(tsym)) if isinstance(rsign, Rat) else None
            if lat_ref is not None:
                check_equal(rep, 'R-FORMULA', base + 'lat', w, lat, lat_ref, 'latitude = hemisign * degrees(atan(t)) of the converged t')
    # hemisphere mirror identities on the guarded forms
    mirror_rules(rep, f, w, P, xi1_c, eta1_c, lat, lon, gconv, tsym)
    # provenance
    allowed_prefix = ('east', 'north', 'zone', 'hemisphere', 'pi', 'ellipsoid.', 'prj.', 't@L', 'diff@L', 'itercount@L', 't_before@L')
    bad = []
    for slot, v in (('lat', lat), ('lon', lon)):
        for leaf in sorted(leaves(v)):
            if leaf.startswith('arg:'):
                if 'const:' in leaf and 'const:isg' not in leaf and 'const:ans' not in leaf:
                    bad.append((slot, leaf))
                continue
            if '@L' in leaf:
                continue
            if not leaf.startswith(allowed_prefix):
                bad.append((slot, leaf))
    key = 'R-LEAVES::geodepy/convert.py::grid2geo::lat,lon'
    if bad:
        rep.violated('R-LEAVES', key, w, 'latitude/longitude depend on values that are not the call\'s own ellipsoid/projection: %s' % (
            ', '.join('%s<-%s' % b for b in bad[:6])), expected='leaves: zone, east, north, hemisphere, ellipsoid.*, prj.*', actual=str(bad[:6]))
    else:
        rep.holds('R-LEAVES', key, w, 'every leaf of (lat, lon) is an input or an attribute of the call\'s own ellipsoid / prj')
    # rounding
    for fn, digits, value, line in ev.roundings:
        if fn != 'grid2geo':
            continue
        which = None
        if isinstance(value, Rat) and isinstance(lon, Rat) and value.num == lon.num and value.den == lon.den:
            which = 'lon'
        elif isinstance(value, Rat) and tsym is not None and tsym.atoms() <= value.atoms(deep=True) and 'psf' not in str(line):
            a = _single_atom(value * alg.pi() / C(180))
            if a is not None and a.name == 'atan':
                which = 'lat'
        if which is None:
            continue
        key = 'R-ROUND::geodepy/convert.py::grid2geo::%s' % which
        if digits is None or digits < 10:
            rep.violated('R-ROUND', key, '%s:%d' % (f.module.relpath, line), '%s is rounded to %s decimals: coarser than 1e-10 deg' % (which, digits),
                         expected='round(%s, d) with d >= 10' % which, actual='d = %s' % digits)
        else:
            rep.holds('R-ROUND', key, '%s:%d' % (f.module.relpath, line), '%s rounded to %d decimals' % (which, digits))
    return {'cm': cm, 'ev': ev}


def hemi_cond(v):
    """the condition atom on the hemisphere string found in a guarded value"""
    for k in sorted(v.atoms(deep=True)):
        a = alg.TABLE.atoms[k]
        if a.kind == 'fn' and a.name == 'ite' and isinstance(a.args[0], Rat):
            c = _single_atom(a.args[0])
            if c is not None and c.name in ('eq', 'ne') and any('hemisphere' in (alg.fmt(x) if isinstance(x, Rat) else str(x)) for x in c.args):
                return a.args[0], c.name
    return None, None


def mirror_rules(rep, f, w, P, xi1, eta1, lat, lon, gconv, tsym):
    key = 'R-AFFINE::geodepy/convert.py::grid2geo::mirror::'
    cond, cname = hemi_cond(xi1) if isinstance(xi1, Rat) else (None, None)
    if cond is None:
        rep.undecided('R-AFFINE', key + 'y', w, 'no hemisphere-guarded branch found in xi\'')
        return
    north_is = (cname == 'eq')      # cond true means hemisphere == 'north' when the comparison is an equality with 'north'
    c = _single_atom(cond)
    txt = ' '.join(alg.fmt(x) if isinstance(x, Rat) else str(x) for x in c.args)
    if 'south' in txt and 'north' not in txt:
        north_is = not north_is
    nsym = alg.TABLE.sym('north')
    FN = P.fields['falsenorth']

    def branches(v):
        vn = alg.assume(v, cond, north_is)
        vs = alg.assume(v, cond, not north_is)
        return vn, vs
    for nm, v in (('xi1', xi1), ('eta1', eta1), ('lon', lon)):
        if not isinstance(v, Rat):
            continue
        vn, vs = branches(v)
        vs_m = alg.subst(vs, {nsym.id: FN - Rat.atom(nsym)})
        r = alg.decide_equal(vn, vs_m)
        k = key + nm
        if r == 'equal':
            rep.holds('R-AFFINE', k, w, '%s(north branch, N) == %s(south branch, FN - N): mirror-image grid coordinates give the same %s' % (nm, nm, nm))
        elif r == 'different':
            rep.violated('R-AFFINE', k, w, 'mirror-image northings (N in the north, FN - N in the south) do not give the same %s' % nm,
                         expected=show(vs_m, 2, 300), actual=show(vn, 2, 300))
        else:
            rep.undecided('R-AFFINE', k, w, 'mirror identity for %s not decided' % nm)
    for nm, v in (('lat', lat), ('grid_conv', gconv)):
        if isinstance(v, CallV):
            v = v.rat
        if not isinstance(v, Rat):
            continue
        vn, vs = branches(v)
        # opaque psfandgridconv results differ only through their (mirrored) arguments: compare sign structure
        r = alg.decide_equal(vn, -alg.subst(vs, {nsym.id: FN - Rat.atom(nsym)}))
        k = key + nm
        if r == 'equal':
            rep.holds('R-AFFINE', k, w, '%s changes sign between mirror-image coordinates (hemisign multiplies it)' % nm)
        elif r == 'different':
            rep.violated('R-AFFINE', k, w, '%s is not negated for the northern hemisphere' % nm, expected='-(south value)', actual=show(vn, 2, 300))
        else:
            rep.undecided('R-AFFINE', k, w, 'sign symmetry of %s not decided' % nm)


def guard_rules(repo, rep):
    """C02.6 input validation and C02.7 iteration bound (AST rules)"""
    f = repo.func('geodepy.convert', 'grid2geo')
    names = [p.name for p in f.params[:4]]
    labels = ['zone', 'easting', 'northing', 'hemisphere']
    for nm, lab in zip(names, labels):
        key = 'R-GUARD::geodepy/convert.py::grid2geo::%s' % lab
        found = None
        derived = {nm}
        for st in f.node.body:
            if isinstance(st, ast.Assign) and any(isinstance(x, ast.Name) and x.id in derived for x in ast.walk(st.value)):
                for t in st.targets:
                    if isinstance(t, ast.Name):
                        derived.add(t.id)
            if isinstance(st, ast.If):
                for sub in ast.walk(st):
                    if isinstance(sub, ast.If) and any(isinstance(x, ast.Name) and x.id in derived for x in ast.walk(sub.test)) \
                            and any(isinstance(b, ast.Raise) for b in sub.body):
                        # a range / membership test
                        if any(isinstance(x, (ast.Compare,)) for x in ast.walk(sub.test)):
                            found = sub
                            break
            if found is not None:
                break
            # the first arithmetic use ends the search
            if isinstance(st, ast.Assign) and isinstance(st.value, (ast.BinOp, ast.UnaryOp)) and any(
                    isinstance(x, ast.Name) and x.id == nm for x in ast.walk(st.value)):
                break
        if found is None:
            rep.violated('R-GUARD', key, where(f, f.node), 'no range check that raises dominates the use of %s' % lab,
                         expected='if <%s out of range>: raise ValueError' % lab, actual='no such guard before the computation')
        else:
            rep.holds('R-GUARD', key, where(f, found), 'guard: %s' % stmt_text(found.test)[:100])
    # the same tests as predicates over the input box: none may fire inside, some must fire just outside
    from .. import guards
    ps = [p.name for p in f.params]
    domain = {'zone': (0, 60), 'east': (-2830000, 3830000), 'north': (0, 10000000)}
    evg = Evaluator(repo, opaque={'psfandgridconv', 'beta_coeff', 'alpha_coeff', 'rect_radius'})
    evg.call_function(f, {ps[0]: Rat.sym('zone'), ps[1]: Rat.sym('east'), ps[2]: Rat.sym('north')})
    # a test made after the Newton loop sees the iterate t = tan(latitude of the MIRRORED southern point): for the whole band [-80, 84] that
    # latitude runs over [-84, 0] (a northern point of latitude 84 is computed as -84 and negated on return)
    for q_, c_, n_ in evg.raise_conds:
        if isinstance(c_, Rat):
            for k_ in c_.atoms(deep=True):
                a_ = alg.TABLE.atoms[k_]
                if a_.kind == 'sym' and '@L' in a_.name and a_.name.split('@')[0] in ('t', 'tn'):
                    domain[a_.name] = (F(math.tan(math.radians(-84.0))), F(0))
    guards.guard_rule(rep, 'R-GUARD', f, evg.raise_conds, domain, 'the accepted grid domain (zones 0..60, eastings -2 830 000..3 830 000 m, northings 0..10 000 000 m)',
                      lambda nd: where(f, nd), integer=('zone',))
    guards.rejects_outside(rep, 'R-GUARD', f, evg.raise_conds, domain, {'east': 1, 'north': 1, 'zone': 1}, lambda nd: where(f, nd), 'the accepted grid domain')
    # the same for the Integrated Survey Grid in the NORTHERN hemisphere (a northern northing carries no false northing: it runs to
    # 9.3e6 m at 84 N whatever the false northing of the projection is)
    evi = Evaluator(repo, opaque={'psfandgridconv', 'beta_coeff', 'alpha_coeff', 'rect_radius'})
    cm_ = repo.module('geodepy.constants')
    try:
        evi.call_function(f, {ps[0]: C(551), ps[1]: Rat.sym('east'), ps[2]: Rat.sym('north'), ps[3]: Str('north'), ps[4]: evi.global_value(cm_, 'ans'), ps[5]: evi.global_value(cm_, 'isg')})
        dom_i = {'east': (200000, 400000), 'north': (0, 9300000)}
        for q_, c_, n_ in evi.raise_conds:
            if isinstance(c_, Rat):
                for k_ in c_.atoms(deep=True):
                    a_ = alg.TABLE.atoms[k_]
                    if a_.kind == 'sym' and '@L' in a_.name and a_.name.split('@')[0] in ('t', 'tn'):
                        dom_i[a_.name] = (F(math.tan(math.radians(-84.0))), F(0))
        guards.guard_rule(rep, 'R-GUARD', f, evi.raise_conds, dom_i, 'the ISG strip 55/1 in the northern hemisphere (northings 0..9 300 000 m: latitudes to 84 N)',
                          lambda nd: where(f, nd), suffix='[isg,north]')
    except AnalysisError as e_:
        rep.undecided('R-GUARD', 'R-GUARD::geodepy/convert.py::grid2geo::isg-north', where(f, f.node), 'ISG / northern evaluation failed: %s' % e_)
    common.isg_zone_rule(repo, rep, 'grid2geo', ps[0], False, {ps[1]: Rat.sym('east'), ps[2]: Rat.sym('north')})
    rep.floor('R-GUARD', 19, 'zone, easting, northing, hemisphere; raising tests as predicates; rejection outside; ten ISG zones and their neighbours')
    nw = find_newton(f)
    key = 'R-BOUND::geodepy/convert.py::grid2geo::newton'
    if nw is None:
        rep.undecided('R-BOUND', key, where(f, f.node), 'no Newton loop found')
        return
    loop = nw[0]
    cap = None
    thr = None
    for c in ast.walk(loop.test):
        if isinstance(c, ast.Compare) and len(c.ops) == 1 and isinstance(c.comparators[0], ast.Constant) and isinstance(c.comparators[0].value, (int, float)):
            v = c.comparators[0].value
            if isinstance(c.ops[0], (ast.Gt, ast.GtE)) and v < 1:
                thr = v
            if isinstance(c.ops[0], (ast.Lt, ast.LtE)) and v >= 1:
                cap = v
    if cap is None or not isinstance(loop.test, ast.BoolOp) or not isinstance(loop.test.op, ast.And):
        rep.violated('R-BOUND', key, where(f, loop), 'the Newton loop has no iteration cap (it may not terminate when the step never falls below the threshold)',
                     expected='while diff > eps and count < K', actual=stmt_text(loop.test))
    elif thr is None or thr > 1e-12:
        rep.violated('R-BOUND', key, where(f, loop), 'the Newton loop stops at |dt| <= %s: looser than 1e-12 (2e-9 deg needs about 3e-11 in t)' % thr,
                     expected='threshold <= 1e-12', actual=stmt_text(loop.test))
    else:
        rep.holds('R-BOUND', key, where(f, loop), 'Newton loop: cap %s, threshold %s' % (cap, thr))
    # leaving the loop by the pass limit is ordinary: t = tan(lat) reaches 9.5 at latitude 84, where one ulp (1.8e-15) exceeds a threshold of
    # 1e-15, so the iterate may flip between two adjacent doubles for ever - the result is correct all the same.  A `raise` on the residual
    # after the loop must therefore allow a few ulps of the largest t of the band
    resid = set()
    for c in ast.walk(loop.test):
        if isinstance(c, ast.Compare) and isinstance(c.left, ast.Name) and isinstance(c.ops[0], (ast.Gt, ast.GtE)):
            resid.add(c.left.id)
    key = 'R-BOUND::geodepy/convert.py::grid2geo::non-convergence'
    late = []
    for st in f.node.body:
        if getattr(st, 'lineno', 0) <= loop.lineno:
            continue
        for n in ast.walk(st):
            if isinstance(n, ast.If) and any(isinstance(b, ast.Raise) for b in n.body):
                for c in ast.walk(n.test):
                    if isinstance(c, ast.Compare) and isinstance(c.left, ast.Name) and c.left.id in resid and isinstance(c.comparators[0], ast.Constant) \
                            and isinstance(c.comparators[0].value, (int, float)):
                        late.append((n, c.comparators[0].value))
    if not late:
        rep.holds('R-BOUND', key, where(f, loop), 'no exception is raised on the residual after the Newton loop')
    for n, v in late:
        if v < 8e-15:
            rep.violated('R-BOUND', key, where(f, n), 'an exception is raised when the residual after the loop exceeds %s: one ulp of t = tan(lat) is 1.8e-15 from latitude 82.9 up, so an iterate '
                         'that alternates between two adjacent doubles (about 2 %% of the points between 82.9 and 84 degrees) is rejected although the result is correct' % v,
                         expected='no exception, or a tolerance of several ulps of the largest t (>= 1e-14)', actual=stmt_text(n.test))
        else:
            rep.holds('R-BOUND', key, where(f, n), 'non-convergence is reported only beyond %s, several ulps of the largest t' % v)


def cm_sibling_rule(repo, rep, ctx):
    """C02.5: the inverse uses the same central-meridian form as the forward conversion"""
    f = repo.func('geodepy.convert', 'geo2grid')
    ev = Evaluator(repo, opaque={'alpha_coeff', 'rect_radius', 'psfandgridconv'})
    E = sym_ellipsoid(ev, repo, 'ellipsoid')
    P = sym_projection(ev, repo, 'prj')
    names = [p.name for p in f.params]
    ev.call_function(f, {names[0]: Rat.sym('lat'), names[1]: Rat.sym('lon'), names[2]: Rat.sym('zone'), names[3]: E, names[4]: P})
    cm_f = None
    for caller, callee, b, node in ev.calls:
        if caller == 'geo2grid' and callee == 'psfandgridconv':
            cm_f = b.get([p.name for p in repo.func('geodepy.convert', 'psfandgridconv').params][4])
    key = 'R-SIBLING::geodepy/convert.py::grid2geo::central-meridian'
    w = where(repo.func('geodepy.convert', 'grid2geo'), repo.func('geodepy.convert', 'grid2geo').node)
    if not isinstance(cm_f, Rat):
        rep.undecided('R-SIBLING', key, w, 'forward central meridian not identified')
        return
    zero = alg.opaque('eq', (alg.opaque('int', (Rat.sym('zone'),)), C(0)))
    cm_f2 = alg.assume(cm_f, zero, False)
    r = alg.decide_equal(cm_f2, ctx['cm'])
    if r == 'equal':
        rep.holds('R-SIBLING', key, w, 'grid2geo and geo2grid (explicit zone) use the identical central-meridian expression')
    elif r == 'different':
        rep.violated('R-SIBLING', key, w, 'grid2geo computes the central meridian of a zone differently from geo2grid',
                     expected=show(cm_f2, 3, 400), actual=show(ctx['cm'], 3, 400))
    else:
        rep.undecided('R-SIBLING', key, w, 'central-meridian forms differ but not definitely')


def run(repo, rep):
    alg.reset()
    common.state_rule(repo, rep, [('geodepy.convert', 'grid2geo')])
    common.ellipsoid_rules(repo, rep, projections=True)
    rep.trust('sv/alg.py exact normal forms; generator independence modulo the rewrite rules applied')
    rep.trust('beta oracle = exact Lagrange reversion (sv/tables.py) of the Krueger alpha table; reference inverse equations: Karney (2011) / Deakin')
    rep.assume('float(x) == x, round(x, d) identity with granularity 10^-d, str.lower() on the hemisphere argument kept symbolic')
    beta = table_rules(repo, rep)
    standalone_rules(repo, rep, beta)
    ctx = formula_rules(repo, rep)
    guard_rules(repo, rep)
    common.tm_division_rules(repo, rep)
    # geographic -> grid -> geographic goes through the automatic zone of geo2grid: zone / central meridian on the lattice
    common.zone_table_rule(repo, rep)
    # ... and through the forward series itself: its formula rules (all eight terms of both sums) are part of the round trip
    from . import c01 as _c01
    ctx1_ = _c01.formula_rules(repo, rep)
    if ctx1_ is not None:
        _c01.zone_rules(repo, rep, ctx1_)
    common.longitude_range_rule(repo, rep)
    common.standalone_longitude_rule(repo, rep)
    common.validated_copy_rule(repo, rep, [('geodepy.convert', 'grid2geo')])
    if ctx is not None:
        cm_sibling_rule(repo, rep, ctx)
    tr = ThreadRule(repo, _Filter(rep, lambda key: 'psfandgridconv' not in key))
    f = repo.func('geodepy.convert', 'grid2geo')
    tr.check_const(f)
    tr.check_const(repo.func('geodepy.convert', 'beta_coeff'))
    tr.check_function(f)
    # the object wrapper named in the property's observe_at list hands its ellipsoid and projection on
    ThreadRule(repo, rep).check_function(repo.func('geodepy.coord', 'CoordTM.geo'), roles=('ellipsoid', 'prj'))
    from . import c15
    c15.delegation_rules(repo, rep, only=('CoordTM.geo', 'CoordGeo.tm'))
    # ... and a rounded grid coordinate is still the coordinate of its hemisphere and projection
    c15.round_rules(repo, rep)
    rep.floor('R-TABLE', 17, '8 library rows, 8 stand-alone rows, stand-alone rectifying radius')


def controls(repo):
    out = []
    out.append(('beta-sign', text_variant(repo, 'geodepy/convert.py', '            - 7257600))', '            + 7257600))'), 'beta_coeff::b4'))
    src = repo.sources['geodepy/convert.py']

    def drop_fn(fn):
        # southern branch forgets the false northing
        def pred(n):
            return isinstance(n, ast.BinOp) and isinstance(n.op, ast.Sub) and isinstance(n.left, ast.Name) and n.left.id == 'north'

        def make(n):
            return n.left
        substitute(fn, pred, make, limit=1, expect=1)
    out.append(('south-false-northing', repo.variant({'geodepy/convert.py': replace_in_function(src, 'grid2geo', drop_fn)}), 'grid2geo::xi1'))
    out.append(('longitude-fold-dropped', text_variant(repo, 'geodepy/convert.py', '        long -= 360\n', '        long -= 0\n'), 'longitude-accepted-by-geo2grid'))
    out.append(('standalone-b6', text_variant(repo, 'Standalone/mga2gda.py', '        - 22619520))', '        + 22619520))'), 'mga2gda.py::<module>::b6'))
    return out
