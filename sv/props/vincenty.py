"""shared by C04 / C05: reference equations of Vincenty's formulae (GDA2020 technical manual eq. 71-102) and helpers"""
import ast
from fractions import Fraction as F
from .. import alg, tables
from ..alg import Rat, C
from ..symval import Evaluator, Tup
from ..symcheck import Oracle
from ..rules import where

ORACLE = '''
from math import sin, cos, tan, atan, atan2, asin, sqrt, radians, degrees

def polyA(w, Ac):
    return 1 + (w / 16384) * (Ac[0] + w * (Ac[1] + w * (Ac[2] + Ac[3] * w)))

def polyB(w, Bc):
    return (w / 1024) * (Bc[0] + w * (Bc[1] + w * (Bc[2] + Bc[3] * w)))

def dsigma(B, sigma, c2sm):
    return B * sin(sigma) * (c2sm + (B / 4) * (cos(sigma) * (-1 + 2 * c2sm ** 2) - (B / 6) * c2sm * (-3 + 4 * sin(sigma) ** 2) * (-3 + 4 * c2sm ** 2)))

def Cfun(f, ca2):
    return (f / 16) * ca2 * (4 + f * (4 - 3 * ca2))

def usq(alpha, a, b):
    return cos(alpha) ** 2 * (a ** 2 - b ** 2) / b ** 2

def direct_setup(lat1, az_deg, s, a, b, f, Ac, Bc):
    az = radians(az_deg)
    u1 = atan((1 - f) * tan(radians(lat1)))
    sigma1 = atan2(tan(u1), cos(az))
    alpha = asin(cos(u1) * sin(az))
    w = usq(alpha, a, b)
    A = polyA(w, Ac)
    B = polyB(w, Bc)
    sigma0 = s / (b * A)
    return u1, sigma1, alpha, A, B, sigma0

def direct_step(sigma, sigma1, A, B, s, b):
    tsm = 2 * sigma1 + sigma
    new_sigma = (s / (b * A)) + dsigma(B, sigma, cos(tsm))
    return tsm, new_sigma

def direct_finish(lon1, az_deg, u1, alpha, sigma, tsm, f):
    az = radians(az_deg)
    lat2 = degrees(atan2(sin(u1) * cos(sigma) + cos(u1) * sin(sigma) * cos(az),
                         (1 - f) * sqrt(sin(alpha) ** 2 + (sin(u1) * sin(sigma) - cos(u1) * cos(sigma) * cos(az)) ** 2)))
    lam = atan2(sin(sigma) * sin(az), cos(u1) * cos(sigma) - sin(u1) * sin(sigma) * cos(az))
    c = Cfun(f, cos(alpha) ** 2)
    omega = lam - (1 - c) * f * sin(alpha) * (sigma + c * sin(sigma) * (cos(tsm) + c * cos(sigma) * (-1 + 2 * cos(tsm) ** 2)))
    lon2 = lon1 + degrees(omega)
    az2 = degrees(atan2(sin(alpha), -sin(u1) * sin(sigma) + cos(u1) * cos(sigma) * cos(az))) + 180
    return lat2, lon2, az2

def inverse_setup(lat1, lon1, lat2, lon2, f):
    u1 = atan((1 - f) * tan(radians(lat1)))
    u2 = atan((1 - f) * tan(radians(lat2)))
    omega = radians(lon2 - lon1)
    return u1, u2, omega

def inverse_step(lam, omega, u1, u2, f):
    sin_sigma = sqrt((cos(u2) * sin(lam)) ** 2 + (cos(u1) * sin(u2) - sin(u1) * cos(u2) * cos(lam)) ** 2)
    cos_sigma = sin(u1) * sin(u2) + cos(u1) * cos(u2) * cos(lam)
    sigma = atan2(sin_sigma, cos_sigma)
    alpha = asin((cos(u1) * cos(u2) * sin(lam)) / sin_sigma)
    c2sm = cos(sigma) - (2 * sin(u1) * sin(u2) / cos(alpha) ** 2)
    c = Cfun(f, cos(alpha) ** 2)
    new_lam = omega + (1 - c) * f * sin(alpha) * (sigma + c * sin(sigma) * (c2sm + c * cos(sigma) * (-1 + 2 * (c2sm ** 2))))
    return sigma, alpha, c2sm, new_lam

def inverse_finish(lam, sigma, alpha, c2sm, u1, u2, a, b, Ac, Bc):
    w = usq(alpha, a, b)
    A = polyA(w, Ac)
    B = polyB(w, Bc)
    ds = dsigma(B, sigma, c2sm)
    dist = b * A * (sigma - ds)
    az1 = degrees(atan2((cos(u2) * sin(lam)), (cos(u1) * sin(u2) - sin(u1) * cos(u2) * cos(lam))))
    if az1 < 0:
        az1 = az1 + 360
    az2 = degrees(atan2(cos(u1) * sin(lam), (-sin(u1) * cos(u2) + cos(u1) * sin(u2) * cos(lam)))) + 180
    return dist, az1, az2
'''

A_ORACLE = {0: F(1), 1: F(4096, 16384), 2: F(-768, 16384), 3: F(320, 16384), 4: F(-175, 16384)}
B_ORACLE = {1: F(256, 1024), 2: F(-128, 1024), 3: F(74, 1024), 4: F(-47, 1024)}
W_MAX = F(722, 100000)       # e'^2 at 1/f = 280 is 0.007181...; cos^2(alpha) <= 1
B_MIN = F(6270000)           # semi-minor axis range of the Earth-like family
B_MAX = F(6400000)
PI_UP = F(31416, 10000)


def a_oracle_derived():
    """A(u^2) from first principles: 1/(2 pi) * integral of sqrt(1 + u^2 sin^2 x) = sum_k binom(1/2,k) * (2k-1)!!/(2k)!! * u^(2k)"""
    out = {}
    b = F(1)
    w = F(1)
    for k in range(0, 5):
        if k > 0:
            b = b * (F(1, 2) - (k - 1)) / k
            w = w * F(2 * k - 1, 2 * k)
        out[k] = b * w
    return out


def poly_assignments(repo, func):
    """assignments  v = <polynomial with numeric coefficients in exactly one local name>  -> list of (target, var, {power: Fraction}, node)"""
    out = []
    ev = Evaluator(repo)
    for st in ast.walk(func.node):
        if not (isinstance(st, ast.Assign) and len(st.targets) == 1 and isinstance(st.targets[0], ast.Name)):
            continue
        names = set()
        ok = True
        for n in ast.walk(st.value):
            if isinstance(n, ast.Name):
                names.add(n.id)
            elif isinstance(n, (ast.Call, ast.Attribute, ast.Subscript, ast.Compare, ast.IfExp)):
                ok = False
        if not ok or len(names) != 1:
            continue
        var = list(names)[0]
        v = ev.eval(st.value, {var: Rat.sym('w__')}, func)
        if not isinstance(v, Rat):
            continue
        v = alg.unfold_all(v)
        if v is None:
            continue
        a = alg.TABLE.syms.get('w__')
        p = alg.real_poly_in(v, a.id) if a is not None else None
        if p is None or max(p) < 3:
            continue
        out.append((st.targets[0].id, var, p, st))
    return out


def series_tables(repo, rep, func, dist_amp_note):
    """R-TABLE for the A and B polynomials of a Vincenty routine; returns (Acoef, Bcoef) to be used by the formula oracle"""
    pas = poly_assignments(repo, func)
    # the series may live in a helper called by the routine (same module, one or two levels)
    from ..resolve import Resolver
    from ..model import Func as _Func, calls_in as _calls_in
    rs = Resolver(repo)
    seen = {func.key}
    frontier = [func]
    for _ in range(2):
        nxt = []
        for g in frontier:
            for c in _calls_in(g.node):
                t = rs.callee(g, c)
                if isinstance(t, _Func) and t.module is func.module and t.key not in seen:
                    seen.add(t.key)
                    nxt.append(t)
                    pas.extend(poly_assignments(repo, t))
        frontier = nxt
    A = [p for p in pas if p[2].get(0, 0) == 1]
    B = [p for p in pas if p[2].get(0, 0) == 0 and p[2].get(1, 0) != 0]
    base = 'R-TABLE::%s::%s::' % (func.module.relpath, func.qualname)
    use_A = None
    use_B = None
    if len(A) != 1 or len(B) != 1:
        rep.undecided('R-TABLE', base + 'A,B', where(func, func.node), 'could not identify the A(u^2) and B(u^2) polynomial assignments (%d, %d candidates)' % (len(A), len(B)))
    else:
        # effect of a deviation dA on the distance: b * sigma * dA (sigma up to pi); of dB: b * dB (delta_sigma ~ B sin sigma)
        before = len(rep.instances)
        tables.table_rule(rep, 'R-TABLE', base + 'A', where(func, A[0][3]), A[0][2], A_ORACLE, F(0), W_MAX, B_MIN * 3, B_MAX * PI_UP, F(1, 1000),
                          'A(u^2) = 1 + u^2/16384 (4096 + u^2(-768 + u^2(320 - 175 u^2)))')
        if rep.instances[-1].verdict in ('HOLDS', 'SUBTOL'):
            use_A = A[0][2]
        tables.table_rule(rep, 'R-TABLE', base + 'B', where(func, B[0][3]), B[0][2], B_ORACLE, F(0), W_MAX, B_MIN, B_MAX * 2, F(1, 1000),
                          'B(u^2) = u^2/1024 (256 + u^2(-128 + u^2(74 - 47 u^2)))')
        if rep.instances[-1].verdict in ('HOLDS', 'SUBTOL'):
            use_B = B[0][2]
    der = a_oracle_derived()
    if der != A_ORACLE:
        from ..model import AnalysisError
        raise AnalysisError('frozen A(u^2) table disagrees with its first-principles derivation')
    Ac = coef_tuple(use_A or A_ORACLE, 16384, 1)
    Bc = coef_tuple(use_B or B_ORACLE, 1024, 1)
    return Ac, Bc


def coef_tuple(poly, scale, first):
    """{power: c} -> Tup of the four bracket coefficients (c_k * scale for k = first .. first+3)"""
    return Tup([C(poly.get(k, 0) * scale) for k in range(first, first + 4)])


MODULE_CONSTS = [{}]      # numeric constants bound once at module level in the module of the loop looked at (set by the caller)


def module_consts(module):
    """{name: number} for module-level `NAME = <number>` bindings that are the only binding of the name: an iteration cap or a tolerance may
    be written as a named constant"""
    seen = {}
    for st in module.tree.body:
        if isinstance(st, ast.Assign) and len(st.targets) == 1 and isinstance(st.targets[0], ast.Name):
            nm = st.targets[0].id
            v = st.value
            neg = False
            if isinstance(v, ast.UnaryOp) and isinstance(v.op, ast.USub):
                v, neg = v.operand, True
            if isinstance(v, ast.Constant) and isinstance(v.value, (int, float)) and not isinstance(v.value, bool):
                seen[nm] = None if nm in seen else (-v.value if neg else v.value)
            else:
                seen[nm] = None
    MODULE_CONSTS[0] = dict((k, v) for k, v in seen.items() if v is not None)
    return MODULE_CONSTS[0]


def _number(e):
    if isinstance(e, ast.Constant) and isinstance(e.value, (int, float)) and not isinstance(e.value, bool):
        return e.value
    if isinstance(e, ast.Name) and e.id in MODULE_CONSTS[0]:
        return MODULE_CONSTS[0][e.id]
    return None


def loop_break_threshold(loop_node):
    """number t of  'if abs(x) < t: break' inside the loop (a literal or a module-level named constant), else None"""
    for n in ast.walk(loop_node):
        if isinstance(n, ast.If) and any(isinstance(b, ast.Break) for b in n.body):
            for c in ast.walk(n.test):
                if isinstance(c, ast.Compare) and isinstance(c.ops[0], (ast.Lt, ast.LtE)) and _number(c.comparators[0]) is not None:
                    return _number(c.comparators[0])
    return None


def loop_cap(loop_node):
    if isinstance(loop_node, ast.For) and isinstance(loop_node.iter, ast.Call) and isinstance(loop_node.iter.func, ast.Name) \
            and loop_node.iter.func.id == 'range' and loop_node.iter.args:
        a = loop_node.iter.args
        return _number(a[0] if len(a) == 1 else a[1])
    return None
